// Package model holds the reference models. None of them calls the code under
// test; they are built from the google/fhir descriptors, jsonformat output,
// math/big and the property statements.
package model

import (
	"bytes"
	"encoding/json"
	"fmt"
	"sort"
	"strings"

	"github.com/google/fhir/go/fhirversion"
	"github.com/google/fhir/go/jsonformat"
	bcrpb "github.com/google/fhir/go/proto/google/fhir/proto/r4/core/resources/bundle_and_contained_resource_go_proto"
	"github.com/verily-src/fhirpath-go/fhirpath/verifharness/gen"
	"google.golang.org/protobuf/proto"
	"google.golang.org/protobuf/reflect/protoreflect"
	"google.golang.org/protobuf/types/known/anypb"
)

// Node is one element of a resource's FHIR tree: the proto node plus the JSON
// value jsonformat renders for it.
type Node struct {
	Name         string // element name under the parent (choice elements: base name)
	Msg          proto.Message
	Fresh        bool    // Msg was unpacked from an Any by the harness: identity is not expected, structural equality is
	Synth        *string // synthesized primitive (typed reference rendered as "Type/id")
	MD           protoreflect.MessageDescriptor
	ChoiceMsg    string // name of the choice wrapper message this element was reached through ("" if none)
	ChoiceMember string // JSON type suffix of the chosen member, e.g. "Boolean"
	JSON         any    // JSON value: map[string]any for complex, string/json.Number/bool for primitives, nil if value-less
	JSONExt      map[string]any
	Kids         []*Node
	IsPrim       bool
	IsResource   bool
	Parent       *Node
	Index        int
	Key          string                       // JSON key under the parent object
	Pos          int                          // index in the JSON array / proto list (-1 for a singular field)
	FD           protoreflect.FieldDescriptor // field of the parent message holding this element (or its choice wrapper / Any)
}

var marshaller *jsonformat.Marshaller

func init() {
	var err error
	marshaller, err = jsonformat.NewMarshaller(false, "", "", fhirversion.R4)
	if err != nil {
		panic(err)
	}
}

// MarshalJSON renders the canonical FHIR JSON of a resource. jsonformat mutates
// its argument (reference denormalisation), so it always works on a clone.
func MarshalJSON(res proto.Message) ([]byte, error) {
	return marshaller.MarshalResource(proto.Clone(res))
}

func ParseJSON(b []byte) (map[string]any, error) {
	dec := json.NewDecoder(bytes.NewReader(b))
	dec.UseNumber()
	var out map[string]any
	if err := dec.Decode(&out); err != nil {
		return nil, err
	}
	return out, nil
}

// BuildTree walks the resource proto and its JSON rendering in parallel.
// An inconsistency between the two walks is a harness error (returned), never a verdict.
func BuildTree(res proto.Message) (*Node, error) {
	b, err := MarshalJSON(res)
	if err != nil {
		return nil, fmt.Errorf("jsonformat: %w", err)
	}
	j, err := ParseJSON(b)
	if err != nil {
		return nil, err
	}
	root := &Node{Name: string(res.ProtoReflect().Descriptor().Name()), Msg: res, MD: res.ProtoReflect().Descriptor(), JSON: j, IsResource: true}
	if err := buildComplex(root, res.ProtoReflect(), j, true); err != nil {
		return nil, err
	}
	idx := 0
	var number func(n *Node)
	number = func(n *Node) {
		n.Index = idx
		idx++
		for _, k := range n.Kids {
			k.Parent = n
			number(k)
		}
	}
	number(root)
	return root, nil
}

func upperFirst(s string) string {
	if s == "" {
		return s
	}
	return strings.ToUpper(s[:1]) + s[1:]
}

func buildComplex(n *Node, m protoreflect.Message, j map[string]any, isResource bool) error {
	md := m.Descriptor()
	consumed := map[string]bool{}
	if isResource {
		rt, _ := j["resourceType"].(string)
		if rt != string(md.Name()) {
			return fmt.Errorf("resourceType %q for message %s", rt, md.Name())
		}
		consumed["resourceType"] = true
	}
	isRef := gen.IsReference(md)
	fields := md.Fields()
	for i := 0; i < fields.Len(); i++ {
		fd := fields.Get(i)
		if !m.Has(fd) {
			continue
		}
		if fd.Message() == nil {
			return fmt.Errorf("non-message field %s on %s", fd.Name(), md.FullName())
		}
		base := fd.JSONName()
		if isRef && fd.ContainingOneof() != nil && fd.ContainingOneof().Name() == "reference" {
			// uri / fragment / typed id all render as JSON "reference"
			s, ok := j["reference"].(string)
			if !ok {
				return fmt.Errorf("reference string missing in JSON for %s", fd.Name())
			}
			consumed["reference"] = true
			consumed["_reference"] = true
			sv := s
			n.Kids = append(n.Kids, &Node{Name: "reference", Synth: &sv, JSON: s, IsPrim: true})
			continue
		}
		var items []protoreflect.Message
		if fd.IsList() {
			l := m.Get(fd).List()
			for k := 0; k < l.Len(); k++ {
				items = append(items, l.Get(k).Message())
			}
		} else {
			items = []protoreflect.Message{m.Get(fd).Message()}
		}
		for k, it := range items {
			kid := &Node{Name: base, FD: fd, Pos: -1}
			if fd.IsList() {
				kid.Pos = k
			}
			key := base
			el := it
			// choice wrapper -> chosen member
			if gen.IsChoice(el.Descriptor()) {
				od := el.Descriptor().Oneofs().Get(0)
				wf := el.WhichOneof(od)
				if wf == nil {
					return fmt.Errorf("empty choice wrapper %s", el.Descriptor().FullName())
				}
				kid.ChoiceMsg = string(el.Descriptor().Name())
				kid.ChoiceMember = upperFirst(wf.JSONName())
				key = base + kid.ChoiceMember
				el = el.Get(wf).Message()
			}
			// contained: Any -> ContainedResource -> resource
			if a, ok := el.Interface().(*anypb.Any); ok {
				cr := &bcrpb.ContainedResource{}
				if err := a.UnmarshalTo(cr); err != nil {
					return fmt.Errorf("unpacking Any: %w", err)
				}
				el = cr.ProtoReflect()
				kid.Fresh = true
			}
			if cr, ok := el.Interface().(*bcrpb.ContainedResource); ok {
				crm := cr.ProtoReflect()
				wf := crm.WhichOneof(crm.Descriptor().Oneofs().Get(0))
				if wf == nil {
					return fmt.Errorf("empty ContainedResource")
				}
				el = crm.Get(wf).Message()
				kid.IsResource = true
			}
			kid.Msg = el.Interface()
			kid.MD = el.Descriptor()
			kid.Key = key
			consumed[key] = true
			consumed["_"+key] = true
			var jv, jext any
			if fd.IsList() {
				if arr, ok := j[key].([]any); ok && k < len(arr) {
					jv = arr[k]
				}
				if arr, ok := j["_"+key].([]any); ok && k < len(arr) {
					jext = arr[k]
				}
			} else {
				jv = j[key]
				jext = j["_"+key]
			}
			if gen.IsPrimitive(el.Descriptor()) {
				kid.IsPrim = true
				kid.JSON = jv
				if jm, ok := jext.(map[string]any); ok {
					kid.JSONExt = jm
				}
				if jv == nil && kid.JSONExt == nil {
					return fmt.Errorf("primitive %s.%s[%d] absent from JSON", md.Name(), key, k)
				}
				if err := buildPrimitiveKids(kid, el); err != nil {
					return err
				}
			} else {
				jm, ok := jv.(map[string]any)
				if !ok {
					return fmt.Errorf("complex %s.%s[%d] is not a JSON object (%T)", md.Name(), key, k, jv)
				}
				kid.JSON = jm
				if err := buildComplex(kid, el, jm, kid.IsResource); err != nil {
					return err
				}
			}
			n.Kids = append(n.Kids, kid)
		}
	}
	var extra []string
	for k := range j {
		if !consumed[k] {
			extra = append(extra, k)
		}
	}
	if len(extra) > 0 {
		sort.Strings(extra)
		return fmt.Errorf("JSON keys of %s not produced by the proto walk: %v", md.Name(), extra)
	}
	return nil
}

func buildPrimitiveKids(n *Node, m protoreflect.Message) error {
	md := m.Descriptor()
	if idf := md.Fields().ByName("id"); idf != nil && m.Has(idf) {
		idm := m.Get(idf).Message()
		var jv any
		if n.JSONExt != nil {
			jv = n.JSONExt["id"]
		}
		if jv == nil {
			return fmt.Errorf("primitive id missing in JSON for %s", md.Name())
		}
		n.Kids = append(n.Kids, &Node{Name: "id", Msg: idm.Interface(), MD: idm.Descriptor(), JSON: jv, IsPrim: true, FD: idf, Pos: -1, Key: "id"})
	}
	if ef := md.Fields().ByName("extension"); ef != nil && ef.IsList() && m.Has(ef) {
		l := m.Get(ef).List()
		var arr []any
		if n.JSONExt != nil {
			arr, _ = n.JSONExt["extension"].([]any)
		}
		if len(arr) != l.Len() {
			return fmt.Errorf("primitive extension count mismatch for %s: proto %d json %d", md.Name(), l.Len(), len(arr))
		}
		for k := 0; k < l.Len(); k++ {
			el := l.Get(k).Message()
			jm, ok := arr[k].(map[string]any)
			if !ok {
				return fmt.Errorf("primitive extension not an object")
			}
			kid := &Node{Name: "extension", Msg: el.Interface(), MD: el.Descriptor(), JSON: jm, FD: ef, Pos: k, Key: "extension"}
			if err := buildComplex(kid, el, jm, false); err != nil {
				return err
			}
			n.Kids = append(n.Kids, kid)
		}
	}
	return nil
}

// KidsNamed returns the children with the given element name, in document order.
func (n *Node) KidsNamed(name string) []*Node {
	var out []*Node
	for _, k := range n.Kids {
		if k.Name == name {
			out = append(out, k)
		}
	}
	return out
}

// KidNames returns the distinct child names in first-occurrence order.
func (n *Node) KidNames() []string {
	seen := map[string]bool{}
	var out []string
	for _, k := range n.Kids {
		if !seen[k.Name] {
			seen[k.Name] = true
			out = append(out, k.Name)
		}
	}
	return out
}

// All returns the node and its descendants in pre-order.
func (n *Node) All() []*Node {
	out := []*Node{n}
	for _, k := range n.Kids {
		out = append(out, k.All()...)
	}
	return out
}

// PathTo returns the element names from the root to this node (root excluded).
func (n *Node) PathTo() []string {
	var p []string
	for c := n; c.Parent != nil; c = c.Parent {
		p = append([]string{c.Name}, p...)
	}
	return p
}

// UnderFresh reports whether the node lies inside an unpacked contained resource.
func (n *Node) UnderFresh() bool {
	for c := n; c != nil; c = c.Parent {
		if c.Fresh {
			return true
		}
	}
	return false
}
