package model

import (
	"sort"
	"strings"

	"github.com/verily-src/fhirpath-go/fhirpath/verifharness/gen"
	"google.golang.org/protobuf/reflect/protoreflect"
)

// TypeRef is a (namespace, name) pair.
type TypeRef struct{ NS, Name string }

func (t TypeRef) String() string { return t.NS + "." + t.Name }

var primitiveParents = map[string]string{
	"code": "string", "id": "string", "markdown": "string",
	"unsignedInt": "integer", "positiveInt": "integer",
	"url": "uri", "canonical": "uri", "uuid": "uri", "oid": "uri",
}

var quantityProfiles = map[string]bool{"Age": true, "Count": true, "Distance": true, "Duration": true, "MoneyQuantity": true, "SimpleQuantity": true}

var resourceOnly = map[string]bool{"Bundle": true, "Binary": true, "Parameters": true}

var primitiveNames = []string{"instant", "time", "date", "dateTime", "base64Binary", "decimal", "boolean", "url", "code", "string", "integer", "uri", "canonical", "markdown", "id", "oid", "uuid", "unsignedInt", "positiveInt"}

var systemNames = []string{"Boolean", "String", "Integer", "Decimal", "Date", "DateTime", "Time", "Quantity", "Any"}

func lowerFirst(s string) string {
	if s == "" {
		return s
	}
	return strings.ToLower(s[:1]) + s[1:]
}

func hasField(md protoreflect.MessageDescriptor, name string) bool {
	return md.Fields().ByName(protoreflect.Name(name)) != nil
}

// DeclaredType returns the FHIR type of an element from its descriptor (schema position), and ok=false
// for messages the model does not type (xhtml, ReferenceId, …).
func DeclaredType(md protoreflect.MessageDescriptor) (TypeRef, bool) {
	name := string(md.Name())
	switch {
	case gen.IsResource(md):
		return TypeRef{"FHIR", name}, true
	case gen.IsPrimitive(md):
		if gen.IsCodeWrapper(md) {
			return TypeRef{"FHIR", "code"}, true
		}
		if name == "Xhtml" {
			// (the repository spells this type name FHIR.Xhtml; no valid specifier names it, so the spelling is
			// never asked for: only its place below Element is)
			return TypeRef{"FHIR", "xhtml"}, true
		}
		if name == "ReferenceId" {
			return TypeRef{}, false
		}
		return TypeRef{"FHIR", lowerFirst(name)}, true
	case md.Parent() != md.ParentFile():
		// nested component of a resource or datatype
		if _, isMsg := md.Parent().(protoreflect.MessageDescriptor); isMsg {
			if hasField(md, "modifier_extension") {
				return TypeRef{"FHIR", "BackboneElement"}, true
			}
			return TypeRef{"FHIR", "Element"}, true
		}
	}
	if tn := gen.FHIRTypeName(md); tn != "" {
		return TypeRef{"FHIR", tn}, true
	}
	return TypeRef{}, false
}

// datatypeMD finds the descriptor of a top-level datatype by FHIR type name (for the BackboneElement rule).
var datatypeByName map[string]protoreflect.MessageDescriptor

func initDatatypes() {
	if datatypeByName != nil {
		return
	}
	datatypeByName = map[string]protoreflect.MessageDescriptor{}
	for _, md := range gen.DatatypeMessages() {
		if gen.IsComplexType(md) {
			if tn := gen.FHIRTypeName(md); tn != "" && !strings.Contains(tn, "WithFixed") {
				datatypeByName[tn] = md // (CodingWithFixedCode/System are google/fhir profile helpers, not FHIR types)
			}
		}
	}
}

// Parent returns the direct supertype in the R4 hierarchy ("" at a root).
func Parent(t TypeRef) (TypeRef, bool) {
	if t.NS == "System" {
		if t.Name == "Any" {
			return TypeRef{}, false
		}
		return TypeRef{"System", "Any"}, true
	}
	initDatatypes()
	switch t.Name {
	case "Element", "Resource":
		return TypeRef{}, false
	case "BackboneElement":
		return TypeRef{"FHIR", "Element"}, true
	case "DomainResource":
		return TypeRef{"FHIR", "Resource"}, true
	}
	if t.Name == "xhtml" {
		return TypeRef{"FHIR", "Element"}, true
	}
	if p, ok := primitiveParents[t.Name]; ok {
		return TypeRef{"FHIR", p}, true
	}
	for _, p := range primitiveNames {
		if p == t.Name {
			return TypeRef{"FHIR", "Element"}, true
		}
	}
	if quantityProfiles[t.Name] {
		return TypeRef{"FHIR", "Quantity"}, true
	}
	if gen.ResourceTypeByName(t.Name) != nil {
		if resourceOnly[t.Name] {
			return TypeRef{"FHIR", "Resource"}, true
		}
		return TypeRef{"FHIR", "DomainResource"}, true
	}
	if md, ok := datatypeByName[t.Name]; ok {
		if hasField(md, "modifier_extension") {
			return TypeRef{"FHIR", "BackboneElement"}, true
		}
		return TypeRef{"FHIR", "Element"}, true
	}
	return TypeRef{}, false
}

// IsSubtype: t is u or derives from u.
func IsSubtype(t, u TypeRef) bool {
	for {
		if t == u {
			return true
		}
		p, ok := Parent(t)
		if !ok {
			return false
		}
		t = p
	}
}

// FHIRTypeNames lists every FHIR type name a specifier may name: resources, complex datatypes, primitives, abstract types.
func FHIRTypeNames() []string {
	initDatatypes()
	set := map[string]bool{"Element": true, "BackboneElement": true, "Resource": true, "DomainResource": true}
	for _, md := range gen.ResourceTypes() {
		set[string(md.Name())] = true
	}
	for n := range datatypeByName {
		set[n] = true
	}
	for _, p := range primitiveNames {
		set[p] = true
	}
	var out []string
	for n := range set {
		out = append(out, n)
	}
	sort.Strings(out)
	return out
}

func IsFHIRTypeName(n string) bool {
	for _, x := range FHIRTypeNames() {
		if x == n {
			return true
		}
	}
	return false
}

func IsSystemTypeName(n string) bool {
	for _, x := range systemNames {
		if x == n {
			return true
		}
	}
	return false
}

func SystemTypeNames() []string { return systemNames }

// ResolveSpecifier resolves specifier text ("T" or "NS.T"): FHIR first, then System, case-sensitively.
func ResolveSpecifier(spec string) (TypeRef, bool) {
	parts := strings.Split(spec, ".")
	switch len(parts) {
	case 1:
		if IsFHIRTypeName(parts[0]) {
			return TypeRef{"FHIR", parts[0]}, true
		}
		if IsSystemTypeName(parts[0]) {
			return TypeRef{"System", parts[0]}, true
		}
	case 2:
		switch parts[0] {
		case "FHIR":
			if IsFHIRTypeName(parts[1]) {
				return TypeRef{"FHIR", parts[1]}, true
			}
		case "System":
			if IsSystemTypeName(parts[1]) {
				return TypeRef{"System", parts[1]}, true
			}
		}
	}
	return TypeRef{}, false
}
