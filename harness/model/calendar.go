package model

import (
	"math/big"
)

// UnitInfo describes a time-valued unit.
type UnitInfo struct {
	Rank    int    // 1 year, 2 month, 3 week/day, 4 hour, 5 minute, 6 second, 7 millisecond
	Family  string // year month week day hour minute second ms
	Keyword bool   // calendar duration keyword (vs UCUM code)
}

var timeUnits = map[string]UnitInfo{
	"year": {1, "year", true}, "years": {1, "year", true}, "a": {1, "year", false},
	"month": {2, "month", true}, "months": {2, "month", true}, "mo": {2, "month", false},
	"week": {3, "week", true}, "weeks": {3, "week", true}, "wk": {3, "week", false},
	"day": {3, "day", true}, "days": {3, "day", true}, "d": {3, "day", false},
	"hour": {4, "hour", true}, "hours": {4, "hour", true}, "h": {4, "hour", false},
	"minute": {5, "minute", true}, "minutes": {5, "minute", true}, "min": {5, "minute", false},
	"second": {6, "second", true}, "seconds": {6, "second", true}, "s": {6, "second", false},
	"millisecond": {7, "ms", true}, "milliseconds": {7, "ms", true}, "ms": {7, "ms", false},
}

func TimeUnit(u string) (UnitInfo, bool) { i, ok := timeUnits[u]; return i, ok }

// msPer gives the length of a unit in milliseconds under the fixed conversion table
// (1 year = 365 days, 1 month = 30 days, 1 week = 7 days).
var msPer = map[string]int64{"year": 365 * 86400000, "month": 30 * 86400000, "week": 7 * 86400000, "day": 86400000, "hour": 3600000, "minute": 60000, "second": 1000, "ms": 1}

// precFamily maps a component count to the unit family of that precision.
func precFamily(kind string, comps int) string {
	if kind == "Time" {
		return []string{"", "hour", "minute", "second"}[comps]
	}
	return []string{"", "year", "month", "day", "hour", "minute", "second"}[comps]
}

func precRank(kind string, comps int) int {
	if kind == "Time" {
		return comps + 3
	}
	return comps
}

// AddResult is the model's answer for x ± q.
type AddResult struct {
	Value     Temporal
	Alt       []Temporal // other acceptable values (statement leaves freedom)
	MayError  bool       // an error is also acceptable
	MustError bool       // a value is not acceptable
	OutOfRange bool      // result outside 0001..9999: error or empty acceptable
	Clamped   bool
	Truncated bool // amount was converted to a coarser unit with loss, or fraction dropped
}

func addMonthsClamp(y, m, d int, months int64) (int, int, int, bool) {
	total := int64(y)*12 + int64(m-1) + months
	ny := int(floorDiv(total, 12))
	nm := int(total-int64(ny)*12) + 1
	clamped := false
	if dim := daysIn(ny, nm); d > dim {
		d = dim
		clamped = true
	}
	return ny, nm, d, clamped
}

func floorDiv(a, b int64) int64 {
	q := a / b
	if (a%b != 0) && ((a < 0) != (b < 0)) {
		q--
	}
	return q
}

// shiftMillis moves a DateTime/Date/Time value by ms milliseconds on its own fixed-offset timeline.
func shiftMillis(t Temporal, ms int64) Temporal {
	fracMs := int64(t.FracMicros() / 1000)
	if t.Kind == "Time" {
		day := int64(86400000)
		cur := (int64(t.H)*3600+int64(t.Mi)*60+int64(t.S))*1000 + fracMs
		cur = ((cur+ms)%day + day) % day
		t.H, t.Mi, t.S = int(cur/3600000), int(cur/60000%60), int(cur/1000%60)
		setFracMs(&t, cur%1000)
		return t
	}
	days := DaysFromCivil(t.Y, t.Mo, t.D)
	cur := days*86400000 + (int64(t.H)*3600+int64(t.Mi)*60+int64(t.S))*1000 + fracMs + ms
	nd := floorDiv(cur, 86400000)
	rem := cur - nd*86400000
	t.Y, t.Mo, t.D = CivilFromDays(nd)
	t.H, t.Mi, t.S = int(rem/3600000), int(rem/60000%60), int(rem/1000%60)
	setFracMs(&t, rem%1000)
	return t
}

func setFracMs(t *Temporal, ms int64) {
	if t.Frac == "" {
		return // value has no fraction component: sub-second part is dropped
	}
	s := []byte{'0' + byte(ms/100), '0' + byte(ms/10%10), '0' + byte(ms%10)}
	t.Frac = string(s)
}

// truncateTo zeroes the components below the value's precision (they are unspecified).
func truncateTo(t Temporal) Temporal {
	if t.Kind == "Time" {
		if t.Comps < 2 {
			t.Mi = 0
		}
		if t.Comps < 3 {
			t.S = 0
			t.Frac = ""
		}
		return t
	}
	if t.Comps < 2 {
		t.Mo = 1
	}
	if t.Comps < 3 {
		t.D = 1
	}
	if t.Comps < 4 {
		t.H = 0
	}
	if t.Comps < 5 {
		t.Mi = 0
	}
	if t.Comps < 6 {
		t.S = 0
		t.Frac = ""
	}
	return t
}

// AddQuantity computes x + sign*(amount unit).
func AddQuantity(x Temporal, amount *big.Rat, unit string, sign int) AddResult {
	ui, ok := TimeUnit(unit)
	if !ok {
		return AddResult{MustError: true}
	}
	res := AddResult{}
	if !ui.Keyword {
		res.MayError = true // definite-duration UCUM codes may be rejected or treated like the keyword
	}
	n := TruncRat(amount).Int64()
	if !amount.IsInt() {
		res.Truncated = true
	}
	n *= int64(sign)
	pr := precRank(x.Kind, x.Comps)
	fam := precFamily(x.Kind, x.Comps)
	x = truncateTo(x)
	out := x
	apply := func(family string, k int64) Temporal {
		v := x
		switch family {
		case "year":
			y, m, d, c := addMonthsClamp(v.Y, v.Mo, v.D, k*12)
			v.Y, v.Mo, v.D = y, m, d
			res.Clamped = res.Clamped || c
		case "month":
			y, m, d, c := addMonthsClamp(v.Y, v.Mo, v.D, k)
			v.Y, v.Mo, v.D = y, m, d
			res.Clamped = res.Clamped || c
		case "week":
			v = shiftMillis(v, k*7*86400000)
		case "day":
			v = shiftMillis(v, k*86400000)
		case "hour":
			v = shiftMillis(v, k*3600000)
		case "minute":
			v = shiftMillis(v, k*60000)
		case "second":
			v = shiftMillis(v, k*1000)
		case "ms":
			v = shiftMillis(v, k)
		}
		return v
	}
	switch {
	case x.Kind == "Time" && ui.Rank < 4:
		// a calendar unit coarser than a day applied to a Time: not meaningful; error expected, unchanged value not acceptable
		return AddResult{MustError: true}
	case ui.Rank <= pr || (ui.Rank == 7 && pr == 6):
		// unit not finer than the precision (milliseconds against a second-precision value: see below)
		if ui.Family == "second" && !amount.IsInt() && pr == 6 {
			// fractional seconds keep their milliseconds
			msr := new(big.Rat).Mul(amount, big.NewRat(1000, 1))
			ms := TruncRat(msr).Int64() * int64(sign)
			out = apply("ms", ms)
			res.Alt = append(res.Alt, apply("second", n))
			res.Truncated = x.Frac == ""
		} else if ui.Rank == 7 && pr == 6 && x.Frac == "" {
			// milliseconds against a value without a fraction component: whole seconds
			out = apply("second", n/1000)
			res.Truncated = res.Truncated || n%1000 != 0
		} else {
			out = apply(ui.Family, n)
		}
	default:
		// finer unit: convert to whole units of the precision, truncating toward zero
		total := new(big.Int).Mul(big.NewInt(n), big.NewInt(msPer[ui.Family]))
		per := big.NewInt(msPer[fam])
		if ui.Family == "month" && fam == "year" {
			// 1 year = 12 months (not 365/30)
			total = big.NewInt(n)
			per = big.NewInt(12)
		}
		q := new(big.Int).Quo(total, per)
		if new(big.Int).Mul(q, per).Cmp(total) != 0 {
			res.Truncated = true
		}
		if x.Kind == "Date" && ui.Rank >= 4 {
			res.MayError = true // sub-day unit on a Date: converted or rejected
		}
		out = apply(fam, q.Int64())
	}
	if out.Kind != "Time" && (out.Y < 1 || out.Y > 9999) {
		res.OutOfRange = true
	}
	res.Value = out
	return res
}
