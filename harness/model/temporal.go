package model

import (
	"fmt"
	"strconv"
	"strings"
)

// Temporal is a parsed FHIR / FHIRPath Date, DateTime or Time text.
type Temporal struct {
	Kind  string // Date | DateTime | Time
	Y     int
	Mo    int
	D     int
	H     int
	Mi    int
	S     int
	Frac  string // fraction digits as written
	Comps int    // Date/DateTime: 1=year … 6=second ; Time: 1=hour,2=minute,3=second
	HasTZ bool
	TZMin int
}

func atoiN(s string, n int) (int, bool) {
	if len(s) != n {
		return 0, false
	}
	for _, c := range s {
		if c < '0' || c > '9' {
			return 0, false
		}
	}
	v, _ := strconv.Atoi(s)
	return v, true
}

func daysIn(y, m int) int {
	switch m {
	case 1, 3, 5, 7, 8, 10, 12:
		return 31
	case 4, 6, 9, 11:
		return 30
	}
	if (y%4 == 0 && y%100 != 0) || y%400 == 0 {
		return 29
	}
	return 28
}

// parseDatePart parses YYYY[-MM[-DD]] returning components.
func parseDatePart(s string) (y, mo, d, comps int, ok bool) {
	parts := strings.Split(s, "-")
	if len(parts) < 1 || len(parts) > 3 {
		return
	}
	if y, ok = atoiN(parts[0], 4); !ok {
		return
	}
	comps = 1
	mo, d = 1, 1
	if len(parts) >= 2 {
		if mo, ok = atoiN(parts[1], 2); !ok || mo < 1 || mo > 12 {
			ok = false
			return
		}
		comps = 2
	}
	if len(parts) == 3 {
		if d, ok = atoiN(parts[2], 2); !ok || d < 1 || d > daysIn(y, mo) {
			ok = false
			return
		}
		comps = 3
	}
	ok = true
	return
}

// parseTimePart parses hh[:mm[:ss[.f+]]].
func parseTimePart(s string) (h, mi, sec int, frac string, comps int, ok bool) {
	if i := strings.IndexByte(s, '.'); i >= 0 {
		frac = s[i+1:]
		s = s[:i]
		if frac == "" {
			return
		}
		for _, c := range frac {
			if c < '0' || c > '9' {
				return
			}
		}
	}
	parts := strings.Split(s, ":")
	if len(parts) < 1 || len(parts) > 3 {
		return
	}
	if h, ok = atoiN(parts[0], 2); !ok || h > 23 {
		ok = false
		return
	}
	comps = 1
	if len(parts) >= 2 {
		if mi, ok = atoiN(parts[1], 2); !ok || mi > 59 {
			ok = false
			return
		}
		comps = 2
	}
	if len(parts) == 3 {
		if sec, ok = atoiN(parts[2], 2); !ok || sec > 59 {
			ok = false
			return
		}
		comps = 3
	}
	if frac != "" && comps != 3 {
		ok = false
		return
	}
	ok = true
	return
}

func parseTZ(s string) (min int, rest string, has, ok bool) {
	if strings.HasSuffix(s, "Z") {
		return 0, s[:len(s)-1], true, true
	}
	if len(s) >= 6 {
		t := s[len(s)-6:]
		if (t[0] == '+' || t[0] == '-') && t[3] == ':' {
			h, ok1 := atoiN(t[1:3], 2)
			m, ok2 := atoiN(t[4:6], 2)
			if ok1 && ok2 && h <= 14 && m <= 59 {
				v := h*60 + m
				if t[0] == '-' {
					v = -v
				}
				return v, s[:len(s)-6], true, true
			}
			return 0, s, false, false
		}
	}
	return 0, s, false, true
}

// ParseTemporal parses s as the given kind ("Date","DateTime","Time"). A leading '@' and,
// for Time, a leading 'T' are accepted. DateTime accepts both the FHIR form (no trailing T on
// partial values) and the FHIRPath literal form (trailing T).
func ParseTemporal(kind, s string) (Temporal, bool) {
	s = strings.TrimPrefix(s, "@")
	t := Temporal{Kind: kind}
	switch kind {
	case "Date":
		y, mo, d, c, ok := parseDatePart(s)
		if !ok {
			return t, false
		}
		t.Y, t.Mo, t.D, t.Comps = y, mo, d, c
		return t, true
	case "Time":
		s = strings.TrimPrefix(s, "T")
		h, mi, sec, frac, c, ok := parseTimePart(s)
		if !ok {
			return t, false
		}
		t.H, t.Mi, t.S, t.Frac, t.Comps = h, mi, sec, frac, c
		return t, true
	case "DateTime":
		i := strings.IndexByte(s, 'T')
		datePart, timePart := s, ""
		if i >= 0 {
			datePart, timePart = s[:i], s[i+1:]
		}
		y, mo, d, c, ok := parseDatePart(datePart)
		if !ok {
			return t, false
		}
		t.Y, t.Mo, t.D, t.Comps = y, mo, d, c
		if timePart == "" {
			return t, true
		}
		if c != 3 {
			return t, false
		}
		tz, rest, has, ok := parseTZ(timePart)
		if !ok {
			return t, false
		}
		t.HasTZ, t.TZMin = has, tz
		if rest == "" {
			return t, !has
		}
		h, mi, sec, frac, tc, ok := parseTimePart(rest)
		if !ok {
			return t, false
		}
		t.H, t.Mi, t.S, t.Frac = h, mi, sec, frac
		t.Comps = 3 + tc
		return t, true
	}
	return t, false
}

// DaysFromCivil is the proleptic Gregorian day number (days since 1970-01-01).
func DaysFromCivil(y, m, d int) int64 {
	if m <= 2 {
		y--
	}
	var era int64
	if y >= 0 {
		era = int64(y) / 400
	} else {
		era = (int64(y) - 399) / 400
	}
	yoe := int64(y) - era*400
	mp := int64((m + 9) % 12)
	doy := (153*mp+2)/5 + int64(d) - 1
	doe := yoe*365 + yoe/4 - yoe/100 + doy
	return era*146097 + doe - 719468
}

// CivilFromDays inverts DaysFromCivil.
func CivilFromDays(z int64) (y, m, d int) {
	z += 719468
	var era int64
	if z >= 0 {
		era = z / 146097
	} else {
		era = (z - 146096) / 146097
	}
	doe := z - era*146097
	yoe := (doe - doe/1460 + doe/36524 - doe/146096) / 365
	yy := yoe + era*400
	doy := doe - (365*yoe + yoe/4 - yoe/100)
	mp := (5*doy + 2) / 153
	d = int(doy - (153*mp+2)/5 + 1)
	if mp < 10 {
		m = int(mp + 3)
	} else {
		m = int(mp - 9)
	}
	if m <= 2 {
		yy++
	}
	return int(yy), m, d
}

// FracMicros returns the fraction as microseconds (truncating beyond 6 digits).
func (t Temporal) FracMicros() int {
	f := t.Frac
	for len(f) < 6 {
		f += "0"
	}
	v, _ := strconv.Atoi(f[:6])
	return v
}

// EpochMicros returns the instant (local civil time minus offset) in microseconds since 1970.
func (t Temporal) EpochMicros() int64 {
	days := DaysFromCivil(t.Y, t.Mo, t.D)
	sec := days*86400 + int64(t.H)*3600 + int64(t.Mi)*60 + int64(t.S) - int64(t.TZMin)*60
	return sec*1000000 + int64(t.FracMicros())
}

// SameValue: same instant, precision and offset. fracDigits limits the compared
// fraction (3 = milliseconds) — used where the System type cannot carry more.
func SameTemporal(a, b Temporal, fracDigits int) bool {
	if a.Kind != b.Kind || a.Comps != b.Comps || a.HasTZ != b.HasTZ || a.TZMin != b.TZMin {
		return false
	}
	if a.Y != b.Y || a.Mo != b.Mo || a.D != b.D || a.H != b.H || a.Mi != b.Mi || a.S != b.S {
		return false
	}
	fa, fb := a.Frac, b.Frac
	trim := func(f string) string {
		for len(f) < fracDigits {
			f += "0"
		}
		return f[:fracDigits]
	}
	if (fa == "") != (fb == "") {
		return false
	}
	if fa == "" {
		return true
	}
	return trim(fa) == trim(fb)
}

func (t Temporal) String() string {
	switch t.Kind {
	case "Time":
		s := fmt.Sprintf("%02d", t.H)
		if t.Comps >= 2 {
			s += fmt.Sprintf(":%02d", t.Mi)
		}
		if t.Comps >= 3 {
			s += fmt.Sprintf(":%02d", t.S)
		}
		if t.Frac != "" {
			s += "." + t.Frac
		}
		return s
	}
	s := fmt.Sprintf("%04d", t.Y)
	if t.Comps >= 2 {
		s += fmt.Sprintf("-%02d", t.Mo)
	}
	if t.Comps >= 3 {
		s += fmt.Sprintf("-%02d", t.D)
	}
	if t.Kind == "Date" {
		return s
	}
	if t.Comps <= 3 {
		return s + "T"
	}
	s += fmt.Sprintf("T%02d", t.H)
	if t.Comps >= 5 {
		s += fmt.Sprintf(":%02d", t.Mi)
	}
	if t.Comps >= 6 {
		s += fmt.Sprintf(":%02d", t.S)
	}
	if t.Frac != "" {
		s += "." + t.Frac
	}
	if t.HasTZ {
		if t.TZMin == 0 {
			s += "Z"
		} else {
			m := t.TZMin
			sign := "+"
			if m < 0 {
				sign, m = "-", -m
			}
			s += fmt.Sprintf("%s%02d:%02d", sign, m/60, m%60)
		}
	}
	return s
}
