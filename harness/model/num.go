package model

import (
	"math/big"
	"strings"
)

var (
	MaxInt32 = big.NewInt(2147483647)
	MinInt32 = big.NewInt(-2147483648)
)

// ParseNum parses an Integer/Decimal text ("-12", "3.140", "1e-7" is also accepted) exactly.
func ParseNum(s string) (*big.Rat, bool) {
	r, ok := new(big.Rat).SetString(strings.TrimSpace(s))
	return r, ok
}

func FitsInt32(r *big.Rat) bool {
	if !r.IsInt() {
		return false
	}
	n := r.Num()
	return n.Cmp(MinInt32) >= 0 && n.Cmp(MaxInt32) <= 0
}

// TruncRat truncates toward zero.
func TruncRat(r *big.Rat) *big.Int {
	q := new(big.Int).Quo(r.Num(), r.Denom()) // Quo truncates toward zero
	return q
}

func FloorRat(r *big.Rat) *big.Int {
	q := new(big.Int).Div(r.Num(), r.Denom()) // Euclidean: floor for positive denominators
	return q
}

func CeilRat(r *big.Rat) *big.Int {
	f := FloorRat(r)
	if new(big.Rat).SetInt(f).Cmp(r) == 0 {
		return f
	}
	return f.Add(f, big.NewInt(1))
}

// RoundHalfAway rounds to `digits` decimal places, ties away from zero. tie reports an exact tie.
func RoundHalfAway(r *big.Rat, digits int) (res *big.Rat, tie bool) {
	scale := new(big.Int).Exp(big.NewInt(10), big.NewInt(int64(digits)), nil)
	x := new(big.Rat).Mul(r, new(big.Rat).SetInt(scale))
	neg := x.Sign() < 0
	if neg {
		x.Neg(x)
	}
	fl := FloorRat(x)
	frac := new(big.Rat).Sub(x, new(big.Rat).SetInt(fl))
	half := big.NewRat(1, 2)
	c := frac.Cmp(half)
	tie = c == 0
	if c >= 0 {
		fl.Add(fl, big.NewInt(1))
	}
	res = new(big.Rat).SetFrac(fl, scale)
	if neg {
		res.Neg(res)
	}
	return
}

// DecText renders a rational that has a finite decimal expansion with exactly `scale` fraction digits.
func DecText(r *big.Rat, scale int) string {
	return r.FloatString(scale)
}
