package model

import (
	"fmt"
	"strings"
)

// Step is one step of the path sub-language the tree walker understands.
type Step struct {
	Kind  string `json:"k"` // name | index | first | last | tail | skip | take | whereEq | whereExists | extension
	Name  string `json:"n,omitempty"`
	N     int    `json:"i,omitempty"`
	Field string `json:"f,omitempty"`
	Lit   string `json:"l,omitempty"` // string literal content (whereEq / extension url)
}

// fhirpathKeywords must be back-tick delimited when used as member names.
var fhirpathKeywords = map[string]bool{"div": true, "mod": true, "is": true, "as": true, "in": true, "contains": true, "and": true, "or": true, "xor": true, "implies": true,
	"true": false, "false": false, "day": false, "days": false}

// IdentSrc renders an element name as a FHIRPath identifier.
func IdentSrc(name string) string {
	if fhirpathKeywords[name] {
		return "`" + name + "`"
	}
	return name
}

// QuoteStr renders a Go string as a FHIRPath string literal.
func QuoteStr(s string) string {
	var b strings.Builder
	b.WriteByte('\'')
	for _, r := range s {
		switch r {
		case '\'':
			b.WriteString(`\'`)
		case '\\':
			b.WriteString(`\\`)
		case '\n':
			b.WriteString(`\n`)
		case '\r':
			b.WriteString(`\r`)
		case '\t':
			b.WriteString(`\t`)
		case '\f':
			b.WriteString(`\f`)
		default:
			b.WriteRune(r)
		}
	}
	b.WriteByte('\'')
	return b.String()
}

// RenderPath renders root + steps as FHIRPath source.
func RenderPath(root string, steps []Step) string {
	var b strings.Builder
	b.WriteString(root)
	for _, s := range steps {
		switch s.Kind {
		case "name":
			b.WriteString("." + IdentSrc(s.Name))
		case "index":
			fmt.Fprintf(&b, "[%d]", s.N)
		case "first", "last", "tail":
			b.WriteString("." + s.Kind + "()")
		case "skip", "take":
			fmt.Fprintf(&b, ".%s(%d)", s.Kind, s.N)
		case "whereEq":
			fmt.Fprintf(&b, ".where(%s = %s)", IdentSrc(s.Field), QuoteStr(s.Lit))
		case "whereExists":
			fmt.Fprintf(&b, ".where(%s.exists())", IdentSrc(s.Field))
		case "extension":
			fmt.Fprintf(&b, ".extension(%s)", QuoteStr(s.Lit))
		}
	}
	return b.String()
}

// Walk applies the steps to a start set with FHIRPath collection semantics.
func Walk(start []*Node, steps []Step) []*Node {
	cur := start
	for _, s := range steps {
		var next []*Node
		switch s.Kind {
		case "name":
			for _, n := range cur {
				next = append(next, n.KidsNamed(s.Name)...)
			}
		case "index":
			if s.N >= 0 && s.N < len(cur) {
				next = []*Node{cur[s.N]}
			}
		case "first":
			if len(cur) > 0 {
				next = cur[:1]
			}
		case "last":
			if len(cur) > 0 {
				next = cur[len(cur)-1:]
			}
		case "tail":
			if len(cur) > 1 {
				next = cur[1:]
			}
		case "skip":
			if s.N <= 0 {
				next = cur
			} else if s.N < len(cur) {
				next = cur[s.N:]
			}
		case "take":
			if s.N > 0 {
				if s.N >= len(cur) {
					next = cur
				} else {
					next = cur[:s.N]
				}
			}
		case "whereEq":
			for _, n := range cur {
				ks := n.KidsNamed(s.Field)
				if len(ks) == 1 {
					if str, ok := ks[0].JSON.(string); ok && str == s.Lit {
						next = append(next, n)
					}
				}
			}
		case "whereExists":
			for _, n := range cur {
				if len(n.KidsNamed(s.Field)) > 0 {
					next = append(next, n)
				}
			}
		case "extension":
			for _, n := range cur {
				for _, e := range n.KidsNamed("extension") {
					us := e.KidsNamed("url")
					if len(us) == 1 {
						if str, ok := us[0].JSON.(string); ok && str == s.Lit {
							next = append(next, e)
						}
					}
				}
			}
		}
		cur = next
	}
	return cur
}
