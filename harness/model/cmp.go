package model

import (
	"math/big"
	"strings"
)

// CVal is a comparison-model value parsed from its FHIRPath literal text.
type CVal struct {
	Kind string // Integer Decimal String Boolean Date DateTime Time Quantity Complex Empty
	N    *big.Rat
	S    string
	B    bool
	T    Temporal
	Unit string
}

// ParseLiteral parses the literal forms used by the pools: numbers (optionally negative / parenthesised),
// 'strings' (no escapes other than \' and \\), true/false, @dates, @T times, quantities `n unit` / `n 'ucum'`.
func ParseLiteral(src string) (CVal, bool) {
	s := strings.TrimSpace(src)
	for strings.HasPrefix(s, "(") && strings.HasSuffix(s, ")") {
		s = strings.TrimSpace(s[1 : len(s)-1])
	}
	switch {
	case s == "{}":
		return CVal{Kind: "Empty"}, true
	case s == "true" || s == "false":
		return CVal{Kind: "Boolean", B: s == "true"}, true
	case strings.HasPrefix(s, "'") && strings.HasSuffix(s, "'") && len(s) >= 2:
		body := s[1 : len(s)-1]
		body = strings.ReplaceAll(body, `\'`, "'")
		body = strings.ReplaceAll(body, `\\`, `\`)
		return CVal{Kind: "String", S: body}, true
	case strings.HasPrefix(s, "@T"):
		t, ok := ParseTemporal("Time", s)
		return CVal{Kind: "Time", T: t}, ok
	case strings.HasPrefix(s, "@"):
		if strings.Contains(s, "T") {
			t, ok := ParseTemporal("DateTime", s)
			return CVal{Kind: "DateTime", T: t}, ok
		}
		t, ok := ParseTemporal("Date", s)
		return CVal{Kind: "Date", T: t}, ok
	}
	neg := false
	if strings.HasPrefix(s, "-") {
		neg = true
		s = strings.TrimSpace(s[1:])
		for strings.HasPrefix(s, "(") && strings.HasSuffix(s, ")") {
			s = strings.TrimSpace(s[1 : len(s)-1])
		}
	}
	fields := strings.Fields(s)
	if len(fields) == 0 {
		return CVal{}, false
	}
	r, ok := new(big.Rat).SetString(fields[0])
	if !ok || strings.ContainsAny(fields[0], "eE/") {
		return CVal{}, false
	}
	if neg {
		r.Neg(r)
	}
	if len(fields) == 1 {
		if strings.Contains(fields[0], ".") {
			return CVal{Kind: "Decimal", N: r}, true
		}
		return CVal{Kind: "Integer", N: r}, true
	}
	if len(fields) == 2 {
		u := strings.Trim(fields[1], "'")
		return CVal{Kind: "Quantity", N: r, Unit: u}, true
	}
	return CVal{}, false
}

// CmpResult: "lt","eq","gt" (defined order), "ne" (unequal, no order asked), "empty" (defined: result is empty), "undef" (model does not decide).
func Compare(a, b CVal) string {
	if a.Kind == "Empty" || b.Kind == "Empty" {
		return "empty"
	}
	num := func(k string) bool { return k == "Integer" || k == "Decimal" }
	switch {
	case num(a.Kind) && num(b.Kind):
		return sign(a.N.Cmp(b.N))
	case a.Kind == "String" && b.Kind == "String":
		return sign(strings.Compare(a.S, b.S))
	case a.Kind == "Boolean" && b.Kind == "Boolean":
		if a.B == b.B {
			return "eq"
		}
		return "ne"
	case a.Kind == "Quantity" && b.Kind == "Quantity":
		if a.Unit == b.Unit {
			return sign(a.N.Cmp(b.N))
		}
		if unitFamily(a.Unit) != "" && unitFamily(a.Unit) == unitFamily(b.Unit) {
			return "undef" // singular/plural or keyword/UCUM spellings of one duration
		}
		return "empty"
	case a.Kind == "Time" && b.Kind == "Time":
		return cmpTemporal(a.T, b.T)
	case (a.Kind == "Date" || a.Kind == "DateTime") && (b.Kind == "Date" || b.Kind == "DateTime"):
		return cmpTemporal(a.T, b.T)
	}
	return "undef"
}

func unitFamily(u string) string {
	switch u {
	case "year", "years", "a":
		return "year"
	case "month", "months", "mo":
		return "month"
	case "week", "weeks", "wk":
		return "week"
	case "day", "days", "d":
		return "day"
	case "hour", "hours", "h":
		return "hour"
	case "minute", "minutes", "min":
		return "minute"
	case "second", "seconds", "s":
		return "second"
	case "millisecond", "milliseconds", "ms":
		return "ms"
	}
	return ""
}

func sign(c int) string {
	switch {
	case c < 0:
		return "lt"
	case c > 0:
		return "gt"
	}
	return "eq"
}

// comps returns the comparable components: y,mo,d,h,mi,(s+frac in microseconds).
func comps(t Temporal) []int64 {
	if t.Kind == "Time" {
		return []int64{int64(t.H), int64(t.Mi), int64(t.S)*1000000 + int64(t.FracMicros())}
	}
	return []int64{int64(t.Y), int64(t.Mo), int64(t.D), int64(t.H), int64(t.Mi), int64(t.S)*1000000 + int64(t.FracMicros())}
}

func cmpTemporal(a, b Temporal) string {
	if a.HasTZ != b.HasTZ {
		return "undef"
	}
	if a.HasTZ && a.TZMin != b.TZMin {
		// normalise to UTC: only decided when both carry at least seconds (a partial value cannot be shifted by an offset unambiguously)
		if a.Comps < 6 || b.Comps < 6 {
			return "undef"
		}
		ea, eb := a.EpochMicros(), b.EpochMicros()
		return sign(cmp64(ea, eb))
	}
	ca, cb := comps(a), comps(b)
	na, nb := a.Comps, b.Comps
	n := na
	if nb < n {
		n = nb
	}
	for i := 0; i < n; i++ {
		if ca[i] != cb[i] {
			return sign(cmp64(ca[i], cb[i]))
		}
	}
	if na == nb {
		return "eq"
	}
	return "empty"
}

func cmp64(a, b int64) int {
	switch {
	case a < b:
		return -1
	case a > b:
		return 1
	}
	return 0
}

// Expect returns the expected outcome "T","F","E" of `a op b` given the model relation, or "" if undecided.
func Expect(rel, op string) string {
	switch rel {
	case "undef":
		return ""
	case "empty":
		return "E"
	case "ne":
		switch op {
		case "=":
			return "F"
		case "!=":
			return "T"
		}
		return ""
	}
	t := map[bool]string{true: "T", false: "F"}
	switch op {
	case "=":
		return t[rel == "eq"]
	case "!=":
		return t[rel != "eq"]
	case "<":
		return t[rel == "lt"]
	case "<=":
		return t[rel != "gt"]
	case ">":
		return t[rel == "gt"]
	case ">=":
		return t[rel != "lt"]
	}
	return ""
}
