// verifmon is the runtime-monitoring driver. It is built inside a scratch copy
// of the repository under test (package path .../verifharness/cmd/verifmon).
package main

import (
	"encoding/json"
	"flag"
	"fmt"
	"os"
	"sort"
	"strconv"

	"github.com/verily-src/fhirpath-go/fhirpath/verifharness/core"
	"github.com/verily-src/fhirpath-go/fhirpath/verifharness/props"
)

func main() {
	var (
		worker   = flag.Bool("worker", false, "worker mode")
		prop     = flag.String("property", "", "property id")
		tier     = flag.String("tier", "quick", "quick|thorough")
		seedS    = flag.String("seed", "1", "seed")
		shard    = flag.Int("shard", 0, "")
		nshards  = flag.Int("nshards", 1, "")
		progress = flag.String("progress", "", "")
		report   = flag.String("report", "", "")
		skip     = flag.String("skip", "", "")
		big      = flag.String("big", "", "")
		auxdir   = flag.String("auxdir", "", "")
		known    = flag.String("known", "", "")
		evidence = flag.String("evidence", "", "")
		replays  = flag.String("replays", "", "")
		workdir  = flag.String("workdir", "", "")
		replay   = flag.String("replay", "", "replay file")
		list     = flag.Bool("list", false, "list properties")
		selftest = flag.Bool("selftest", false, "run harness self tests")
	)
	flag.Parse()
	seed, err := strconv.ParseUint(*seedS, 10, 64)
	if err != nil {
		// tolerate negative / non-numeric seeds deterministically
		seed = core.Hash64(*seedS)
	}
	if flag.NArg() > 0 && flag.Arg(0) == "probe" {
		props.Probe(flag.Args()[1:])
		return
	}
	if flag.NArg() > 3 && flag.Arg(0) == "res" {
		props.ProbeRes(flag.Args()[1:])
		return
	}
	if *selftest {
		os.Exit(props.SelfTest())
	}
	if *list {
		var ids []string
		for id := range core.Registry {
			ids = append(ids, id)
		}
		sort.Strings(ids)
		for _, id := range ids {
			fmt.Println(id)
		}
		return
	}
	if *replay != "" {
		os.Exit(doReplay(*replay))
	}
	if *worker {
		p := core.Registry[*prop]
		if p == nil {
			fmt.Fprintln(os.Stderr, "unknown property", *prop)
			os.Exit(2)
		}
		env, err := core.NewEnv(*prop, *tier, seed, *shard, *nshards, *progress)
		if err != nil {
			fmt.Fprintln(os.Stderr, err)
			os.Exit(2)
		}
		env.SkipIdx = core.ParseInts(*skip)
		env.BigIdx = core.ParseInts(*big)
		env.AuxDir = *auxdir
		env.StartWatchdog()
		p.Run(env)
		if err := env.Finish(*report); err != nil {
			fmt.Fprintln(os.Stderr, err)
			os.Exit(2)
		}
		return
	}
	exe, _ := os.Executable()
	code := core.RunParent(core.ParentConfig{Property: *prop, Tier: *tier, Seed: seed, Exe: exe,
		KnownPath: *known, Evidence: *evidence, ReplayDir: *replays, WorkDir: *workdir})
	os.Exit(code)
}

func doReplay(path string) int {
	b, err := os.ReadFile(path)
	if err != nil {
		fmt.Println("cannot read replay file:", err)
		return 3
	}
	var rf struct {
		Property  string          `json:"property"`
		Tier      string          `json:"tier"`
		Seed      uint64          `json:"seed"`
		Violation *core.Violation `json:"violation"`
	}
	if err := json.Unmarshal(b, &rf); err != nil || rf.Violation == nil {
		fmt.Println("bad replay file:", err)
		return 3
	}
	p := core.Registry[rf.Property]
	if p == nil || rf.Violation.Replay == nil {
		fmt.Println("violation has no replayable call; recorded witness:", rf.Violation.What)
		return 3
	}
	fn := p.Checks[rf.Violation.Replay.Fn]
	if fn == nil {
		fmt.Println("no check function", rf.Violation.Replay.Fn)
		return 3
	}
	env, _ := core.NewEnv(rf.Property, rf.Tier, rf.Seed, 0, 1, "")
	fn(env, rf.Violation.Replay.Args)
	vs := env.Violations()
	fmt.Printf("replayed %s(%d args): %d violation(s)\n", rf.Violation.Replay.Fn, len(rf.Violation.Replay.Args), len(vs))
	hit := false
	for _, v := range vs {
		fmt.Printf("  sig:  %s\n  what: %s\n", v.Sig, v.What)
		if v.Sig == rf.Violation.Sig {
			hit = true
		}
	}
	if hit {
		fmt.Printf("VIOLATION property=%s replay=%s\n", rf.Property, path)
		return 1
	}
	if len(vs) > 0 {
		return 1
	}
	fmt.Println("the recorded violation did not reproduce")
	return 0
}
