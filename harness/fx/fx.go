// Package fx wraps the public FHIRPath API with guarded calls and canonical
// result rendering. Everything is observed at the API boundary.
package fx

import (
	"crypto/sha256"
	"encoding/hex"
	"errors"
	"fmt"
	"strings"

	"github.com/shopspring/decimal"
	"github.com/verily-src/fhirpath-go/fhirpath"
	"github.com/verily-src/fhirpath-go/fhirpath/system"
	"github.com/verily-src/fhirpath-go/internal/fhir"
	"github.com/verily-src/fhirpath-go/fhirpath/verifharness/core"
	"google.golang.org/protobuf/proto"
)

// Item is the canonical rendering of one result item.
type Item struct {
	K string `json:"k"` // System type name, "FHIR:<message name>", "Nil", "Other:<go type>"
	T string `json:"t"` // canonical text (System values) or digest (elements)
}

func (i Item) String() string { return i.K + "(" + i.T + ")" }

// Res is the observed outcome of Compile+Evaluate.
type Res struct {
	Kind  string // value | error | cerror | panic | cpanic | dead
	Items []Item
	Raw   system.Collection
	Err   error
	Out   core.Outcome
}

func (r Res) IsValue() bool { return r.Kind == "value" }
func (r Res) IsError() bool { return r.Kind == "error" || r.Kind == "cerror" }
func (r Res) IsPanic() bool { return r.Kind == "panic" || r.Kind == "cpanic" || r.Kind == "dead" }
func (r Res) Empty() bool   { return r.Kind == "value" && len(r.Items) == 0 }

// Short renders the outcome compactly for messages.
func (r Res) Short() string {
	switch r.Kind {
	case "value":
		var s []string
		for _, it := range r.Items {
			s = append(s, it.String())
		}
		return "{" + strings.Join(s, ", ") + "}"
	case "error", "cerror":
		m := r.Err.Error()
		if len(m) > 160 {
			m = m[:160] + "…"
		}
		return r.Kind + ":" + m
	case "dead":
		return "process-death:" + r.Out.DeadMsg
	default:
		return r.Kind + "@" + r.Out.Site + ":" + r.Out.PanicMsg
	}
}

// Single returns the only item if the result is a singleton value.
func (r Res) Single() (Item, bool) {
	if r.Kind == "value" && len(r.Items) == 1 {
		return r.Items[0], true
	}
	return Item{}, false
}

// Bool3 interprets the result as a FHIRPath Boolean: "true","false","empty", or "" if neither.
func (r Res) Bool3() string {
	if r.Kind != "value" {
		return ""
	}
	if len(r.Items) == 0 {
		return "empty"
	}
	if len(r.Items) == 1 && r.Items[0].K == "Boolean" {
		return r.Items[0].T
	}
	return ""
}

// Same reports whether two outcomes are observationally identical (kind and items;
// for errors only the fact of an error, for panics the site).
func Same(a, b Res) bool {
	if a.IsError() && b.IsError() {
		return true
	}
	if a.Kind != b.Kind {
		return false
	}
	if a.IsPanic() {
		return a.Out.Site == b.Out.Site
	}
	if len(a.Items) != len(b.Items) {
		return false
	}
	for i := range a.Items {
		if a.Items[i] != b.Items[i] {
			return false
		}
	}
	return true
}

// Render canonicalises one item.
func Render(v any) Item {
	switch x := v.(type) {
	case nil:
		return Item{"Nil", "nil"}
	case system.Boolean:
		if x {
			return Item{"Boolean", "true"}
		}
		return Item{"Boolean", "false"}
	case system.Integer:
		return Item{"Integer", fmt.Sprintf("%d", int32(x))}
	case system.Decimal:
		return Item{"Decimal", decimal.Decimal(x).String()}
	case system.String:
		return Item{"String", string(x)}
	case system.Date:
		return Item{"Date", x.String()}
	case system.DateTime:
		return Item{"DateTime", x.String()}
	case system.Time:
		return Item{"Time", x.String()}
	case system.Quantity:
		return Item{"Quantity", x.String()}
	case system.Collection:
		var s []string
		for _, e := range x {
			s = append(s, Render(e).String())
		}
		return Item{"NestedCollection", "[" + strings.Join(s, ",") + "]"}
	case proto.Message:
		if isNilPtr(x) {
			return Item{"Nil", "typed-nil:" + fmt.Sprintf("%T", v)}
		}
		return Item{"FHIR:" + string(x.ProtoReflect().Descriptor().Name()), Digest(x)}
	default:
		return Item{"Other:" + fmt.Sprintf("%T", v), fmt.Sprintf("%v", v)}
	}
}

func isNilPtr(m proto.Message) bool {
	defer func() { recover() }()
	return !m.ProtoReflect().IsValid()
}

// Digest is the SHA-256 (truncated) of the deterministic proto encoding.
func Digest(m proto.Message) string {
	if m == nil {
		return "nil"
	}
	b, err := proto.MarshalOptions{Deterministic: true}.Marshal(m)
	if err != nil {
		return "marshal-error:" + err.Error()
	}
	h := sha256.Sum256(b)
	return hex.EncodeToString(h[:8])
}

func RenderAll(c system.Collection) []Item {
	out := make([]Item, 0, len(c))
	for _, v := range c {
		out = append(out, Render(v))
	}
	return out
}

// Compile is a guarded fhirpath.Compile.
func Compile(env *core.Env, src string, copts ...fhirpath.CompileOption) (*fhirpath.Expression, Res) {
	var ex *fhirpath.Expression
	var err error
	out := env.Guard("Compile "+src, func() { ex, err = fhirpath.Compile(src, copts...) })
	env.Eval(1)
	if out.Dead {
		return nil, Res{Kind: "dead", Out: out}
	}
	if out.Panicked {
		return nil, Res{Kind: "cpanic", Out: out}
	}
	if err != nil {
		return nil, Res{Kind: "cerror", Err: err}
	}
	if ex == nil {
		return nil, Res{Kind: "cerror", Err: errors.New("Compile returned nil expression and nil error")}
	}
	return ex, Res{Kind: "value"}
}

// Evaluate is a guarded (*Expression).Evaluate.
func Evaluate(env *core.Env, ex *fhirpath.Expression, in []fhir.Resource, eopts ...fhirpath.EvaluateOption) Res {
	var c system.Collection
	var err error
	out := env.Guard("Evaluate "+ex.String(), func() { c, err = ex.Evaluate(in, eopts...) })
	env.Eval(1)
	if out.Dead {
		return Res{Kind: "dead", Out: out}
	}
	if out.Panicked {
		return Res{Kind: "panic", Out: out}
	}
	if err != nil {
		return Res{Kind: "error", Err: err}
	}
	return Res{Kind: "value", Items: RenderAll(c), Raw: c}
}

// reuse holds, per worker process, the first compiled expression of every source compiled without options.
// A later Eval of the same source evaluates that older expression too: a compiled expression that keeps state
// from earlier evaluations (memoised variables, promoted literals, per-node lookup caches) answers differently
// from the fresh one.
var reuse = map[string]*fhirpath.Expression{}

// ReuseChecked counts the comparisons made (for evidence).
var ReuseChecked int

func timeDependent(src string) bool {
	return strings.Contains(src, "now()") || strings.Contains(src, "today()") || strings.Contains(src, "timeOfDay()")
}

// Eval compiles and evaluates.
func Eval(env *core.Env, src string, in []fhir.Resource, copts []fhirpath.CompileOption, eopts []fhirpath.EvaluateOption) Res {
	key := ""
	if len(copts) > 0 {
		key = "-" // unknown options: no reuse comparison
	}
	return EvalK(env, key, src, in, copts, eopts)
}

// EvalK is Eval for callers whose compile options are stateless and identified by optKey (e.g. "experimental"),
// so that the reuse comparison applies to them too. optKey "-" disables it.
func EvalK(env *core.Env, optKey, src string, in []fhir.Resource, copts []fhirpath.CompileOption, eopts []fhirpath.EvaluateOption) Res {
	ex, r := Compile(env, src, copts...)
	if ex == nil {
		return r
	}
	res := Evaluate(env, ex, in, eopts...)
	if optKey != "-" && !res.IsPanic() && !timeDependent(src) {
		src := optKey + "\x00" + src
		if old, ok := reuse[src]; ok {
			r2 := Evaluate(env, old, in, eopts...)
			ReuseChecked++
			env.Cover("reused-expression-compared")
			if r2.IsPanic() {
				env.Violatef(PanicSig(env.Property, r2), "`%s`: the expression compiled and evaluated earlier in this process => %s (a freshly compiled one gives %s)", strings.TrimPrefix(src, optKey+"\x00"), r2.Short(), trunc(res.Short(), 200))
			} else if !Same(res, r2) {
				env.Violatef(env.Property+"/reused-expression-differs/"+shapeOf(strings.TrimPrefix(src, optKey+"\x00")), "`%s`: a freshly compiled expression gives %s, the expression compiled and evaluated earlier in this process gives %s on the same input", strings.TrimPrefix(src, optKey+"\x00"), trunc(res.Short(), 200), trunc(r2.Short(), 200))
			}
		} else {
			if len(reuse) > 40000 {
				reuse = map[string]*fhirpath.Expression{}
			}
			reuse[src] = ex
		}
	}
	return res
}

func trunc(s string, n int) string {
	if len(s) > n {
		return s[:n] + "…"
	}
	return s
}

// shapeOf abstracts a source to its function names / operator words (for signatures).
func shapeOf(src string) string {
	var out []string
	seen := map[string]bool{}
	tok := ""
	flush := func(next byte) {
		if tok != "" && (next == '(' || tok == "and" || tok == "or" || tok == "xor" || tok == "implies" || tok == "is" || tok == "as" || tok == "div" || tok == "mod" || tok == "in" || tok == "contains") && !seen[tok] {
			seen[tok] = true
			out = append(out, tok)
		}
		tok = ""
	}
	for i := 0; i < len(src); i++ {
		c := src[i]
		if c == '_' || (c >= 'a' && c <= 'z') || (c >= 'A' && c <= 'Z') {
			tok += string(c)
			continue
		}
		flush(c)
		if strings.ContainsRune("+-*/&=<>~|", rune(c)) && !seen[string(c)] {
			seen[string(c)] = true
			out = append(out, string(c))
		}
	}
	flush(0)
	if len(out) > 4 {
		out = out[:4]
	}
	return strings.Join(out, "")
}

// E evaluates src with no resources and no options.
func E(env *core.Env, src string) Res { return Eval(env, src, nil, nil, nil) }

// PanicSig builds the known-finding signature of a panic: call site + normalised message.
func PanicSig(prop string, r Res) string {
	if r.Kind == "dead" {
		return prop + "/process-death"
	}
	return prop + "/panic@" + r.Out.Site + "/" + core.NormMsg(r.Out.PanicMsg)
}
