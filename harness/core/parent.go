package core

import (
	"bytes"
	"encoding/json"
	"fmt"
	"os"
	"os/exec"
	"path/filepath"
	"regexp"
	"runtime"
	"sort"
	"strconv"
	"strings"
	"sync"
	"time"
)

// Property is the registration record of one property's monitor.
type Property struct {
	ID          string
	Rule        string // how cases are generated and what counts as distinct/non-trivial
	Assumptions []string
	Exhaustive  bool
	Run         func(*Env)
	// Checks are the replayable single-case check functions, by name.
	Checks map[string]func(*Env, []json.RawMessage)
	// Threshold returns the reasons why the run observed too little (=> inconclusive).
	Threshold func(m *Merged) []string
	// Workers overrides the number of worker processes (0 = number of CPUs).
	Workers func(tier string) int
	// WorkerEnv returns extra environment for a shard (e.g. TZ, GOMAXPROCS).
	WorkerEnv func(shard int) []string
	// PostWorker lets a property inspect a worker's stderr/aux files (race logs).
	PostWorker func(m *Merged, shard int, dir string)
	// PostMerge runs over the merged observations of all workers (cross-configuration comparisons).
	PostMerge func(m *Merged)
}

var Registry = map[string]*Property{}

func Register(p *Property) { Registry[p.ID] = p }

// Merged is the union of all worker reports.
type Merged struct {
	Evaluations int64
	Cases       int64
	Cover       map[string]int64
	Distinct    map[uint64]struct{}
	Samples     []any
	Violations  map[string]*Violation
	Skipped     map[string]int64
	Extra       map[string]any
	Deaths      []string
	Slow        []string
	Inconcl     []string
}

type KnownFinding struct {
	Property string `json:"property"`
	Sig      string `json:"sig"`
	What     string `json:"what"`
	Status   string `json:"status"`
}

type KnownFile struct {
	Findings []KnownFinding `json:"findings"`
	Fixed    []string       `json:"fixed"`
}

type ParentConfig struct {
	Property  string
	Tier      string
	Seed      uint64
	Exe       string
	KnownPath string
	Evidence  string
	ReplayDir string
	WorkDir   string
}

var fatalRe = regexp.MustCompile(`(?m)^(fatal error: .*|runtime: goroutine stack exceeds.*|panic: .*)$`)

// RunParent orchestrates workers, merges, decides. Exit codes: 0 held, 1 violation, 3 inconclusive.
func RunParent(cfg ParentConfig) int {
	start := time.Now()
	p := Registry[cfg.Property]
	if p == nil {
		fmt.Printf("INCONCLUSIVE property=%s reason=unknown-property\n", cfg.Property)
		return 3
	}
	n := runtime.NumCPU()
	if p.Workers != nil {
		if w := p.Workers(cfg.Tier); w > 0 {
			n = w
		}
	}
	m := &Merged{Cover: map[string]int64{}, Distinct: map[uint64]struct{}{}, Violations: map[string]*Violation{}, Skipped: map[string]int64{}, Extra: map[string]any{}}
	var mu sync.Mutex
	var wg sync.WaitGroup
	for s := 0; s < n; s++ {
		wg.Add(1)
		go func(shard int) {
			defer wg.Done()
			rep, deaths, slow, inconcl := runShard(cfg, p, shard, n)
			mu.Lock()
			defer mu.Unlock()
			m.Deaths = append(m.Deaths, deaths...)
			m.Slow = append(m.Slow, slow...)
			m.Inconcl = append(m.Inconcl, inconcl...)
			if rep == nil {
				return
			}
			m.Evaluations += rep.Evaluations
			m.Cases += rep.Cases
			for k, v := range rep.Cover {
				m.Cover[k] += v
			}
			for k, v := range rep.Skipped {
				m.Skipped[k] += v
			}
			for _, h := range rep.Distinct {
				m.Distinct[h] = struct{}{}
			}
			for k, v := range rep.Extra {
				mergeExtra(m.Extra, k, v)
			}
			if len(m.Samples) < 12 {
				for _, smp := range rep.Samples {
					if len(m.Samples) < 12 {
						m.Samples = append(m.Samples, smp)
					}
				}
			}
			for _, v := range rep.Violations {
				if old, ok := m.Violations[v.Sig]; ok {
					old.Count += v.Count
				} else {
					m.Violations[v.Sig] = v
				}
			}
			if p.PostWorker != nil {
				p.PostWorker(m, shard, filepath.Join(cfg.WorkDir, fmt.Sprintf("shard%d", shard)))
			}
		}(s)
	}
	wg.Wait()
	sort.Strings(m.Deaths)
	sort.Strings(m.Slow)

	if p.PostMerge != nil {
		p.PostMerge(m)
	}
	if p.Threshold != nil && len(m.Inconcl) == 0 {
		m.Inconcl = append(m.Inconcl, p.Threshold(m)...)
	}
	if m.Evaluations == 0 {
		m.Inconcl = append(m.Inconcl, "no evaluations observed")
	}

	// Known findings.
	known := map[string]KnownFinding{}
	var kf KnownFile
	if b, err := os.ReadFile(cfg.KnownPath); err == nil {
		if err := json.Unmarshal(b, &kf); err != nil {
			m.Inconcl = append(m.Inconcl, "known_findings.json unreadable: "+err.Error())
		}
		for _, f := range kf.Findings {
			if f.Property == cfg.Property && f.Status == "open" {
				known[f.Sig] = f
			}
		}
	}
	sigs := make([]string, 0, len(m.Violations))
	for s := range m.Violations {
		sigs = append(sigs, s)
	}
	sort.Strings(sigs)
	var newV, knownV []*Violation
	for _, s := range sigs {
		if _, ok := known[s]; ok {
			knownV = append(knownV, m.Violations[s])
		} else {
			newV = append(newV, m.Violations[s])
		}
	}

	for _, v := range knownV {
		fmt.Printf("KNOWN-FINDING: property=%s %s :: %s (seen %d)\n", cfg.Property, v.Sig, oneLine(known[v.Sig].What), v.Count)
	}
	os.RemoveAll(cfg.ReplayDir)
	code := 0
	if len(newV) > 0 {
		code = 1
		os.MkdirAll(cfg.ReplayDir, 0o755)
		for i, v := range newV {
			if i >= 25 {
				fmt.Printf("  (no replay file) sig: %s\n     what: %s (seen %d)\n", v.Sig, oneLine(v.What), v.Count)
				continue
			}
			path := filepath.Join(cfg.ReplayDir, fmt.Sprintf("v%03d.json", i))
			b, _ := json.MarshalIndent(map[string]any{"property": cfg.Property, "tier": cfg.Tier, "seed": cfg.Seed, "violation": v}, "", " ")
			os.WriteFile(path, b, 0o644)
			fmt.Printf("VIOLATION property=%s replay=%s\n  sig:  %s\n  what: %s (seen %d)\n", cfg.Property, path, v.Sig, oneLine(v.What), v.Count)
		}
	}
	if code == 0 && len(m.Inconcl) > 0 {
		code = 3
		for i, r := range m.Inconcl {
			if i >= 3 {
				fmt.Printf("INCONCLUSIVE property=%s reason=(%d more)\n", cfg.Property, len(m.Inconcl)-i)
				break
			}
			fmt.Printf("INCONCLUSIVE property=%s reason=%s\n", cfg.Property, oneLine(r))
		}
	}

	writeEvidence(cfg, p, m, n, len(newV), knownV, time.Since(start))
	verdict := map[int]string{0: "HELD", 1: "VIOLATED", 3: "INCONCLUSIVE"}[code]
	fmt.Printf("RESULT property=%s tier=%s seed=%d verdict=%s evaluations=%d cases=%d distinct=%d new_violations=%d known_findings=%d deaths=%d wall=%.1fs\n",
		cfg.Property, cfg.Tier, cfg.Seed, verdict, m.Evaluations, m.Cases, len(m.Distinct), len(newV), len(knownV), len(m.Deaths), time.Since(start).Seconds())
	return code
}

func mergeExtra(dst map[string]any, k string, v any) {
	switch nv := v.(type) {
	case float64:
		if old, ok := dst[k].(float64); ok {
			dst[k] = old + nv
		} else {
			dst[k] = nv
		}
	case []any:
		old, _ := dst[k].([]any)
		seen := map[string]bool{}
		for _, o := range old {
			seen[fmt.Sprint(o)] = true
		}
		for _, x := range nv {
			if !seen[fmt.Sprint(x)] && len(old) < 400 {
				old = append(old, x)
				seen[fmt.Sprint(x)] = true
			}
		}
		dst[k] = old
	default:
		if _, ok := dst[k]; !ok {
			dst[k] = v
		}
	}
}

func oneLine(s string) string {
	s = strings.ReplaceAll(s, "\n", " | ")
	if len(s) > 600 {
		s = s[:600] + "…"
	}
	return s
}

// runShard runs one worker to completion, restarting it around calls that kill it.
func runShard(cfg ParentConfig, p *Property, shard, n int) (rep *Report, deaths, slow, inconcl []string) {
	dir := filepath.Join(cfg.WorkDir, fmt.Sprintf("shard%d", shard))
	os.MkdirAll(dir, 0o755)
	var skip, big []int64
	bigTried := map[int64]bool{}
	for attempt := 0; attempt < 40 && len(deaths) < 12; attempt++ {
		progress := filepath.Join(dir, "progress")
		report := filepath.Join(dir, "report.json")
		os.Remove(report)
		args := []string{"--worker", "--property", cfg.Property, "--tier", cfg.Tier, "--seed", strconv.FormatUint(cfg.Seed, 10),
			"--shard", strconv.Itoa(shard), "--nshards", strconv.Itoa(n), "--progress", progress, "--report", report,
			"--skip", joinInts(skip), "--big", joinInts(big), "--auxdir", dir}
		cmd := exec.Command(cfg.Exe, args...)
		cmd.Env = append(os.Environ(), "GOTRACEBACK=single", "GORACE=halt_on_error=0 log_path="+filepath.Join(dir, "race"))
		if p.WorkerEnv != nil {
			cmd.Env = append(cmd.Env, p.WorkerEnv(shard)...)
		}
		errFile, _ := os.Create(filepath.Join(dir, fmt.Sprintf("stderr.%d", attempt)))
		cmd.Stdout = errFile
		cmd.Stderr = errFile
		err := cmd.Run()
		errFile.Close()
		if err == nil {
			b, rerr := os.ReadFile(report)
			if rerr != nil {
				inconcl = append(inconcl, fmt.Sprintf("shard %d: report missing: %v", shard, rerr))
				return nil, deaths, slow, inconcl
			}
			rep = &Report{}
			if jerr := json.Unmarshal(b, rep); jerr != nil {
				inconcl = append(inconcl, fmt.Sprintf("shard %d: report unreadable: %v", shard, jerr))
				return nil, deaths, slow, inconcl
			}
			// attach deaths as violations
			for _, d := range deaths {
				parts := strings.SplitN(d, "\x00", 3)
				v := &Violation{Property: cfg.Property, Sig: parts[0], What: parts[1], Count: 1}
				rep.Violations = append(rep.Violations, v)
			}
			return rep, deaths, slow, inconcl
		}
		// Worker died. Identify the culprit.
		idx, desc, trailer := readProgress(progress)
		stderrB, _ := os.ReadFile(filepath.Join(dir, fmt.Sprintf("stderr.%d", attempt)))
		fatal := "unknown"
		if mm := fatalRe.Find(stderrB); mm != nil {
			fatal = string(mm)
		}
		if harnessPanic(stderrB) {
			tail := stderrB
			if len(tail) > 1800 {
				tail = tail[:1800]
			}
			inconcl = append(inconcl, fmt.Sprintf("shard %d: the harness itself panicked (not the code under test): %s", shard, string(tail)))
			return nil, deaths, slow, inconcl
		}
		if idx == 0 {
			tail := stderrB
			if len(tail) > 1500 {
				tail = tail[len(tail)-1500:]
			}
			inconcl = append(inconcl, fmt.Sprintf("shard %d: worker failed outside any guarded call: %v: %s", shard, err, string(tail)))
			return nil, deaths, slow, inconcl
		}
		switch {
		case strings.HasPrefix(trailer, "OVERRUN"):
			if !bigTried[idx] {
				bigTried[idx] = true
				big = append(big, idx)
				continue
			}
			deaths = append(deaths, fmt.Sprintf("%s/hang/%s\x00call did not finish within 10x CPU budget (%s): %s\x00", cfg.Property, hangClass(desc), trailer, desc))
			skip = append(skip, idx)
		case strings.HasPrefix(trailer, "STALLED"):
			inconcl = append(inconcl, fmt.Sprintf("shard %d: wall-clock watchdog fired without CPU evidence (%s) on: %s", shard, trailer, desc))
			return nil, deaths, slow, inconcl
		default:
			deaths = append(deaths, fmt.Sprintf("%s/process-death/%s\x00worker process died (%s) during: %s\x00", cfg.Property, NormMsg(fatal), fatal, desc))
			skip = append(skip, idx)
		}
	}
	inconcl = append(inconcl, fmt.Sprintf("shard %d: too many worker deaths", shard))
	if len(deaths) > 0 {
		// every attributed death is an observed violation in its own right: report them even though the shard did not finish
		rep = &Report{}
		for _, d := range deaths {
			parts := strings.SplitN(d, "\x00", 3)
			rep.Violations = append(rep.Violations, &Violation{Property: cfg.Property, Sig: parts[0], What: parts[1] + " (shard abandoned after repeated worker deaths)", Count: 1})
		}
		return rep, deaths, slow, inconcl
	}
	return nil, deaths, slow, inconcl
}

func hangClass(desc string) string {
	if i := strings.IndexAny(desc, " :"); i > 0 {
		return desc[:i]
	}
	return "call"
}

func joinInts(xs []int64) string {
	var s []string
	for _, x := range xs {
		s = append(s, strconv.FormatInt(x, 10))
	}
	return strings.Join(s, ",")
}

func ParseInts(s string) map[int64]bool {
	out := map[int64]bool{}
	for _, f := range strings.Split(s, ",") {
		if f == "" {
			continue
		}
		if v, err := strconv.ParseInt(f, 10, 64); err == nil {
			out[v] = true
		}
	}
	return out
}

func readProgress(path string) (idx int64, desc, trailer string) {
	b, err := os.ReadFile(path)
	if err != nil || len(b) < 8 {
		return 0, "", ""
	}
	n, err := strconv.Atoi(string(b[:8]))
	if err != nil || 8+n > len(b) {
		return 0, "", ""
	}
	rec := string(b[8 : 8+n])
	if len(rec) > 21 {
		idx, _ = strconv.ParseInt(strings.TrimLeft(rec[:20], "0"), 10, 64)
		desc = strings.TrimSpace(rec[21:])
	}
	if len(b) > 4096 {
		t := b[4096:]
		if i := bytes.IndexByte(t, '\n'); i >= 0 {
			trailer = string(t[:i])
		}
	}
	return
}

func writeEvidence(cfg ParentConfig, p *Property, m *Merged, workers, newV int, knownV []*Violation, wall time.Duration) {
	cov := map[string]any{
		"evaluations":         m.Evaluations,
		"distinct_nontrivial": len(m.Distinct),
		"rule":                p.Rule,
		"samples":             m.Samples,
		"cases":               m.Cases,
		"workers":             workers,
		"coverage_counters":   m.Cover,
		"skipped":             m.Skipped,
		"child_deaths":        len(m.Deaths),
		"inconclusive":        m.Inconcl,
	}
	if p.Exhaustive {
		cov["exhaustive"] = true
	}
	for k, v := range m.Extra {
		cov[k] = v
	}
	if len(m.Samples) == 0 {
		cov["samples"] = []any{"(no sample recorded)"}
	}
	var kn []string
	for _, v := range knownV {
		kn = append(kn, fmt.Sprintf("%s (seen %d)", v.Sig, v.Count))
	}
	cov["known_findings_matched"] = kn
	ev := map[string]any{
		"property_id": cfg.Property,
		"tier":        cfg.Tier,
		"seed":        int64(cfg.Seed),
		"level":       "exploration",
		"coverage":    cov,
		"assumptions": p.Assumptions,
		"wall_s":      wall.Seconds(),
		"violations":  newV,
	}
	b, _ := json.MarshalIndent(ev, "", " ")
	os.MkdirAll(filepath.Dir(cfg.Evidence), 0o755)
	os.WriteFile(cfg.Evidence, b, 0o644)
}

// harnessPanic reports whether the worker died from a Go panic whose innermost
// frame is harness code (a bug in the monitor), as opposed to a fatal runtime
// error or a panic raised inside the code under test.
func harnessPanic(stderr []byte) bool {
	txt := string(stderr)
	i := strings.Index(txt, "\npanic: ")
	if !strings.HasPrefix(txt, "panic: ") && i < 0 {
		return false
	}
	g := strings.Index(txt, "[running]:")
	if g < 0 {
		return false
	}
	rest := txt[g+len("[running]:"):]
	for _, line := range strings.Split(rest, "\n") {
		line = strings.TrimSpace(line)
		if line == "" || strings.HasPrefix(line, "panic(") || strings.HasPrefix(line, "runtime.") || strings.HasPrefix(line, "/") {
			continue
		}
		return strings.Contains(line, "/verifharness/")
	}
	return false
}
