// Package core holds the run-time monitoring framework: deterministic PRNG,
// guarded calls, per-worker reporter, parent orchestration, evidence output.
package core

import "hash/fnv"

// Rng is a SplitMix64 stream. All workload choices come from streams keyed by
// (seed, property, stream-name) so the case list is a pure function of the seed.
type Rng struct{ s uint64 }

func NewRng(seed uint64, keys ...string) *Rng {
	h := fnv.New64a()
	for _, k := range keys {
		h.Write([]byte(k))
		h.Write([]byte{0})
	}
	r := &Rng{s: seed ^ h.Sum64() ^ 0x9E3779B97F4A7C15}
	r.Next()
	return r
}

func (r *Rng) Next() uint64 {
	r.s += 0x9E3779B97F4A7C15
	z := r.s
	z = (z ^ (z >> 30)) * 0xBF58476D1CE4E5B9
	z = (z ^ (z >> 27)) * 0x94D049BB133111EB
	return z ^ (z >> 31)
}

// Intn returns a value in [0,n).
func (r *Rng) Intn(n int) int {
	if n <= 0 {
		return 0
	}
	return int(r.Next() % uint64(n))
}

func (r *Rng) Bool() bool { return r.Next()&1 == 1 }

// Chance is true with probability num/den.
func (r *Rng) Chance(num, den int) bool { return r.Intn(den) < num }

func (r *Rng) Int32() int32 { return int32(r.Next()) }

// Fork derives an independent stream.
func (r *Rng) Fork(key string) *Rng { return NewRng(r.Next(), key) }

func Pick[T any](r *Rng, xs []T) T { return xs[r.Intn(len(xs))] }

func Hash64(s string) uint64 {
	h := fnv.New64a()
	h.Write([]byte(s))
	return h.Sum64()
}
