package core

import (
	"encoding/json"
	"fmt"
	"os"
	"runtime"
	"runtime/debug"
	"sort"
	"strings"
	"sync"
	"sync/atomic"
	"syscall"
	"time"
)

// Violation is one witnessed deviation from a property.
type Violation struct {
	Property string `json:"property"`
	Sig      string `json:"sig"`  // signature used for known-finding matching
	What     string `json:"what"` // human readable: observed vs expected
	Replay   *Call  `json:"replay,omitempty"`
	Count    int    `json:"count"`
}

// Call names a registered check function with JSON arguments; it is the replay unit.
type Call struct {
	Fn   string            `json:"fn"`
	Args []json.RawMessage `json:"args"`
}

// Report is what one worker observed.
type Report struct {
	Property    string             `json:"property"`
	Shard       int                `json:"shard"`
	Evaluations int64              `json:"evaluations"`
	Cases       int64              `json:"cases"`
	Cover       map[string]int64   `json:"cover"`
	Distinct    []uint64           `json:"distinct"`
	Samples     []any              `json:"samples"`
	Violations  []*Violation       `json:"violations"`
	Outcomes    map[string]int64   `json:"outcomes"`
	Skipped     map[string]int64   `json:"skipped"`
	Extra       map[string]any     `json:"extra,omitempty"`
	Slow        []string           `json:"slow,omitempty"`
	Fatal       string             `json:"fatal,omitempty"`
}

// Env is handed to a property's Run function inside a worker.
type Env struct {
	Property string
	Tier     string // quick | thorough
	Seed     uint64
	Shard    int
	NShards  int

	SkipIdx map[int64]bool // guard indices known to kill the process
	BigIdx  map[int64]bool // guard indices to run with the enlarged budget

	rep      *Report
	vio      map[string]*Violation
	distinct map[uint64]struct{}
	mu       sync.Mutex

	guardIdx  int64
	progress  *os.File
	caseStart atomic.Int64 // unix nanos, 0 = idle
	caseCPU   atomic.Int64 // process cpu nanos at case start
	caseBig   atomic.Bool
	caseDesc  atomic.Value

	curCall *Call

	CPUBudget time.Duration
	AuxDir    string
}

const maxViolationsKept = 400

func NewEnv(prop, tier string, seed uint64, shard, nshards int, progressPath string) (*Env, error) {
	e := &Env{Property: prop, Tier: tier, Seed: seed, Shard: shard, NShards: nshards,
		SkipIdx: map[int64]bool{}, BigIdx: map[int64]bool{},
		vio: map[string]*Violation{}, distinct: map[uint64]struct{}{},
		CPUBudget: 5 * time.Second,
	}
	e.rep = &Report{Property: prop, Shard: shard, Cover: map[string]int64{}, Outcomes: map[string]int64{}, Skipped: map[string]int64{}, Extra: map[string]any{}}
	if progressPath != "" {
		f, err := os.OpenFile(progressPath, os.O_CREATE|os.O_RDWR|os.O_TRUNC, 0o644)
		if err != nil {
			return nil, err
		}
		e.progress = f
	}
	debug.SetMaxStack(256 << 20)
	return e, nil
}

func (e *Env) Quick() bool { return e.Tier != "thorough" }

// Pick returns q in the quick tier and t in the thorough tier.
func (e *Env) Size(q, t int) int {
	if e.Quick() {
		return q
	}
	return t
}

// Mine reports whether case number i belongs to this shard.
func (e *Env) Mine(i int) bool {
	if e.NShards <= 1 {
		return true
	}
	return i%e.NShards == e.Shard
}

func (e *Env) Rng(stream string) *Rng { return NewRng(e.Seed, e.Property, stream) }

func (e *Env) Eval(n int) {
	e.mu.Lock()
	e.rep.Evaluations += int64(n)
	e.mu.Unlock()
}

func (e *Env) Case() {
	e.mu.Lock()
	e.rep.Cases++
	e.mu.Unlock()
}

func (e *Env) Cover(key string) {
	e.mu.Lock()
	e.rep.Cover[key]++
	e.mu.Unlock()
}

func (e *Env) Skip(reason string) {
	e.mu.Lock()
	e.rep.Skipped[reason]++
	e.mu.Unlock()
}

// Distinct records a distinct non-trivial case key.
func (e *Env) Distinct(key string) {
	h := Hash64(key)
	e.mu.Lock()
	e.distinct[h] = struct{}{}
	e.mu.Unlock()
}

func (e *Env) Sample(v any) {
	e.mu.Lock()
	if len(e.rep.Samples) < 6 {
		e.rep.Samples = append(e.rep.Samples, v)
	}
	e.mu.Unlock()
}

// SampleEvery keeps a sample for a sparse subset of cases so samples are spread out.
func (e *Env) SampleSpread(key string, v any) {
	if Hash64(key)%997 == 0 {
		e.Sample(v)
	}
}

func (e *Env) SetExtra(k string, v any) {
	e.mu.Lock()
	e.rep.Extra[k] = v
	e.mu.Unlock()
}

// In sets the replay unit for violations raised while fn runs.
func (e *Env) In(fn string, args ...any) func() {
	c := &Call{Fn: fn}
	for _, a := range args {
		b, err := json.Marshal(a)
		if err != nil {
			b = []byte(`"<unmarshalable>"`)
		}
		c.Args = append(c.Args, b)
	}
	prev := e.curCall
	e.curCall = c
	return func() { e.curCall = prev }
}

// Violate records a violation. sig identifies the finding class (call site /
// operation + operand class + failure kind); what describes the witness.
func (e *Env) Violate(sig, what string) {
	e.mu.Lock()
	defer e.mu.Unlock()
	if v, ok := e.vio[sig]; ok {
		v.Count++
		return
	}
	if len(e.vio) >= maxViolationsKept {
		sig = "overflow/too-many-distinct-violations"
		if v, ok := e.vio[sig]; ok {
			v.Count++
			return
		}
	}
	v := &Violation{Property: e.Property, Sig: sig, What: what, Replay: e.curCall, Count: 1}
	e.vio[sig] = v
}

func (e *Env) Violatef(sig string, format string, a ...any) {
	e.Violate(sig, fmt.Sprintf(format, a...))
}

// Outcome describes how a guarded call ended.
type Outcome struct {
	Panicked bool
	PanicMsg string
	Site     string // innermost frame inside the module under test
	Stack    string
	Dead     bool // the call is known to kill the process (skipped on this run)
	DeadMsg  string
}

func procCPU() time.Duration {
	var ru syscall.Rusage
	if err := syscall.Getrusage(syscall.RUSAGE_SELF, &ru); err != nil {
		return 0
	}
	return time.Duration(ru.Utime.Nano() + ru.Stime.Nano())
}

// Guard runs fn, converting a panic into an Outcome. Before the call it
// records the case description in the progress file so that a fatal runtime
// error (stack exhaustion, concurrent map access, OOM) or a hang identifies
// its culprit to the parent process.
func (e *Env) Guard(desc string, fn func()) (out Outcome) {
	idx := atomic.AddInt64(&e.guardIdx, 1)
	if e.SkipIdx[idx] {
		return Outcome{Dead: true, DeadMsg: "process died or hung on this call in an earlier attempt"}
	}
	if e.progress != nil {
		if len(desc) > 1500 {
			desc = desc[:1500]
		}
		rec := fmt.Sprintf("%020d %s\n", idx, strings.ReplaceAll(desc, "\n", "\\n"))
		e.progress.WriteAt([]byte(fmt.Sprintf("%08d", len(rec))+rec), 0)
	}
	e.caseBig.Store(e.BigIdx[idx])
	e.caseDesc.Store(desc)
	e.caseCPU.Store(int64(procCPU()))
	e.caseStart.Store(time.Now().UnixNano())
	defer func() {
		e.caseStart.Store(0)
		if r := recover(); r != nil {
			out.Panicked = true
			out.PanicMsg = fmt.Sprint(r)
			st := string(debug.Stack())
			out.Stack = st
			out.Site = panicSite(st)
		}
	}()
	fn()
	return
}

// GuardIdx returns the index of the most recent guarded call.
func (e *Env) GuardIdx() int64 { return atomic.LoadInt64(&e.guardIdx) }

const modPrefix = "github.com/verily-src/fhirpath-go/"

// panicSite returns the innermost stack frame (after the panic machinery) that
// belongs to the module under test and not to the harness.
func panicSite(stack string) string {
	lines := strings.Split(stack, "\n")
	seenPanic := false
	for _, l := range lines {
		if strings.HasPrefix(l, "panic(") || strings.HasPrefix(l, "runtime.panic") || strings.HasPrefix(l, "runtime.goPanic") {
			seenPanic = true
			continue
		}
		if !seenPanic || strings.HasPrefix(l, "\t") || strings.HasPrefix(l, " ") {
			continue
		}
		if strings.HasPrefix(l, modPrefix) && !strings.Contains(l, "/verifharness/") {
			f := strings.TrimPrefix(l, modPrefix)
			if i := strings.LastIndex(f, "("); i > 0 {
				f = f[:i]
			}
			return f
		}
	}
	// Fall back to first non-runtime frame.
	seenPanic = false
	for _, l := range lines {
		if strings.HasPrefix(l, "panic(") {
			seenPanic = true
			continue
		}
		if !seenPanic || strings.HasPrefix(l, "\t") || strings.HasPrefix(l, "runtime.") {
			continue
		}
		if i := strings.LastIndex(l, "("); i > 0 {
			return "ext:" + l[:i]
		}
	}
	return "unknown"
}

// NormMsg strips volatile parts (numbers, addresses) from a panic message.
func NormMsg(m string) string {
	var b strings.Builder
	prevDigit := false
	for _, r := range m {
		if r >= '0' && r <= '9' {
			if !prevDigit {
				b.WriteByte('N')
			}
			prevDigit = true
			continue
		}
		prevDigit = false
		b.WriteRune(r)
	}
	s := b.String()
	if len(s) > 90 {
		s = s[:90]
	}
	return s
}

// StartWatchdog starts the CPU-budget watchdog. When the current guarded call
// has consumed more process CPU than its budget, the worker records OVERRUN in
// the progress file and exits with status 4; the parent re-runs with a larger
// budget for that call before calling it a hang.
func (e *Env) StartWatchdog() {
	go func() {
		runtime.LockOSThread()
		for {
			time.Sleep(200 * time.Millisecond)
			st := e.caseStart.Load()
			if st == 0 {
				continue
			}
			budget := e.CPUBudget
			if e.caseBig.Load() {
				budget *= 10
			}
			cpu := procCPU() - time.Duration(e.caseCPU.Load())
			wall := time.Duration(time.Now().UnixNano() - st)
			if cpu > budget {
				e.writeTrailer(fmt.Sprintf("OVERRUN cpu=%v wall=%v", cpu, wall))
				os.Exit(4)
			}
			if wall > 20*budget+2*time.Minute {
				e.writeTrailer(fmt.Sprintf("STALLED cpu=%v wall=%v", cpu, wall))
				os.Exit(5)
			}
		}
	}()
}

func (e *Env) writeTrailer(s string) {
	if e.progress != nil {
		e.progress.WriteAt([]byte(s+"\n"), 4096)
		e.progress.Sync()
	}
}

// Finish writes the worker report.
func (e *Env) Finish(path string) error {
	e.mu.Lock()
	defer e.mu.Unlock()
	for h := range e.distinct {
		e.rep.Distinct = append(e.rep.Distinct, h)
	}
	sort.Slice(e.rep.Distinct, func(i, j int) bool { return e.rep.Distinct[i] < e.rep.Distinct[j] })
	sigs := make([]string, 0, len(e.vio))
	for s := range e.vio {
		sigs = append(sigs, s)
	}
	sort.Strings(sigs)
	for _, s := range sigs {
		e.rep.Violations = append(e.rep.Violations, e.vio[s])
	}
	b, err := json.Marshal(e.rep)
	if err != nil {
		return err
	}
	return os.WriteFile(path, b, 0o644)
}

// Violations returns the violations recorded so far (used by replay).
func (e *Env) Violations() []*Violation {
	e.mu.Lock()
	defer e.mu.Unlock()
	var out []*Violation
	for _, v := range e.vio {
		out = append(out, v)
	}
	sort.Slice(out, func(i, j int) bool { return out[i].Sig < out[j].Sig })
	return out
}
