package gen

import (
	"sort"
	"strings"

	apb "github.com/google/fhir/go/proto/google/fhir/proto/annotations_go_proto"
	dtpb "github.com/google/fhir/go/proto/google/fhir/proto/r4/core/datatypes_go_proto"
	bcrpb "github.com/google/fhir/go/proto/google/fhir/proto/r4/core/resources/bundle_and_contained_resource_go_proto"
	"google.golang.org/protobuf/proto"
	"google.golang.org/protobuf/reflect/protoreflect"
)

// Schema facts are derived from the google/fhir proto descriptors and their
// annotations, never from the repository's own tables.

func kindOf(md protoreflect.MessageDescriptor) apb.StructureDefinitionKindValue {
	return proto.GetExtension(md.Options(), apb.E_StructureDefinitionKind).(apb.StructureDefinitionKindValue)
}

func IsPrimitive(md protoreflect.MessageDescriptor) bool {
	return md != nil && kindOf(md) == apb.StructureDefinitionKindValue_KIND_PRIMITIVE_TYPE
}

func IsResource(md protoreflect.MessageDescriptor) bool {
	return md != nil && kindOf(md) == apb.StructureDefinitionKindValue_KIND_RESOURCE
}

func IsComplexType(md protoreflect.MessageDescriptor) bool {
	return md != nil && kindOf(md) == apb.StructureDefinitionKindValue_KIND_COMPLEX_TYPE
}

func IsChoice(md protoreflect.MessageDescriptor) bool {
	return md != nil && proto.HasExtension(md.Options(), apb.E_IsChoiceType) && proto.GetExtension(md.Options(), apb.E_IsChoiceType).(bool)
}

func IsReference(md protoreflect.MessageDescriptor) bool {
	return md != nil && proto.HasExtension(md.Options(), apb.E_FhirReferenceType)
}

func IsAny(md protoreflect.MessageDescriptor) bool {
	return md != nil && md.FullName() == "google.protobuf.Any"
}

func IsContained(md protoreflect.MessageDescriptor) bool {
	return md != nil && md.FullName() == "google.fhir.r4.core.ContainedResource"
}

// StructDefURL returns the structure definition URL annotation ("" for nested backbone types).
func StructDefURL(md protoreflect.MessageDescriptor) string {
	if !proto.HasExtension(md.Options(), apb.E_FhirStructureDefinitionUrl) {
		return ""
	}
	return proto.GetExtension(md.Options(), apb.E_FhirStructureDefinitionUrl).(string)
}

// FHIRTypeName returns the FHIR type name of a top-level type ("" for nested components and code wrappers).
func FHIRTypeName(md protoreflect.MessageDescriptor) string {
	u := StructDefURL(md)
	if u == "" {
		return ""
	}
	return u[strings.LastIndex(u, "/")+1:]
}

// IsCodeEnumWrapper: a primitive "code" bound to a value set, modelled as a nested message with an enum or string value.
func IsCodeWrapper(md protoreflect.MessageDescriptor) bool {
	return IsPrimitive(md) && proto.HasExtension(md.Options(), apb.E_FhirValuesetUrl) && string(md.Name()) != "Code"
}

// ValidReferenceTypes lists the annotation on a Reference-typed field.
func ValidReferenceTypes(fd protoreflect.FieldDescriptor) []string {
	if fd == nil {
		return nil
	}
	if !proto.HasExtension(fd.Options(), apb.E_ValidReferenceType) {
		return nil
	}
	return proto.GetExtension(fd.Options(), apb.E_ValidReferenceType).([]string)
}

// OriginalCode returns the FHIR code of an enum value (fhir_original_code or the kebab-cased name).
func OriginalCode(ev protoreflect.EnumValueDescriptor) string {
	if proto.HasExtension(ev.Options(), apb.E_FhirOriginalCode) {
		if s := proto.GetExtension(ev.Options(), apb.E_FhirOriginalCode).(string); s != "" {
			return s
		}
	}
	return strings.ToLower(strings.ReplaceAll(string(ev.Name()), "_", "-"))
}

var resourceTypes []protoreflect.MessageDescriptor

// ResourceTypes enumerates the R4 resource messages from the fields of ContainedResource, sorted by name.
func ResourceTypes() []protoreflect.MessageDescriptor {
	if resourceTypes != nil {
		return resourceTypes
	}
	md := (&bcrpb.ContainedResource{}).ProtoReflect().Descriptor()
	for i := 0; i < md.Fields().Len(); i++ {
		resourceTypes = append(resourceTypes, md.Fields().Get(i).Message())
	}
	sort.Slice(resourceTypes, func(i, j int) bool { return resourceTypes[i].Name() < resourceTypes[j].Name() })
	return resourceTypes
}

func ResourceTypeByName(name string) protoreflect.MessageDescriptor {
	for _, md := range ResourceTypes() {
		if string(md.Name()) == name {
			return md
		}
	}
	return nil
}

// ContainedFieldFor returns the ContainedResource oneof field holding the given resource type.
func ContainedFieldFor(md protoreflect.MessageDescriptor) protoreflect.FieldDescriptor {
	cmd := (&bcrpb.ContainedResource{}).ProtoReflect().Descriptor()
	for i := 0; i < cmd.Fields().Len(); i++ {
		if cmd.Fields().Get(i).Message().FullName() == md.FullName() {
			return cmd.Fields().Get(i)
		}
	}
	return nil
}

// ExtensionValueTypes enumerates the datatypes allowed as Extension.value[x].
func ExtensionValueTypes() []protoreflect.FieldDescriptor {
	md := (&dtpb.Extension_ValueX{}).ProtoReflect().Descriptor()
	var out []protoreflect.FieldDescriptor
	for i := 0; i < md.Fields().Len(); i++ {
		out = append(out, md.Fields().Get(i))
	}
	return out
}

// DatatypeMessages enumerates the top-level messages of datatypes.proto.
func DatatypeMessages() []protoreflect.MessageDescriptor {
	fd := (&dtpb.String{}).ProtoReflect().Descriptor().ParentFile()
	var out []protoreflect.MessageDescriptor
	for i := 0; i < fd.Messages().Len(); i++ {
		out = append(out, fd.Messages().Get(i))
	}
	return out
}
