// Package gen holds the deterministic workload generators: value pools, the
// schema-driven resource generator and the program generator.
package gen

import (
	bcrpb "github.com/google/fhir/go/proto/google/fhir/proto/r4/core/resources/bundle_and_contained_resource_go_proto"
	"math"
	"strings"
	"time"

	cpb "github.com/google/fhir/go/proto/google/fhir/proto/r4/core/codes_go_proto"
	dtpb "github.com/google/fhir/go/proto/google/fhir/proto/r4/core/datatypes_go_proto"
	ppb "github.com/google/fhir/go/proto/google/fhir/proto/r4/core/resources/patient_go_proto"
	"github.com/verily-src/fhirpath-go/fhirpath"
	"github.com/verily-src/fhirpath-go/fhirpath/evalopts"
	"github.com/verily-src/fhirpath-go/fhirpath/system"
	"github.com/verily-src/fhirpath-go/internal/fhir"
)

// PV is one pool value: FHIRPath source text that denotes it, plus a class tag.
type PV struct {
	Src   string
	Class string // int, dec, str, bool, date, datetime, time, qty, empty, multi, elem-prim, elem-complex, resource
}

func us(t time.Time) int64 { return t.UnixMicro() }

// StdPatient is a small fixed Patient used by single-step programs.
func StdPatient() *ppb.Patient {
	return &ppb.Patient{
		Id:     &dtpb.Id{Value: "p1"},
		Active: &dtpb.Boolean{Value: true},
		Name: []*dtpb.HumanName{
			{Family: &dtpb.String{Value: "Smith"}, Given: []*dtpb.String{{Value: "Ann"}, {Value: "Bée"}}, Use: &dtpb.HumanName_UseCode{Value: cpb.NameUseCode_OFFICIAL}},
			{Family: &dtpb.String{Value: "Jones"}, Given: []*dtpb.String{{Value: "Ann"}}},
		},
		Gender:    &ppb.Patient_GenderCode{Value: cpb.AdministrativeGenderCode_FEMALE},
		BirthDate: &dtpb.Date{ValueUs: us(time.Date(1990, 2, 28, 0, 0, 0, 0, time.UTC)), Timezone: "UTC", Precision: dtpb.Date_DAY},
		Deceased:  &ppb.Patient_DeceasedX{Choice: &ppb.Patient_DeceasedX_Boolean{Boolean: &dtpb.Boolean{Value: false}}},
		Telecom: []*dtpb.ContactPoint{
			{Value: &dtpb.String{Value: "555-1234"}, Rank: &dtpb.PositiveInt{Value: 1}, System: &dtpb.ContactPoint_SystemCode{Value: cpb.ContactPointSystemCode_PHONE}},
		},
		Contact: []*ppb.Patient_Contact{
			{Name: &dtpb.HumanName{Family: &dtpb.String{Value: "Kin"}}},
		},
		MultipleBirth: &ppb.Patient_MultipleBirthX{Choice: &ppb.Patient_MultipleBirthX_Integer{Integer: &dtpb.Integer{Value: 2}}},
		ManagingOrganization: &dtpb.Reference{Reference: &dtpb.Reference_OrganizationId{OrganizationId: &dtpb.ReferenceId{Value: "org1"}}},
	}
}

// EnvVal is one named environment value.
type EnvVal struct {
	Name  string
	Value any
	Class string
}

// StdEnv returns the standard environment variables. Fresh objects on every call.
func StdEnv() []EnvVal {
	d := time.Date(2021, 3, 4, 5, 6, 7, 8000000, time.UTC)
	hn := func(f string, g ...string) *dtpb.HumanName {
		h := &dtpb.HumanName{Family: &dtpb.String{Value: f}}
		for _, x := range g {
			h.Given = append(h.Given, &dtpb.String{Value: x})
		}
		return h
	}
	return []EnvVal{
		{"minint", system.Integer(math.MinInt32), "int"},
		{"maxint", system.Integer(math.MaxInt32), "int"},
		{"multi", system.Collection{system.Integer(1), system.Integer(2), system.Integer(3)}, "multi"},
		{"multis", system.Collection{system.String("a"), system.String("b")}, "multi"},
		{"codes", system.Collection{system.String("c"), system.String("a"), system.String("d"), system.String("b"), system.String("a")}, "multi"},
		{"fcodes", system.Collection{&dtpb.String{Value: "c"}, &dtpb.Code{Value: "a"}, &dtpb.String{Value: "b"}, &dtpb.String{Value: "a"}}, "multi"},
		{"multib", system.Collection{system.Boolean(true), system.Boolean(false)}, "multi"},
		{"emptyc", system.Collection{}, "empty"},
		{"dups", system.Collection{system.Integer(1), system.Integer(1), system.Integer(2)}, "multi"},
		{"allt", system.Collection{system.Boolean(true), system.Boolean(true)}, "multi"},
		{"allf", system.Collection{system.Boolean(false), system.Boolean(false)}, "multi"},
		{"pext", &dtpb.HumanName{Family: &dtpb.String{Value: "Ext"}, Extension: []*dtpb.Extension{{Url: &dtpb.Uri{Value: "http://e/x"}, Value: &dtpb.Extension_ValueX{Choice: &dtpb.Extension_ValueX_Boolean{Boolean: &dtpb.Boolean{Value: true}}}}, {Url: &dtpb.Uri{Value: "http://e/y"}}}}, "elem-complex"},
		{"name", hn("Smith", "Ann"), "elem-complex"},
		{"names", system.Collection{hn("Smith", "Ann"), hn("Jones")}, "multi"},
		{"fstr", &dtpb.String{Value: "héllo"}, "elem-prim"},
		{"fstrn", &dtpb.String{Value: "12"}, "elem-prim"},
		{"fint", &dtpb.Integer{Value: 7}, "elem-prim"},
		{"fminint", &dtpb.Integer{Value: math.MinInt32}, "elem-prim"},
		{"fpos", &dtpb.PositiveInt{Value: 3}, "elem-prim"},
		{"funs", &dtpb.UnsignedInt{Value: 0}, "elem-prim"},
		{"fbig", &dtpb.UnsignedInt{Value: math.MaxUint32}, "elem-prim"},
		{"fdec", &dtpb.Decimal{Value: "2.50"}, "elem-prim"},
		{"fbool", &dtpb.Boolean{Value: true}, "elem-prim"},
		{"fdate", &dtpb.Date{ValueUs: us(d), Timezone: "UTC", Precision: dtpb.Date_MONTH}, "elem-prim"},
		{"fdt", &dtpb.DateTime{ValueUs: us(d), Timezone: "+05:30", Precision: dtpb.DateTime_SECOND}, "elem-prim"},
		{"fdtday", &dtpb.DateTime{ValueUs: us(d), Timezone: "UTC", Precision: dtpb.DateTime_DAY}, "elem-prim"},
		{"fdnp", &dtpb.Date{ValueUs: us(d), Timezone: "UTC"}, "elem-prim"},     // hand-built elements without a precision
		{"fdtnp", &dtpb.DateTime{ValueUs: us(d), Timezone: "Z"}, "elem-prim"},
		{"ftnp", &dtpb.Time{ValueUs: 3723000000}, "elem-prim"},
		{"finst", &dtpb.Instant{ValueUs: us(d), Timezone: "Z", Precision: dtpb.Instant_MILLISECOND}, "elem-prim"},
		{"finp", &dtpb.Instant{ValueUs: us(d) + 45678000, Timezone: "+05:30"}, "elem-prim"},
		{"ftime", &dtpb.Time{ValueUs: 3723000000, Precision: dtpb.Time_SECOND}, "elem-prim"},
		{"fqty", &dtpb.Quantity{Value: &dtpb.Decimal{Value: "5.5"}, Code: &dtpb.Code{Value: "mg"}, Unit: &dtpb.String{Value: "mg"}}, "elem-prim"},
		{"fcode", &dtpb.Code{Value: "final"}, "elem-prim"},
		{"fenum", &ppb.Patient_GenderCode{Value: cpb.AdministrativeGenderCode_MALE}, "elem-prim"},
		{"fenumbad", &ppb.Patient_GenderCode{Value: cpb.AdministrativeGenderCode_Value(99)}, "elem-prim"},
		{"furi", &dtpb.Uri{Value: "http://example.org/x"}, "elem-prim"},
		{"fb64", &dtpb.Base64Binary{Value: []byte{0, 1, 2, 255}}, "elem-prim"},
		{"coding", &dtpb.Coding{System: &dtpb.Uri{Value: "http://loinc.org"}, Code: &dtpb.Code{Value: "1234-5"}}, "elem-complex"},
		{"period", &dtpb.Period{Start: &dtpb.DateTime{ValueUs: us(d), Timezone: "UTC", Precision: dtpb.DateTime_DAY}}, "elem-complex"},
		{"ref", &dtpb.Reference{Reference: &dtpb.Reference_PatientId{PatientId: &dtpb.ReferenceId{Value: "p1"}}}, "elem-complex"},
		{"ext", &dtpb.Extension{Url: &dtpb.Uri{Value: "http://e/x"}, Value: &dtpb.Extension_ValueX{Choice: &dtpb.Extension_ValueX_StringValue{StringValue: &dtpb.String{Value: "v"}}}}, "elem-complex"},
		{"pat", StdPatient(), "resource"},
		{"long", longStrings(), "multi"},
		{"fprims", system.Collection{&dtpb.String{Value: "a"}, &dtpb.Code{Value: "b"}, &dtpb.Integer{Value: 1}, &dtpb.String{Value: "a"}, &dtpb.Boolean{Value: true}, &dtpb.Decimal{Value: "1.0"}}, "multi"},
		{"fdbadtz", &dtpb.Date{ValueUs: 1577836800000000, Timezone: "Mars/Olympus", Precision: dtpb.Date_DAY}, "elem-prim"},
		{"idxc", system.Collection{system.Integer(1)}, "multi"},
		{"resource", system.Collection{}, "empty"}, {"rootResource", system.Collection{}, "empty"}, // names a caller may well choose; they are the caller's
		{"bw", &bcrpb.Bundle{Entry: []*bcrpb.Bundle_Entry{{FullUrl: &dtpb.Uri{Value: "urn:x"}, Resource: &bcrpb.ContainedResource{}}}}, "elem"},
		{"nilc", system.Collection(nil), "empty"},
		{"sparec", make(system.Collection, 0, 4), "empty"}, // no items, spare capacity (pre-sized or re-sliced by the caller)
		{"spare3", append(make(system.Collection, 0, 8), system.String("a"), system.String("b"), system.String("c")), "multi"},
		{"qnoval", &dtpb.Quantity{Code: &dtpb.Code{Value: "mg"}, Unit: &dtpb.String{Value: "mg"}}, "elem-prim"},
		{"dnoval", &dtpb.Decimal{Extension: []*dtpb.Extension{{Url: &dtpb.Uri{Value: "http://hl7.org/fhir/StructureDefinition/data-absent-reason"}, Value: &dtpb.Extension_ValueX{Choice: &dtpb.Extension_ValueX_Code{Code: &dtpb.Code{Value: "unknown"}}}}}}, "elem-prim"},
		{"tcoll", system.Collection{system.Boolean(true)}, "multi"},
		{"fcoll", system.Collection{&dtpb.Boolean{Value: false}}, "multi"},
	}
}

// longStrings: 40 strings, 25 distinct, repeats scattered (longer than any small-collection fast path).
func longStrings() system.Collection {
	var c system.Collection
	for i := 0; i < 40; i++ {
		c = append(c, system.String("s"+string(rune('a'+(i*7)%25))))
	}
	return c
}

// EnvOpts converts environment values to evaluate options.
func EnvOpts(vals []EnvVal) []fhirpath.EvaluateOption {
	var out []fhirpath.EvaluateOption
	for _, v := range vals {
		out = append(out, evalopts.EnvVariable(v.Name, v.Value))
	}
	return out
}

var _ fhir.Resource = (*ppb.Patient)(nil)

// Literal pools (sources). MinInt32 cannot be written as a literal, so it is an expression.
var (
	IntSrcs = []string{"0", "1", "-1", "2", "-2", "3", "7", "10", "50", "(-10)", "700", "(-745)", "40000000", "46340", "46341", "-46341", "65536", "2147483646", "2147483647", "-2147483647", "(-2147483647 - 1)", "%minint", "%fint", "%fminint", "%fpos", "%funs", "%fbig"}
	DecSrcs = []string{"0.0", "0.00", "1.0", "1.00", "-1.0", "0.5", "1.5", "2.5", "-0.5", "-2.5", "3.14159", "0.1", "100.0",
		"1000000000000000000000000000000.0", "0.000000000000000000000000000001", "99999999999.9", "-99999999999.9",
		"12345678901234567890.123456789", "2147483647.5", "2147483648.0", "-2147483648.5", "%fdec", "%dnoval",
		// beyond the float64 range in both directions (functions that go through float64 must not fail on them)
		"1" + strings.Repeat("0", 320) + ".0", "-1" + strings.Repeat("0", 320) + ".0", "0." + strings.Repeat("0", 330) + "1"}
	StrSrcs = []string{"''", "'abc'", "'a'", "'é'", "'h€llo😀'", "'é'", "'a\\'b'", "' 1'", "'1'", "'+1'", "'-1'", "'1.0'", "'1e3'", "'abc1'", "'true'", "'yes'", "'T'",
		"'2020'", "'2020-01-01'", "'2020-13-01'", "'2020-01-01T10:00:00Z'", "'@2020'", "'T10:00'", "'10:00'", "'24:00'", "'25:00'", "'23:59:59.9996'", "'2020-12-31T23:59:59.9996Z'", "'10:00:00.0004'", "'5 \\'mg\\''", "'5'", "'5 days'", "'1 \\'wk\\''", "'5 mg'", "'(['", "'a.b'", "'\\u123'", "'ab\\u00e'", "'\\u00g'", "'\\u'", "'\\u1'", "'\\x'", "'a\\'", "'\\u12345'", "'5\\t mg'", "'1.5\\r days'", "'5 \\'m g\\''", "'5\\n\\'mg\\''", "'5\\t'", "'\\t5'",
		"%fstr", "%fstrn", "%fcode", "%fenum", "%fenumbad", "%furi", "%fb64"}
	BoolSrcs = []string{"true", "false", "%fbool"}
	DateSrcs = []string{"%fdbadtz", "@2020", "@2020-02", "@2020-02-29", "@2021-02-28", "@2020-12-31", "@0001-01-01", "@9999-12-31", "@2020-01", "%fdate", "(@9999-12-31 + 1 day)", "(@0001-01-01 - 2 years)"}
	DTSrcs   = []string{"@2020T", "@2020-02T", "@2020-02-29T", "@2020-02-29T10", "@2020-02-29T10:30", "@2020-02-29T10:30:45", "@2020-02-29T10:30:45.123",
		"@2020-02-29T10:30:45Z", "@2020-02-29T10:30:45+05:30", "@2020-02-29T10:30:45.123-11:00", "@2020-02-29T10Z", "@2020-02-29T10:30+05:30",
		"@0001-01-01T00:00:00Z", "@9999-12-31T23:59:59.999Z", "@2020-03-01T00:00:00+14:00", "%fdt", "%fdtday", "%finst", "(@9999-12-31T23:59:59Z + 2 seconds)", "(@0001-01-01T00:00:00Z - 1 day)", "%fdtnp", "%fdnp", "%finp"}
	TimeSrcs = []string{"@T10", "@T10:30", "@T10:30:45", "@T10:30:45.123", "@T10:30:45.5", "@T00:00", "@T23:59:59.999", "@T23:30", "@T08", "%ftime", "(@T01:00 - 2 hours)", "(@T23:00 + 2 hours)", "(@T10:00 + 8784 hours)", "(@T00:00:00.000 - 1 millisecond)"}
	QtySrcs  = []string{"0 'mg'", "1 'mg'", "1.5 'kg'", "5 'mg'", "1 year", "2 years", "1 month", "13 months", "1 week", "3 weeks", "1 day", "365 days", "1 hour", "25 hours", "90 minutes", "1 second", "1.5 seconds",
		"1 millisecond", "1000 milliseconds", "1 'wk'", "1 'a'", "1 'mo'", "1 'd'", "1 'h'", "1 'min'", "1 's'", "1 'ms'", "1 '1'", "5.5 'mg'", "-(1 day)", "-(1 'mg')", "2147483648 days", "99999999999 years", "%fqty", "%qnoval"}
	EmptySrcs   = []string{"{}", "%emptyc", "%nilc", "%sparec", "Patient.photo", "Patient.name.suffix"}
	MultiSrcs   = []string{"%multi", "%multis", "%multib", "%names", "Patient.name", "Patient.name.given"}
	ComplexSrcs = []string{"%name", "%coding", "%period", "%ref", "%ext", "%pat", "Patient.name[0]", "Patient", "Patient.contact[0]", "Patient.managingOrganization", "Patient.deceased", "Patient.multipleBirth"}
	PathSrcs    = []string{"Patient.active", "Patient.birthDate", "Patient.gender", "Patient.id", "Patient.name[0].family", "Patient.telecom[0].rank", "Patient.name[0].use"}
)

// AllPool returns the whole boundary pool, each with its class.
func AllPool() []PV {
	var out []PV
	add := func(cls string, xs []string) {
		for _, x := range xs {
			out = append(out, PV{x, cls})
		}
	}
	add("int", IntSrcs)
	add("dec", DecSrcs)
	add("str", StrSrcs)
	add("bool", BoolSrcs)
	add("date", DateSrcs)
	add("datetime", DTSrcs)
	add("time", TimeSrcs)
	add("qty", QtySrcs)
	add("empty", EmptySrcs)
	add("multi", MultiSrcs)
	add("complex", ComplexSrcs)
	add("path", PathSrcs)
	return out
}

// SmallPool is a class-representative subset used where the full cross product is too large.
func SmallPool() []PV {
	pick := map[string][]int{"int": {0, 1, 2, 13, 15, 16}, "dec": {0, 2, 6, 13, 15}, "str": {0, 1, 3, 4, 8, 14, 26, 27, 28, 33}, "bool": {0, 1}, "date": {0, 1, 2, 5},
		"datetime": {0, 2, 3, 5, 6, 8, 15}, "time": {0, 1, 3, 4}, "qty": {1, 2, 4, 10, 14, 19, 27, 30}, "empty": {0, 1, 2}, "multi": {0, 3, 4}, "complex": {0, 5, 6, 8, 10}, "path": {0, 1, 2}}
	groups := map[string][]string{"int": IntSrcs, "dec": DecSrcs, "str": StrSrcs, "bool": BoolSrcs, "date": DateSrcs, "datetime": DTSrcs, "time": TimeSrcs, "qty": QtySrcs, "empty": EmptySrcs, "multi": MultiSrcs, "complex": ComplexSrcs, "path": PathSrcs}
	order := []string{"int", "dec", "str", "bool", "date", "datetime", "time", "qty", "empty", "multi", "complex", "path"}
	var out []PV
	for _, cls := range order {
		for _, i := range pick[cls] {
			if i < len(groups[cls]) {
				out = append(out, PV{groups[cls][i], cls})
			}
		}
	}
	return out
}
