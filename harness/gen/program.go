package gen

import (
	"strings"

	"github.com/verily-src/fhirpath-go/fhirpath/verifharness/core"
)

// Expr is a FHIRPath expression tree (generated as a tree, rendered to text).
type Expr struct {
	K    string  // lit | ident | env | this | member | func | index | unary | bin | type | empty
	Text string  // literal text, identifier, function name, operator, type specifier
	Kids []*Expr // member:[recv] func:[recv?,args…] index:[coll,idx] unary:[x] bin:[l,r] type:[x]
	Recv bool    // func has a receiver in Kids[0]
}

// Precedence level per the FHIRPath grammar (1 binds tightest).
func (e *Expr) Level() int {
	switch e.K {
	case "member":
		return 1
	case "func":
		if e.Recv {
			return 1
		}
		return 0
	case "index":
		return 2
	case "unary":
		return 3
	case "type":
		return 6
	case "bin":
		switch e.Text {
		case "*", "/", "div", "mod":
			return 4
		case "+", "-", "&":
			return 5
		case "|":
			return 7
		case "<", "<=", ">", ">=":
			return 8
		case "=", "!=", "~", "!~":
			return 9
		case "in", "contains":
			return 10
		case "and":
			return 11
		case "or", "xor":
			return 12
		case "implies":
			return 13
		}
	}
	return 0 // atoms
}

// Tokens renders the tree. full=true parenthesises every non-atomic sub-term;
// otherwise only where precedence/associativity require it.
func (e *Expr) Tokens(full bool) []string {
	var out []string
	e.render(&out, full)
	return out
}

// atomsToo makes the fully parenthesised rendering wrap atoms (literals, names, variables) as well.
var atomsToo bool

// TokensAtoms is Tokens(true) with every atom in an operand position parenthesised too: `a[(1)]`, `(1) + (2)`.
func (e *Expr) TokensAtoms() []string {
	atomsToo = true
	defer func() { atomsToo = false }()
	var out []string
	e.render(&out, true)
	return out
}

func (e *Expr) child(out *[]string, c *Expr, full bool, need bool) {
	if (full && (c.Level() > 0 || atomsToo)) || need {
		*out = append(*out, "(")
		c.render(out, full)
		*out = append(*out, ")")
		return
	}
	c.render(out, full)
}

func (e *Expr) render(out *[]string, full bool) {
	switch e.K {
	case "lit", "ident", "env", "this", "empty":
		// a quantity literal is two tokens (number, unit): blanks and comments may stand between them
		if e.K == "lit" && len(e.Text) > 2 && e.Text[0] >= '0' && e.Text[0] <= '9' && strings.Count(e.Text, " ") == 1 && !strings.HasSuffix(e.Text, " ") {
			num, unit, _ := strings.Cut(e.Text, " ")
			*out = append(*out, num, unit)
			break
		}
		*out = append(*out, e.Text)
	case "member":
		r := e.Kids[0]
		e.child(out, r, full, r.Level() > 1)
		*out = append(*out, ".", e.Text)
	case "func":
		args := e.Kids
		if e.Recv {
			r := e.Kids[0]
			e.child(out, r, full, r.Level() > 1)
			*out = append(*out, ".")
			args = e.Kids[1:]
		}
		*out = append(*out, e.Text, "(")
		for i, a := range args {
			if i > 0 {
				*out = append(*out, ",")
			}
			// arguments are full expressions: never need parentheses
			if full && (a.Level() > 0 || atomsToo) {
				*out = append(*out, "(")
				a.render(out, full)
				*out = append(*out, ")")
			} else {
				a.render(out, full)
			}
		}
		*out = append(*out, ")")
	case "index":
		c := e.Kids[0]
		e.child(out, c, full, c.Level() > 2)
		*out = append(*out, "[")
		if full && atomsToo && e.Kids[1].Level() == 0 {
			*out = append(*out, "(")
			e.Kids[1].render(out, full)
			*out = append(*out, ")")
		} else {
			e.Kids[1].render(out, full)
		}
		*out = append(*out, "]")
	case "unary":
		*out = append(*out, e.Text)
		c := e.Kids[0]
		e.child(out, c, full, c.Level() > 3)
	case "type":
		c := e.Kids[0]
		e.child(out, c, full, c.Level() > 6)
		*out = append(*out, e.Text) // "is" / "as"
		*out = append(*out, strings.Split(e.Kids[1].Text, " ")...)
	case "bin":
		lv := e.Level()
		l, r := e.Kids[0], e.Kids[1]
		e.child(out, l, full, l.Level() > lv)
		*out = append(*out, e.Text)
		e.child(out, r, full, r.Level() >= lv)
	}
}

func wordEdge(c byte) bool {
	return c == '_' || c == '\'' || c == '`' || c == '%' || c == '$' || c == '@' || (c >= '0' && c <= '9') || (c >= 'a' && c <= 'z') || (c >= 'A' && c <= 'Z') || c >= 0x80
}

// needGap reports whether two adjacent tokens need separating whitespace.
func needGap(a, b string) bool {
	if a == "" || b == "" {
		return false
	}
	x, y := a[len(a)-1], b[0]
	if wordEdge(x) && wordEdge(y) {
		return true
	}
	// a partial date/time literal followed by '-'/'+' and digits would be read as a longer literal or an offset
	if a[0] == '@' && (y == '-' || y == '+') {
		return true
	}
	// a NUMBER followed by '.' then digits would merge into a decimal; '/' '/' or '/' '*' would open a comment
	if (x == '/' && (y == '/' || y == '*')) || (x == '*' && y == '/') {
		return true
	}
	if x >= '0' && x <= '9' && y == '.' {
		return false
	}
	return false
}

// Join renders tokens with single spaces only where needed around words and binary operators.
func Join(tokens []string) string {
	var b strings.Builder
	for i, t := range tokens {
		if i > 0 {
			p := tokens[i-1]
			if needGap(p, t) || isWordOp(t) || isWordOp(p) || isSymOp(t) || isSymOp(p) {
				b.WriteByte(' ')
			}
		}
		b.WriteString(t)
	}
	return b.String()
}

// JoinTight renders tokens with a blank only where two adjacent tokens would otherwise merge into another token.
func JoinTight(tokens []string) string {
	var b strings.Builder
	for i, t := range tokens {
		if i > 0 && needGap(tokens[i-1], t) {
			b.WriteByte(' ')
		}
		b.WriteString(t)
	}
	return b.String()
}

// JoinWith is Join with another whitespace string in the places where Join puts a single space.
func JoinWith(tokens []string, sep string) string {
	var b strings.Builder
	for i, t := range tokens {
		if i > 0 {
			p := tokens[i-1]
			if needGap(p, t) || isWordOp(t) || isWordOp(p) || isSymOp(t) || isSymOp(p) {
				b.WriteString(sep)
			}
		}
		b.WriteString(t)
	}
	return b.String()
}

func isWordOp(t string) bool {
	switch t {
	case "div", "mod", "and", "or", "xor", "implies", "is", "as", "in", "contains":
		return true
	}
	return false
}

func isSymOp(t string) bool {
	switch t {
	case "*", "/", "+", "-", "&", "|", "<", "<=", ">", ">=", "=", "!=", "~", "!~":
		return true
	}
	return false
}

var gaps = []string{"", " ", "\n", "\t", "  ", "/* c */", " /* x*y */ ", "// c\n", " // 'q'\n\t"}

// Decorate joins tokens with random gaps (whitespace / comments), never inside a token.
func Decorate(tokens []string, r *core.Rng) string {
	var b strings.Builder
	if r.Intn(3) == 0 {
		b.WriteString(gaps[1+r.Intn(len(gaps)-1)])
	}
	for i, t := range tokens {
		if i > 0 {
			g := gaps[r.Intn(len(gaps))]
			if g == "" && needGap(tokens[i-1], t) {
				g = " "
			}
			// a '/' token directly followed by a comment would itself open a comment ("//", "/*")
			if strings.HasSuffix(tokens[i-1], "/") && strings.HasPrefix(g, "/") {
				g = " " + g
			}
			b.WriteString(g)
		}
		b.WriteString(t)
	}
	if r.Intn(3) == 0 {
		b.WriteString(gaps[1+r.Intn(len(gaps)-1)])
	}
	return b.String()
}

// ProgCtx tells the generator which non-vacuous paths and variables exist.
type ProgCtx struct {
	Root      string
	StrPaths  [][]string
	NumPaths  [][]string
	BoolPaths [][]string
	DatePaths [][]string
	CollPaths [][]string // repeated complex elements
	AnyPaths  [][]string
	FuncNames []string // every name of the function table
	WrongRoot string
}

// StdProgCtx is the context matching StdPatient / StdEnv.
func StdProgCtx(funcNames []string) *ProgCtx {
	return &ProgCtx{
		Root:      "Patient",
		StrPaths:  [][]string{{"name", "family"}, {"id"}, {"gender"}, {"name", "given"}, {"telecom", "value"}},
		NumPaths:  [][]string{{"telecom", "rank"}, {"multipleBirth"}},
		BoolPaths: [][]string{{"active"}, {"deceased"}},
		DatePaths: [][]string{{"birthDate"}},
		CollPaths: [][]string{{"name"}, {"telecom"}, {"contact"}, {"name", "given"}},
		AnyPaths:  [][]string{{"managingOrganization"}, {"contact", "name"}, {"photo"}, {"meta"}},
		FuncNames: funcNames,
		WrongRoot: "Observation",
	}
}

// ProgGen generates expression trees.
type ProgGen struct {
	R   *core.Rng
	Ctx *ProgCtx
}

func lit(t string) *Expr   { return &Expr{K: "lit", Text: t} }
func ident(t string) *Expr { return &Expr{K: "ident", Text: t} }

func bin(op string, l, r *Expr) *Expr { return &Expr{K: "bin", Text: op, Kids: []*Expr{l, r}} }
func fn(name string, recv *Expr, args ...*Expr) *Expr {
	if recv == nil {
		return &Expr{K: "func", Text: name, Kids: args}
	}
	return &Expr{K: "func", Text: name, Recv: true, Kids: append([]*Expr{recv}, args...)}
}

func (g *ProgGen) path(names []string, rooted bool) *Expr {
	var e *Expr
	start := 0
	if rooted {
		e = ident(g.Ctx.Root)
		if g.R.Intn(40) == 0 {
			e = ident(g.Ctx.WrongRoot)
		}
	} else {
		e = ident(names[0])
		start = 1
	}
	for _, n := range names[start:] {
		e = &Expr{K: "member", Text: n, Kids: []*Expr{e}}
	}
	return e
}

func (g *ProgGen) pick(ps [][]string) []string {
	if len(ps) == 0 {
		return []string{"id"}
	}
	return ps[g.R.Intn(len(ps))]
}

var intLits = []string{"0", "1", "2", "3", "7", "10", "100", "46341", "2147483647"}
var decLits = []string{"0.0", "0.5", "1.0", "1.5", "2.50", "3.14159", "100.0", "0.001"}
var strLits = []string{"''", "'a'", "'abc'", "'Ann'", "'Smith'", "'é'", "'a b'", "'1'", "'true'", "'official'", "'x\\'y'"}
var dateLits = []string{"@2020", "@2020-02", "@2020-02-29", "@1990-02-28", "@2021-12-31", "@9999-12-31", "@0001-01-01", "@9999"}
var dtLits = []string{"@2020T", "@2020-02-29T10", "@2020-02-29T10:30:45", "@2020-02-29T10:30:45.123", "@2020-02-29T10:30:45Z", "@2020-02-29T10:30:45+05:30", "@9999-12-31T23:59:59Z", "@0001-01-01T00:00:00+14:00", "@2020-01-01T23:40-03:30"}
var timeLits = []string{"@T10", "@T10:30", "@T10:30:45", "@T10:30:45.123"}
var qtyLits = []string{"1 year", "2 months", "3 weeks", "10 days", "5 hours", "90 minutes", "30 seconds", "1 'mg'", "2.5 'kg'", "1 'wk'"}
var typeSpecs = []string{"Integer", "String", "Boolean", "Decimal", "Date", "DateTime", "Quantity", "System . Integer", "System . String", "FHIR . string", "FHIR . boolean", "string", "boolean", "Patient", "HumanName", "FHIR . Patient", "Element", "Resource", "DomainResource", "code", "integer"}

// Gen produces a tree of the given category: num str bool date coll any.
func (g *ProgGen) Gen(cat string, depth int) *Expr {
	r := g.R
	if depth <= 0 {
		return g.leaf(cat)
	}
	d := depth - 1
	switch cat {
	case "num":
		switch r.Intn(14) {
		case 0, 1:
			return g.leaf(cat)
		case 2, 3:
			return bin(core.Pick(r, []string{"+", "-", "*"}), g.Gen("num", d), g.Gen("num", d))
		case 4:
			return bin(core.Pick(r, []string{"/", "div", "mod"}), g.Gen("num", d), g.Gen("num", d))
		case 5:
			return &Expr{K: "unary", Text: core.Pick(r, []string{"-", "+"}), Kids: []*Expr{g.Gen("num", d)}}
		case 6:
			return fn("length", g.Gen("str", d))
		case 7:
			return fn("count", g.Gen("coll", d))
		case 8:
			return fn(core.Pick(r, []string{"abs", "ceiling", "floor", "truncate", "round", "sqrt", "ln", "exp"}), g.Gen("num", d))
		case 9:
			return fn("iif", nil, g.Gen("bool", d), g.Gen("num", d), g.Gen("num", d))
		case 10:
			return fn("indexOf", g.Gen("str", d), g.Gen("str", d))
		case 11:
			return fn(core.Pick(r, []string{"toInteger", "toDecimal"}), g.Gen("str", d))
		case 12:
			return fn("first", fn("select", g.Gen("coll", d), fn("count", fn("children", &Expr{K: "this", Text: "$this"}))))
		default:
			return &Expr{K: "index", Kids: []*Expr{g.Gen("num", d), lit("0")}}
		}
	case "str":
		switch r.Intn(12) {
		case 0, 1:
			return g.leaf(cat)
		case 2:
			return bin("&", g.Gen("str", d), g.Gen("any", d))
		case 3:
			return bin("+", g.Gen("str", d), g.Gen("str", d))
		case 4:
			return fn("substring", g.Gen("str", d), g.Gen("num", d))
		case 5:
			return fn("substring", g.Gen("str", d), g.Gen("num", d), g.Gen("num", d))
		case 6:
			return fn(core.Pick(r, []string{"upper", "lower", "toString"}), g.Gen("str", d))
		case 7:
			return fn("replace", g.Gen("str", d), g.Gen("str", d), g.Gen("str", d))
		case 8:
			return fn("toString", g.Gen(core.Pick(r, []string{"num", "bool", "date"}), d))
		case 9:
			return fn("first", fn("toChars", g.Gen("str", d)))
		case 10:
			return fn("iif", nil, g.Gen("bool", d), g.Gen("str", d))
		default:
			return fn("join", g.Gen("coll", d), g.Gen("str", d))
		}
	case "bool":
		switch r.Intn(16) {
		case 0:
			return g.leaf(cat)
		case 1, 2:
			return bin(core.Pick(r, []string{"and", "or", "xor", "implies"}), g.Gen("bool", d), g.Gen("bool", d))
		case 3, 4:
			c := core.Pick(r, []string{"num", "str", "date"})
			return bin(core.Pick(r, []string{"<", "<=", ">", ">="}), g.Gen(c, d), g.Gen(c, d))
		case 5, 6:
			c := core.Pick(r, []string{"num", "str", "date", "bool", "coll", "any"})
			return bin(core.Pick(r, []string{"=", "!="}), g.Gen(c, d), g.Gen(c, d))
		case 7:
			return fn(core.Pick(r, []string{"exists", "empty", "isDistinct", "allTrue", "anyFalse"}), g.Gen("coll", d))
		case 8:
			return fn("not", g.Gen("bool", d))
		case 9:
			return &Expr{K: "type", Text: "is", Kids: []*Expr{g.Gen("any", d), lit(core.Pick(r, typeSpecs))}}
		case 10:
			return fn(core.Pick(r, []string{"all", "exists"}), g.Gen("coll", d), g.crit(d))
		case 11:
			return fn(core.Pick(r, []string{"startsWith", "endsWith", "contains", "matches"}), g.Gen("str", d), g.Gen("str", d))
		case 12:
			return fn(core.Pick(r, []string{"convertsToInteger", "convertsToDecimal", "convertsToBoolean", "convertsToDate", "convertsToDateTime", "convertsToTime", "convertsToQuantity", "convertsToString"}), g.Gen("any", d))
		case 13:
			return bin(core.Pick(r, []string{"in", "contains", "~", "!~"}), g.Gen("any", d), g.Gen("any", d))
		case 14:
			return fn("toBoolean", g.Gen("str", d))
		default:
			return fn("iif", nil, g.Gen("bool", d), g.Gen("bool", d), g.Gen("bool", d))
		}
	case "date":
		switch r.Intn(8) {
		case 0, 1, 2:
			return g.leaf(cat)
		case 3, 4:
			return bin(core.Pick(r, []string{"+", "-"}), g.Gen("date", d), lit(core.Pick(r, qtyLits)))
		case 5:
			return fn(core.Pick(r, []string{"now", "today", "timeOfDay"}), nil)
		case 6:
			return fn(core.Pick(r, []string{"toDate", "toDateTime"}), g.Gen("date", d))
		default:
			return fn(core.Pick(r, []string{"toDate", "toDateTime", "toTime"}), g.Gen("str", d))
		}
	case "coll":
		switch r.Intn(16) {
		case 0, 1, 2:
			return g.leaf(cat)
		case 3:
			return fn("where", g.Gen("coll", d), g.crit(d))
		case 4:
			return fn("select", g.Gen("coll", d), g.proj(d))
		case 5:
			return fn(core.Pick(r, []string{"first", "last", "tail", "distinct", "children", "descendants"}), g.Gen("coll", d))
		case 6:
			return fn(core.Pick(r, []string{"skip", "take"}), g.Gen("coll", d), g.Gen("num", d))
		case 7:
			return fn(core.Pick(r, []string{"intersect", "exclude"}), g.Gen("coll", d), g.Gen("coll", d))
		case 8:
			return bin("|", g.Gen("coll", d), g.Gen("coll", d))
		case 9:
			return fn("extension", g.Gen("coll", d), lit("'http://example.org/ext/a'"))
		case 10:
			return &Expr{K: "index", Kids: []*Expr{g.Gen("coll", d), g.Gen("num", d)}}
		case 11:
			return &Expr{K: "type", Text: "as", Kids: []*Expr{g.Gen("any", d), lit(core.Pick(r, typeSpecs))}}
		case 12:
			return fn("toChars", g.Gen("str", d))
		case 13:
			return fn(core.Pick(r, []string{"ofType", "repeat", "union", "combine", "subsetOf", "trace", "single"}), g.Gen("coll", d), g.Gen("any", d))
		case 14:
			return fn("iif", nil, g.Gen("bool", d), g.Gen("coll", d), g.Gen("coll", d))
		default:
			return g.Gen("any", d)
		}
	default: // any
		switch r.Intn(9) {
		case 0:
			return g.Gen("num", depth)
		case 1:
			return g.Gen("str", depth)
		case 2:
			return g.Gen("bool", depth)
		case 3:
			return g.Gen("date", depth)
		case 4:
			return g.Gen("coll", depth)
		case 5:
			return lit(core.Pick(r, qtyLits))
		case 6:
			// a function from the table with random arity
			name := "count"
			if len(g.Ctx.FuncNames) > 0 {
				name = core.Pick(r, g.Ctx.FuncNames)
			}
			var args []*Expr
			for i := r.Intn(3); i > 0; i-- {
				args = append(args, g.Gen("any", d))
			}
			return fn(name, g.Gen("any", d), args...)
		case 7:
			return g.path(g.pick(g.Ctx.AnyPaths), true)
		default:
			return g.leaf("any")
		}
	}
}

// crit generates a criterion evaluated per item ($this / member based).
func (g *ProgGen) crit(d int) *Expr {
	r := g.R
	switch r.Intn(7) {
	case 0:
		return bin("=", g.path(lastN(g.pick(g.Ctx.StrPaths)), false), lit(core.Pick(r, strLits)))
	case 1:
		return fn("exists", g.path(lastN(g.pick(g.Ctx.AnyPaths)), false))
	case 2:
		return bin(core.Pick(r, []string{"=", "!="}), &Expr{K: "this", Text: "$this"}, g.leaf("any"))
	case 3:
		return fn("exists", fn("children", &Expr{K: "this", Text: "$this"}))
	case 4:
		return lit(core.Pick(r, []string{"true", "false", "{}"}))
	case 5:
		return bin(">", fn("count", fn("children", &Expr{K: "this", Text: "$this"})), lit("1"))
	default:
		return g.Gen("bool", d)
	}
}

func (g *ProgGen) proj(d int) *Expr {
	r := g.R
	switch r.Intn(5) {
	case 0:
		return g.path(lastN(g.pick(g.Ctx.StrPaths)), false)
	case 1:
		return &Expr{K: "this", Text: "$this"}
	case 2:
		return fn("children", &Expr{K: "this", Text: "$this"})
	case 3:
		return g.path(lastN(g.pick(g.Ctx.AnyPaths)), false)
	default:
		return g.Gen("any", d)
	}
}

func lastN(p []string) []string { return p[len(p)-1:] }

func (g *ProgGen) leaf(cat string) *Expr {
	r := g.R
	switch cat {
	case "num":
		switch r.Intn(6) {
		case 0, 1:
			return lit(core.Pick(r, intLits))
		case 2:
			return lit(core.Pick(r, decLits))
		case 3:
			return &Expr{K: "env", Text: core.Pick(r, []string{"%fint", "%fdec", "%fpos", "%minint", "%maxint"})}
		default:
			return fn("first", g.path(g.pick(g.Ctx.NumPaths), true))
		}
	case "str":
		switch r.Intn(5) {
		case 0, 1:
			return lit(core.Pick(r, strLits))
		case 2:
			return &Expr{K: "env", Text: core.Pick(r, []string{"%fstr", "%fcode", "%furi", "%ucum"})}
		default:
			return fn("first", g.path(g.pick(g.Ctx.StrPaths), true))
		}
	case "bool":
		switch r.Intn(5) {
		case 0, 1:
			return lit(core.Pick(r, []string{"true", "false"}))
		case 2:
			return &Expr{K: "env", Text: "%fbool"}
		case 3:
			return &Expr{K: "empty", Text: "{}"}
		default:
			return g.path(g.pick(g.Ctx.BoolPaths), true)
		}
	case "date":
		switch r.Intn(6) {
		case 0, 1:
			return lit(core.Pick(r, dateLits))
		case 2:
			return lit(core.Pick(r, dtLits))
		case 3:
			return lit(core.Pick(r, timeLits))
		case 4:
			return &Expr{K: "env", Text: core.Pick(r, []string{"%fdate", "%fdt", "%ftime", "%finst"})}
		default:
			return g.path(g.pick(g.Ctx.DatePaths), true)
		}
	case "coll":
		switch r.Intn(6) {
		case 0:
			return &Expr{K: "env", Text: core.Pick(r, []string{"%multi", "%multis", "%names", "%emptyc", "%context"})}
		case 1:
			return g.path(g.pick(g.Ctx.StrPaths), true)
		case 2:
			return ident(g.Ctx.Root)
		default:
			return g.path(g.pick(g.Ctx.CollPaths), true)
		}
	default:
		switch r.Intn(8) {
		case 0:
			return &Expr{K: "empty", Text: "{}"}
		case 1:
			return &Expr{K: "env", Text: core.Pick(r, []string{"%name", "%coding", "%period", "%ref", "%pat", "%fqty", "%nosuchvar", "%ext"})}
		case 2:
			return lit(core.Pick(r, qtyLits))
		case 3:
			return g.leaf("num")
		case 4:
			return g.leaf("str")
		case 5:
			return g.leaf("bool")
		case 6:
			return g.leaf("date")
		default:
			return g.leaf("coll")
		}
	}
}

// Depth returns the nesting depth of the tree.
func (e *Expr) Depth() int {
	d := 0
	for _, k := range e.Kids {
		if kd := k.Depth(); kd > d {
			d = kd
		}
	}
	return d + 1
}
