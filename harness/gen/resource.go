package gen

import (
	"fmt"
	"strings"
	"time"

	dtpb "github.com/google/fhir/go/proto/google/fhir/proto/r4/core/datatypes_go_proto"
	bcrpb "github.com/google/fhir/go/proto/google/fhir/proto/r4/core/resources/bundle_and_contained_resource_go_proto"
	"github.com/verily-src/fhirpath-go/fhirpath/verifharness/core"
	"github.com/verily-src/fhirpath-go/internal/fhir"
	"google.golang.org/protobuf/proto"
	"google.golang.org/protobuf/reflect/protoreflect"
	"google.golang.org/protobuf/reflect/protoregistry"
	"google.golang.org/protobuf/types/known/anypb"
)

// ResGen populates R4 resource protos from their descriptors.
type ResGen struct {
	R        *core.Rng
	MaxDepth int // nesting depth of complex elements
	Fill     int // percent chance of populating an optional field at depth 0
	Budget   int // remaining message budget
	MaxRep   int // max items in a repeated field
	NoContained bool
	// Dense: every field of every message down to DenseDepth is populated (schema coverage rather than variety).
	Dense      bool
	DenseDepth int
	// ChoiceSeen / FieldSeen record schema coverage (full names).
	ChoiceSeen map[string]bool
	FieldSeen  map[string]bool
}

func NewResGen(r *core.Rng, rich bool) *ResGen {
	g := &ResGen{R: r, MaxDepth: 3, Fill: 45, Budget: 120, MaxRep: 2, ChoiceSeen: map[string]bool{}, FieldSeen: map[string]bool{}}
	if rich {
		g.MaxDepth, g.Fill, g.Budget, g.MaxRep = 5, 70, 400, 3
	}
	return g
}

// NewDenseResGen populates every element down to two levels below the resource (and sparsely below that).
func NewDenseResGen(r *core.Rng) *ResGen {
	return &ResGen{R: r, MaxDepth: 4, Fill: 30, Budget: 6000, MaxRep: 1, Dense: true, DenseDepth: 2, NoContained: true, ChoiceSeen: map[string]bool{}, FieldSeen: map[string]bool{}}
}

func newMessage(md protoreflect.MessageDescriptor) protoreflect.Message {
	mt, err := protoregistry.GlobalTypes.FindMessageByName(md.FullName())
	if err != nil {
		panic(fmt.Sprintf("harness: message type %s not linked in: %v", md.FullName(), err))
	}
	return mt.New()
}

// Resource generates a populated resource of the given type.
func (g *ResGen) Resource(md protoreflect.MessageDescriptor) fhir.Resource {
	budget := g.Budget
	m := newMessage(md)
	g.fillComplex(m, 0, true)
	g.Budget = budget
	return m.Interface().(fhir.Resource)
}

func (g *ResGen) want(depth int, required bool) bool {
	if required {
		return true
	}
	if g.Budget <= 0 {
		return false
	}
	if g.Dense && depth < g.DenseDepth {
		return true
	}
	p := g.Fill
	for i := 0; i < depth; i++ {
		p = p * 2 / 3
	}
	if p < 8 {
		p = 8
	}
	return g.R.Intn(100) < p
}

func (g *ResGen) fillComplex(m protoreflect.Message, depth int, isResource bool) {
	md := m.Descriptor()
	g.Budget--
	fields := md.Fields()
	for i := 0; i < fields.Len(); i++ {
		fd := fields.Get(i)
		fmd := fd.Message()
		if fmd == nil {
			continue // scalar proto fields only exist on primitives
		}
		name := string(fd.Name())
		required := isResource && name == "id"
		prim := IsPrimitive(fmd)
		if !prim && depth >= g.MaxDepth {
			continue
		}
		// Extensions and element ids are populated sparsely.
		if name == "extension" || name == "modifier_extension" {
			if g.R.Intn(100) >= 12 || depth >= g.MaxDepth {
				continue
			}
		} else if name == "id" && !isResource {
			if g.R.Intn(100) >= 10 {
				continue
			}
		} else if !g.want(depth, required) {
			continue
		}
		if IsAny(fmd) && (g.NoContained || depth > 0) {
			continue
		}
		if fd.IsList() {
			n := 1 + g.R.Intn(g.MaxRep)
			if g.R.Intn(10) == 0 {
				n = g.MaxRep + 1
			}
			list := m.Mutable(fd).List()
			var prev protoreflect.Message
			for k := 0; k < n; k++ {
				var v protoreflect.Message
				if prev != nil && g.R.Intn(6) == 0 && !IsAny(fmd) {
					v = proto.Clone(prev.Interface()).ProtoReflect() // structural duplicate
				} else {
					v = g.value(fd, fmd, depth+1)
				}
				if v == nil {
					continue
				}
				list.Append(protoreflect.ValueOfMessage(v))
				prev = v
			}
			if list.Len() == 0 {
				m.Clear(fd)
			} else {
				g.FieldSeen[string(fd.FullName())] = true
			}
			continue
		}
		v := g.value(fd, fmd, depth+1)
		if v != nil {
			m.Set(fd, protoreflect.ValueOfMessage(v))
			g.FieldSeen[string(fd.FullName())] = true
		}
	}
	// Quantity and its specialisations: half of them are UCUM quantities with a real unit code (time units included)
	switch string(md.Name()) {
	case "Quantity", "Age", "Duration", "Distance", "Count", "SimpleQuantity", "MoneyQuantity":
		sysF, codeF, unitF := fields.ByName("system"), fields.ByName("code"), fields.ByName("unit")
		if sysF != nil && codeF != nil && unitF != nil && m.Has(codeF) && g.R.Intn(2) == 0 {
			codes := []string{"min", "h", "d", "wk", "mo", "a", "s", "ms", "mg", "kg", "mm[Hg]", "1"}
			c := codes[g.R.Intn(len(codes))]
			setv := func(fd protoreflect.FieldDescriptor, val string) {
				x := newMessage(fd.Message())
				x.Set(fd.Message().Fields().ByName("value"), protoreflect.ValueOfString(val))
				m.Set(fd, protoreflect.ValueOfMessage(x))
			}
			setv(sysF, "http://unitsofmeasure.org")
			setv(codeF, c)
			setv(unitF, c)
		}
	}
}

// value creates a populated message for a field of message type fmd.
func (g *ResGen) value(fd protoreflect.FieldDescriptor, fmd protoreflect.MessageDescriptor, depth int) protoreflect.Message {
	switch {
	case IsAny(fmd):
		cr := g.contained(depth)
		a, err := anypb.New(cr)
		if err != nil {
			return nil
		}
		return a.ProtoReflect()
	case IsContained(fmd):
		return g.contained(depth).ProtoReflect()
	case IsPrimitive(fmd):
		m := newMessage(fmd)
		g.fillPrimitive(m, depth)
		return m
	case IsChoice(fmd):
		m := newMessage(fmd)
		od := fmd.Oneofs().Get(0)
		// choose a member; beyond max depth only primitive members
		var cands []protoreflect.FieldDescriptor
		for i := 0; i < od.Fields().Len(); i++ {
			f := od.Fields().Get(i)
			if depth >= g.MaxDepth && !IsPrimitive(f.Message()) {
				continue
			}
			cands = append(cands, f)
		}
		if len(cands) == 0 {
			return nil
		}
		f := cands[g.R.Intn(len(cands))]
		v := g.value(f, f.Message(), depth)
		if v == nil {
			return nil
		}
		m.Set(f, protoreflect.ValueOfMessage(v))
		g.ChoiceSeen[string(f.FullName())] = true
		g.Budget--
		return m
	case IsReference(fmd):
		return g.reference(fd, depth)
	case fmd.FullName() == "google.fhir.r4.core.Extension":
		return g.extension(depth)
	default:
		m := newMessage(fmd)
		g.fillComplex(m, depth, false)
		if !hasAnyField(m) {
			// an element must have content; give it an id
			if idf := fmd.Fields().ByName("id"); idf != nil && idf.Message() != nil && IsPrimitive(idf.Message()) {
				v := newMessage(idf.Message())
				g.fillPrimitive(v, depth+1)
				m.Set(idf, protoreflect.ValueOfMessage(v))
			} else {
				return nil
			}
		}
		return m
	}
}

func hasAnyField(m protoreflect.Message) bool {
	has := false
	m.Range(func(protoreflect.FieldDescriptor, protoreflect.Value) bool { has = true; return false })
	return has
}

func (g *ResGen) contained(depth int) *bcrpb.ContainedResource {
	types := ResourceTypes()
	md := types[g.R.Intn(len(types))]
	sub := &ResGen{R: g.R, MaxDepth: 2, Fill: 35, Budget: 25, MaxRep: 2, NoContained: true, ChoiceSeen: g.ChoiceSeen, FieldSeen: g.FieldSeen}
	if md.Name() == "Bundle" && g.R.Intn(3) != 0 {
		md = ResourceTypeByName("Patient")
	}
	m := newMessage(md)
	sub.fillComplex(m, 1, true)
	cr := &bcrpb.ContainedResource{}
	crm := cr.ProtoReflect()
	crm.Set(ContainedFieldFor(md), protoreflect.ValueOfMessage(m))
	g.Budget -= 10
	return cr
}

var idAlphabet = "ABCDEFGHIJKLMNOPQRSTUVWXYZabcdefghijklmnopqrstuvwxyz0123456789-."

func (g *ResGen) idString() string {
	n := 1 + g.R.Intn(8)
	if g.R.Intn(20) == 0 {
		n = 64
	}
	b := make([]byte, n)
	for i := range b {
		b[i] = idAlphabet[g.R.Intn(len(idAlphabet))]
	}
	return string(b)
}

var words = []string{"alpha", "Bravo", "chärlie", "δelta", "echo 1", "fox-trot", "golf_2", "hôtel", "india", "Juliet", "kilo", "€uro", "x", "😀", "tab\there", "quote'd", "a/b", "1", "true"}

func (g *ResGen) text() string {
	w := words[g.R.Intn(len(words))]
	if g.R.Intn(3) == 0 {
		w += " " + words[g.R.Intn(len(words))]
	}
	return w
}

var tzs = []string{"Z", "UTC", "+05:30", "-11:00", "-03:30", "+05:45", "-09:30"}

// TZLoc returns the location for "Z", "UTC" or a "+hh:mm" offset.
func TZLoc(tz string) *time.Location { return tzLoc(tz) }

func tzLoc(tz string) *time.Location {
	switch tz {
	case "Z", "UTC":
		return time.UTC
	}
	sign := 1
	if tz[0] == '-' {
		sign = -1
	}
	var h, m int
	fmt.Sscanf(tz[1:], "%d:%d", &h, &m)
	return time.FixedZone(tz, sign*(h*3600+m*60))
}

// civil returns a random civil time truncated to the given component count (1=year … 6=second) plus sub-second micros.
func (g *ResGen) civil(parts int, micros int, loc *time.Location) time.Time {
	y := []int{1, 1900, 1970, 1999, 2000, 2020, 2021, 2024, 9999}[g.R.Intn(9)]
	if g.R.Intn(2) == 0 {
		y = 1950 + g.R.Intn(100)
	}
	mo, d, h, mi, s := 1, 1, 0, 0, 0
	if parts >= 2 {
		mo = 1 + g.R.Intn(12)
	}
	if parts >= 3 {
		d = 1 + g.R.Intn(28)
		if g.R.Intn(8) == 0 {
			d = time.Date(y, time.Month(mo)+1, 0, 0, 0, 0, 0, time.UTC).Day() // month end
		}
	}
	if parts >= 4 {
		h, mi, s = g.R.Intn(24), g.R.Intn(60), g.R.Intn(60)
	}
	return time.Date(y, time.Month(mo), d, h, mi, s, micros*1000, loc)
}

func (g *ResGen) fillPrimitive(m protoreflect.Message, depth int) {
	md := m.Descriptor()
	g.Budget--
	f := md.Fields()
	set := func(name string, v protoreflect.Value) { m.Set(f.ByName(protoreflect.Name(name)), v) }
	switch string(md.Name()) {
	case "Boolean":
		set("value", protoreflect.ValueOfBool(g.R.Bool()))
	case "Integer":
		vals := []int32{0, 1, -1, 42, 2147483647, -2147483648}
		v := vals[g.R.Intn(len(vals))]
		if g.R.Bool() {
			v = int32(g.R.Intn(2000)) - 1000
		}
		set("value", protoreflect.ValueOfInt32(v))
	case "PositiveInt":
		vals := []uint32{1, 2, 7, 2147483647}
		set("value", protoreflect.ValueOfUint32(vals[g.R.Intn(len(vals))]))
	case "UnsignedInt":
		vals := []uint32{0, 1, 9, 2147483647}
		set("value", protoreflect.ValueOfUint32(vals[g.R.Intn(len(vals))]))
	case "Decimal":
		vals := []string{"0", "1", "1.0", "1.50", "-2.5", "0.001", "100", "12345678901234567890.123456789", "-0.5", "3.14159", "1.5e3", "2E-2", "-4.2e+1", "1e0"}
		set("value", protoreflect.ValueOfString(vals[g.R.Intn(len(vals))]))
	case "Base64Binary":
		n := g.R.Intn(6)
		b := make([]byte, n+1)
		for i := range b {
			b[i] = byte(g.R.Intn(256))
		}
		set("value", protoreflect.ValueOfBytes(b))
	case "Id":
		set("value", protoreflect.ValueOfString(g.idString()))
	case "ReferenceId":
		set("value", protoreflect.ValueOfString(g.idString()))
	case "Uri", "Url", "Canonical":
		u := []string{"http://example.org/fhir/x", "urn:uuid:53fefa32-fcbb-4ff8-8a92-55ee120877b7", "https://h.example/a/b?c=d", "http://loinc.org", "urn:oid:1.2.3.4.5"}[g.R.Intn(5)]
		if md.Name() == "Canonical" && g.R.Intn(2) == 0 {
			u = "http://example.org/fhir/ValueSet/v|1.0.0"
		}
		set("value", protoreflect.ValueOfString(u))
	case "Oid":
		set("value", protoreflect.ValueOfString("urn:oid:1.2.840.113619.2."+fmt.Sprint(g.R.Intn(100))))
	case "Uuid":
		set("value", protoreflect.ValueOfString(fmt.Sprintf("urn:uuid:%08x-0000-4000-8000-%012x", g.R.Intn(1<<31), g.R.Intn(1<<31))))
	case "Code":
		set("value", protoreflect.ValueOfString([]string{"final", "a-b", "1234-5", "en-US", "mg"}[g.R.Intn(5)]))
	case "String", "Markdown":
		set("value", protoreflect.ValueOfString(g.text()))
	case "Xhtml":
		set("value", protoreflect.ValueOfString("<div xmlns=\"http://www.w3.org/1999/xhtml\">"+words[g.R.Intn(5)]+"</div>"))
	case "Date":
		tz := tzs[g.R.Intn(len(tzs))]
		pe := f.ByName("precision").Enum()
		pn := []string{"YEAR", "MONTH", "DAY"}[g.R.Intn(3)]
		parts := map[string]int{"YEAR": 1, "MONTH": 2, "DAY": 3}[pn]
		t := g.civil(parts, 0, tzLoc(tz))
		set("value_us", protoreflect.ValueOfInt64(t.UnixMicro()))
		set("timezone", protoreflect.ValueOfString(tz))
		set("precision", protoreflect.ValueOfEnum(pe.Values().ByName(protoreflect.Name(pn)).Number()))
	case "DateTime":
		tz := tzs[g.R.Intn(len(tzs))]
		pe := f.ByName("precision").Enum()
		pn := []string{"YEAR", "MONTH", "DAY", "SECOND", "MILLISECOND", "MICROSECOND"}[g.R.Intn(6)]
		parts := map[string]int{"YEAR": 1, "MONTH": 2, "DAY": 3, "SECOND": 6, "MILLISECOND": 6, "MICROSECOND": 6}[pn]
		micros := 0
		if pn == "MILLISECOND" {
			micros = g.R.Intn(1000) * 1000
		} else if pn == "MICROSECOND" {
			micros = g.R.Intn(1000000)
		}
		t := g.civil(parts, micros, tzLoc(tz))
		set("value_us", protoreflect.ValueOfInt64(t.UnixMicro()))
		set("timezone", protoreflect.ValueOfString(tz))
		set("precision", protoreflect.ValueOfEnum(pe.Values().ByName(protoreflect.Name(pn)).Number()))
	case "Instant":
		tz := tzs[g.R.Intn(len(tzs))]
		pe := f.ByName("precision").Enum()
		pn := []string{"SECOND", "MILLISECOND", "MICROSECOND"}[g.R.Intn(3)]
		micros := 0
		if pn == "MILLISECOND" {
			micros = g.R.Intn(1000) * 1000
		} else if pn == "MICROSECOND" {
			micros = g.R.Intn(1000000)
		}
		t := g.civil(6, micros, tzLoc(tz))
		set("value_us", protoreflect.ValueOfInt64(t.UnixMicro()))
		set("timezone", protoreflect.ValueOfString(tz))
		set("precision", protoreflect.ValueOfEnum(pe.Values().ByName(protoreflect.Name(pn)).Number()))
	case "Time":
		pe := f.ByName("precision").Enum()
		pn := []string{"SECOND", "MILLISECOND", "MICROSECOND"}[g.R.Intn(3)]
		us := int64(g.R.Intn(86400)) * 1000000
		if pn == "MILLISECOND" {
			us += int64(g.R.Intn(1000)) * 1000
		} else if pn == "MICROSECOND" {
			us += int64(g.R.Intn(1000000))
		}
		set("value_us", protoreflect.ValueOfInt64(us))
		set("precision", protoreflect.ValueOfEnum(pe.Values().ByName(protoreflect.Name(pn)).Number()))
	default:
		// value-set bound code wrapper: enum or string valued
		vf := f.ByName("value")
		if vf == nil {
			return
		}
		switch vf.Kind() {
		case protoreflect.EnumKind:
			vals := vf.Enum().Values()
			if vals.Len() > 1 {
				set("value", protoreflect.ValueOfEnum(vals.Get(1+g.R.Intn(vals.Len()-1)).Number()))
			}
		case protoreflect.StringKind:
			set("value", protoreflect.ValueOfString([]string{"en", "text/plain", "application/json", "USD", "kg"}[g.R.Intn(5)]))
		}
	}
	// primitive id / extension, sparse
	if idf := f.ByName("id"); idf != nil && idf.Message() != nil && g.R.Intn(100) < 6 {
		v := newMessage(idf.Message())
		v.Set(idf.Message().Fields().ByName("value"), protoreflect.ValueOfString(g.idString()))
		m.Set(idf, protoreflect.ValueOfMessage(v))
	}
	if ef := f.ByName("extension"); ef != nil && ef.IsList() && depth < g.MaxDepth && g.R.Intn(100) < 6 && string(md.Name()) != "Xhtml" {
		e := g.extension(depth + 1)
		if e != nil {
			m.Mutable(ef).List().Append(protoreflect.ValueOfMessage(e))
		}
	}
}

var extURLs = []string{"http://example.org/ext/a", "http://example.org/ext/b", "http://hl7.org/fhir/StructureDefinition/patient-birthPlace", "http://example.org/ext/A", "http://Example.org/ext/a", "http://example.org/ext/a/", "http://example.org/ext/a"}

func (g *ResGen) extension(depth int) protoreflect.Message {
	e := &dtpb.Extension{Url: &dtpb.Uri{Value: extURLs[g.R.Intn(len(extURLs))]}}
	g.Budget--
	m := e.ProtoReflect()
	if depth < g.MaxDepth && g.R.Intn(8) == 0 {
		// complex extension: nested extensions, no value
		sub := g.extension(depth + 1)
		if sub != nil {
			e.Extension = append(e.Extension, sub.Interface().(*dtpb.Extension))
			return m
		}
	}
	vf := m.Descriptor().Fields().ByName("value")
	v := g.value(vf, vf.Message(), depth)
	if v == nil {
		e.Value = &dtpb.Extension_ValueX{Choice: &dtpb.Extension_ValueX_StringValue{StringValue: &dtpb.String{Value: g.text()}}}
		return m
	}
	m.Set(vf, protoreflect.ValueOfMessage(v))
	return m
}

// reference builds a Reference: typed (xxx_id, optional history), untyped uri, fragment or identifier-only.
func (g *ResGen) reference(fd protoreflect.FieldDescriptor, depth int) protoreflect.Message {
	r := &dtpb.Reference{}
	g.Budget--
	m := r.ProtoReflect()
	od := m.Descriptor().Oneofs().ByName("reference")
	valid := ValidReferenceTypes(fd)
	typed := func() bool {
		var cands []protoreflect.FieldDescriptor
		for i := 0; i < od.Fields().Len(); i++ {
			f := od.Fields().Get(i)
			n := string(f.Name())
			if !strings.HasSuffix(n, "_id") {
				continue
			}
			cands = append(cands, f)
		}
		if len(cands) == 0 {
			return false
		}
		var pick protoreflect.FieldDescriptor
		if len(valid) > 0 && !(len(valid) == 1 && valid[0] == "Resource") && g.R.Intn(5) != 0 {
			want := valid[g.R.Intn(len(valid))]
			for _, c := range cands {
				if snakeToCamel(strings.TrimSuffix(string(c.Name()), "_id")) == want {
					pick = c
				}
			}
		}
		if pick == nil {
			pick = cands[g.R.Intn(len(cands))]
		}
		rid := &dtpb.ReferenceId{Value: g.idString()}
		if g.R.Intn(4) == 0 {
			rid.History = &dtpb.Id{Value: g.idString()}
		}
		m.Set(pick, protoreflect.ValueOfMessage(rid.ProtoReflect()))
		return true
	}
	switch g.R.Intn(10) {
	case 0, 1, 2, 3, 4:
		typed()
	case 5:
		r.Reference = &dtpb.Reference_Uri{Uri: &dtpb.String{Value: "http://other.example/fhir/Patient/" + g.idString()}}
	case 6:
		r.Reference = &dtpb.Reference_Uri{Uri: &dtpb.String{Value: "urn:uuid:53fefa32-fcbb-4ff8-8a92-55ee120877b7"}}
	case 7:
		r.Reference = &dtpb.Reference_Fragment{Fragment: &dtpb.String{Value: g.idString()}}
	case 8:
		r.Reference = &dtpb.Reference_Uri{Uri: &dtpb.String{Value: "Weird/" + g.idString() + "/extra"}}
	case 9:
		r.Display = &dtpb.String{Value: g.text()}
		if depth < g.MaxDepth {
			r.Identifier = &dtpb.Identifier{Value: &dtpb.String{Value: g.idString()}, System: &dtpb.Uri{Value: "http://sys.example"}}
		}
	}
	if g.R.Intn(5) == 0 {
		r.Display = &dtpb.String{Value: g.text()}
	}
	return m
}

func snakeToCamel(s string) string {
	parts := strings.Split(s, "_")
	for i, p := range parts {
		if p != "" {
			parts[i] = strings.ToUpper(p[:1]) + p[1:]
		}
	}
	return strings.Join(parts, "")
}

// Value generates a populated element suitable for the given field (exported for the patch workloads).
func (g *ResGen) Value(fd protoreflect.FieldDescriptor, depth int) protoreflect.Message {
	return g.value(fd, fd.Message(), depth)
}

// ValueOf generates a populated element of the given message type.
func (g *ResGen) ValueOf(md protoreflect.MessageDescriptor, depth int) protoreflect.Message {
	return g.value(nil, md, depth)
}

// NewMessage creates an empty message of the given type.
func NewMessage(md protoreflect.MessageDescriptor) protoreflect.Message { return newMessage(md) }
