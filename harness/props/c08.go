package props

import (
	"encoding/json"
	"fmt"
	"math"
	"math/big"
	"strings"

	dtpb "github.com/google/fhir/go/proto/google/fhir/proto/r4/core/datatypes_go_proto"
	"github.com/shopspring/decimal"
	"github.com/verily-src/fhirpath-go/fhirpath"
	"github.com/verily-src/fhirpath-go/fhirpath/evalopts"
	"github.com/verily-src/fhirpath-go/fhirpath/system"
	"github.com/verily-src/fhirpath-go/fhirpath/verifharness/core"
	"github.com/verily-src/fhirpath-go/fhirpath/verifharness/fx"
	"github.com/verily-src/fhirpath-go/fhirpath/verifharness/model"
)

// C08 — Integer/Decimal arithmetic is exact; overflow and division by zero give empty.

func init() {
	core.Register(&core.Property{
		ID:   "C08",
		Rule: "all ordered pairs from the Integer boundary set {0,±1,±2,±46340,±46341,±65536,MaxInt32-1,MaxInt32,MinInt32+1,MinInt32} plus seeded random int32, and decimals with 0..30 fraction digits / up to 40 significant digits / x.5 ties, x {+,-,*,/,div,mod}; every value x {unary -, abs, round, round(p), floor, ceiling, truncate}; operands carried as literals, %env System values and FHIR integer/positiveInt/unsignedInt/decimal elements; results compared with math/big. integer power for 18 bases x 20 exponents against math/big; distinct_nontrivial = distinct (operator, left class, right class, carrier pair, outcome class) where the exact result is not 0 or an operand itself",
		Assumptions: []string{"math/big is the arithmetic reference; shopspring/decimal is used only to construct System.Decimal inputs",
			"negative exact ties of round() accept either neighbour ('traditional round' is only defined for positives)",
			"sqrt/exp/ln/log/power are transcendental: only exactly representable cases are value-checked"},
		Run:    runC08,
		Checks: map[string]func(*core.Env, []json.RawMessage){"bin": replayC08Bin, "un": replayC08Un},
		Threshold: func(m *core.Merged) []string {
			var r []string
			for _, k := range []string{"op+", "op-", "op*", "op/", "opdiv", "opmod", "overflow-expected", "zero-divisor", "neg", "abs", "round", "floor", "ceiling", "truncate", "carrier:lit", "carrier:sys", "carrier:fhir", "alternating-operand-types", "mixed-items-one-node"} {
				if m.Cover[k] == 0 {
					r = append(r, "never observed: "+k)
				}
			}
			return r
		},
	})
}

type numVal struct {
	Text  string // canonical text, e.g. "-12" or "3.140"
	IsInt bool
}

func (v numVal) rat() *big.Rat { r, _ := model.ParseNum(v.Text); return r }

// carrier kinds: lit, sys, fhir
func carry(v numVal, kind, name string) (src string, opt fhirpath.EvaluateOption, ok bool) {
	neg := strings.HasPrefix(v.Text, "-")
	switch kind {
	case "lit":
		if v.IsInt {
			if v.Text == "-2147483648" {
				return "(-2147483647 - 1)", nil, true
			}
			if neg {
				return "(" + v.Text + ")", nil, true
			}
			return v.Text, nil, true
		}
		if neg {
			return "(" + v.Text + ")", nil, true
		}
		return v.Text, nil, true
	case "sys":
		if v.IsInt {
			n, _ := new(big.Int).SetString(v.Text, 10)
			return "%" + name, evalopts.EnvVariable(name, system.Integer(int32(n.Int64()))), true
		}
		d, err := decimal.NewFromString(v.Text)
		if err != nil {
			return "", nil, false
		}
		return "%" + name, evalopts.EnvVariable(name, system.Decimal(d)), true
	case "fhir":
		if v.IsInt {
			n, _ := new(big.Int).SetString(v.Text, 10)
			i := n.Int64()
			switch {
			case i > 0 && i%3 == 0:
				return "%" + name, evalopts.EnvVariable(name, &dtpb.PositiveInt{Value: uint32(i)}), true
			case i >= 0 && i%3 == 1:
				return "%" + name, evalopts.EnvVariable(name, &dtpb.UnsignedInt{Value: uint32(i)}), true
			}
			return "%" + name, evalopts.EnvVariable(name, &dtpb.Integer{Value: int32(i)}), true
		}
		return "%" + name, evalopts.EnvVariable(name, &dtpb.Decimal{Value: v.Text}), true
	}
	return "", nil, false
}

func c08Values(env *core.Env) []numVal {
	ints := []int64{0, 1, -1, 2, -2, 46340, -46340, 46341, -46341, 65536, -65536, math.MaxInt32 - 1, math.MaxInt32, math.MinInt32 + 1, math.MinInt32, 3, 7, 10, -10}
	rng := env.Rng("values")
	for i := 0; i < env.Size(8, 160); i++ {
		ints = append(ints, int64(rng.Int32()))
	}
	for i := 0; i < env.Size(4, 40); i++ {
		ints = append(ints, int64(rng.Intn(2001)-1000))
	}
	var out []numVal
	for _, i := range ints {
		out = append(out, numVal{fmt.Sprint(i), true})
	}
	decs := []string{"0.0", "0.00", "1.0", "1.00", "-1.0", "0.5", "1.5", "2.5", "-0.5", "-1.5", "-2.5", "3.14159", "0.1", "0.2", "0.3", "100.0", "2147483647.5", "2147483648.0", "-2147483648.5", "-2147483649.0",
		"99999999999.9", "-99999999999.9", "1000000000000000000000000000000.0", "0.000000000000000000000000000001", "12345678901234567890.12345678901234567890", "0.99999999999999999999", "-0.99999999999999999999",
		"1.0000000000000000000000000001", "7.0", "0.5000000000000000000000000000", "2147483647.0", "-2147483648.0", "0.49999999999999999999", "1.005", "2.675", "123456789.987654321", "9007199254740993.0", "9999999.123456789", "0.1234567890123456", "1234567.12345678", "900719925474099.3", "-9007199254740993.5"}
	for i := 0; i < env.Size(10, 200); i++ {
		// random decimal: up to 20 integer digits, 0..30 fraction digits
		id := 1 + rng.Intn(12)
		fd := rng.Intn(31)
		var b strings.Builder
		if rng.Intn(3) == 0 {
			b.WriteByte('-')
		}
		for k := 0; k < id; k++ {
			d := rng.Intn(10)
			if k == 0 && d == 0 && id > 1 {
				d = 1
			}
			b.WriteByte(byte('0' + d))
		}
		b.WriteByte('.')
		if fd == 0 {
			b.WriteByte('0')
		}
		for k := 0; k < fd; k++ {
			b.WriteByte(byte('0' + rng.Intn(10)))
		}
		decs = append(decs, b.String())
	}
	for _, d := range decs {
		out = append(out, numVal{d, false})
	}
	return out
}

func classNum(v numVal) string {
	r := v.rat()
	abs := new(big.Rat).Abs(r)
	t := "dec"
	if v.IsInt {
		t = "int"
	}
	switch {
	case r.Sign() == 0:
		return t + ":zero"
	case abs.Cmp(big.NewRat(1, 1)) == 0:
		return t + ":one"
	case abs.Cmp(big.NewRat(1, 1)) < 0:
		return t + ":frac"
	case abs.Cmp(big.NewRat(100000, 1)) < 0:
		return t + ":small"
	case abs.Cmp(big.NewRat(2147483647, 1)) < 0:
		return t + ":large"
	case abs.Cmp(big.NewRat(2147483649, 1)) <= 0:
		return t + ":int32-boundary"
	}
	return t + ":beyond-int32"
}

var carriers = []string{"lit", "sys", "fhir"}

func c08Bin(env *core.Env, op string, a, b numVal, ca, cb string) {
	defer env.In("bin", op, a, b, ca, cb)()
	sa, oa, ok1 := carry(a, ca, "a")
	sb, ob, ok2 := carry(b, cb, "b")
	if !ok1 || !ok2 {
		env.Skip("carrier-not-applicable")
		return
	}
	var eo []fhirpath.EvaluateOption
	if oa != nil {
		eo = append(eo, oa)
	}
	if ob != nil {
		eo = append(eo, ob)
	}
	src := sa + " " + op + " " + sb
	r := fx.Eval(env, src, nil, nil, eo)
	env.Case()
	env.Cover("op" + op)
	env.Cover("carrier:" + ca)
	ra, rb := a.rat(), b.rat()
	bothInt := a.IsInt && b.IsInt
	key := fmt.Sprintf("C08/%s/%s,%s", op, classNum(a), classNum(b))
	desc := fmt.Sprintf("`%s` (a=%s via %s, b=%s via %s)", src, a.Text, ca, b.Text, cb)
	if r.IsPanic() {
		env.Violatef(fx.PanicSig("C08", r), "%s => %s", desc, r.Short())
		return
	}
	wantEmpty := func(why string) {
		env.Cover(why)
		if !r.Empty() {
			kind := "value-instead-of-empty"
			if r.IsError() {
				kind = "error-instead-of-empty"
			}
			env.Violatef(key+"/"+why+"/"+kind, "%s: %s must yield empty, observed %s", desc, why, trunc(r.Short(), 160))
		}
	}
	var exact *big.Rat
	wantInt := false
	switch op {
	case "+":
		exact = new(big.Rat).Add(ra, rb)
		wantInt = bothInt
	case "-":
		exact = new(big.Rat).Sub(ra, rb)
		wantInt = bothInt
	case "*":
		exact = new(big.Rat).Mul(ra, rb)
		wantInt = bothInt
	case "/":
		if rb.Sign() == 0 {
			wantEmpty("zero-divisor")
			return
		}
		exact = new(big.Rat).Quo(ra, rb)
	case "div":
		if rb.Sign() == 0 {
			wantEmpty("zero-divisor")
			return
		}
		exact = new(big.Rat).SetInt(model.TruncRat(new(big.Rat).Quo(ra, rb)))
		wantInt = true
	case "mod":
		if rb.Sign() == 0 {
			wantEmpty("zero-divisor")
			return
		}
		q := new(big.Rat).SetInt(model.TruncRat(new(big.Rat).Quo(ra, rb)))
		exact = new(big.Rat).Sub(ra, new(big.Rat).Mul(q, rb))
		wantInt = bothInt
	}
	if wantInt && !model.FitsInt32(exact) {
		wantEmpty("overflow-expected")
		return
	}
	it, ok := r.Single()
	if !ok || (it.K != "Integer" && it.K != "Decimal") {
		env.Violatef(key+"/no-number", "%s: expected %s, observed %s", desc, exact.RatString(), trunc(r.Short(), 160))
		return
	}
	got, okp := model.ParseNum(it.T)
	if !okp {
		env.Violatef(key+"/unparsable", "%s: result %s is not a number", desc, it)
		return
	}
	if wantInt && it.K != "Integer" {
		env.Violatef(key+"/wrong-kind", "%s: expected an Integer, observed %s", desc, it)
		return
	}
	if op == "/" {
		diff := new(big.Rat).Sub(got, exact)
		diff.Abs(diff)
		tol := new(big.Rat).SetFrac(big.NewInt(1), new(big.Int).Exp(big.NewInt(10), big.NewInt(16), nil))
		if diff.Cmp(tol) > 0 {
			env.Violatef(key+"/quotient-imprecise", "%s: quotient %s differs from exact %s by more than 1e-16", desc, it.T, exact.FloatString(20))
		}
	} else if got.Cmp(exact) != 0 {
		env.Violatef(key+"/wrong-value", "%s: expected %s, observed %s", desc, ratText(exact), it)
	}
	if exact.Sign() != 0 && exact.Cmp(ra) != 0 && exact.Cmp(rb) != 0 {
		env.Distinct(fmt.Sprintf("%s|%s|%s|%s|%s|%s", op, classNum(a), classNum(b), ca, cb, it.K))
	}
	env.SampleSpread(src+a.Text+b.Text, map[string]string{"program": src, "a": a.Text, "b": b.Text, "exact": ratText(exact), "observed": it.String()})
}

func ratText(r *big.Rat) string {
	if r.IsInt() {
		return r.Num().String()
	}
	return r.FloatString(24) + "…"
}

func replayC08Bin(env *core.Env, x []json.RawMessage) {
	var op, ca, cb string
	var a, b numVal
	json.Unmarshal(x[0], &op)
	json.Unmarshal(x[1], &a)
	json.Unmarshal(x[2], &b)
	json.Unmarshal(x[3], &ca)
	json.Unmarshal(x[4], &cb)
	c08Bin(env, op, a, b, ca, cb)
}

func replayC08Un(env *core.Env, x []json.RawMessage) {
	var fn, ca string
	var a numVal
	var p int
	json.Unmarshal(x[0], &fn)
	json.Unmarshal(x[1], &a)
	json.Unmarshal(x[2], &ca)
	json.Unmarshal(x[3], &p)
	c08Un(env, fn, a, ca, p)
}

// c08Un: fn ∈ neg, abs, round, roundp, floor, ceiling, truncate
func c08Un(env *core.Env, fn string, a numVal, ca string, p int) {
	defer env.In("un", fn, a, ca, p)()
	sa, oa, ok := carry(a, ca, "a")
	if !ok {
		return
	}
	var eo []fhirpath.EvaluateOption
	if oa != nil {
		eo = append(eo, oa)
	}
	var src string
	switch fn {
	case "neg":
		src = "-" + sa
		if strings.HasPrefix(sa, "(") || strings.HasPrefix(sa, "%") {
			src = "-" + sa
		} else {
			src = "-(" + sa + ")"
		}
	case "roundp":
		src = fmt.Sprintf("(%s).round(%d)", sa, p)
	default:
		src = fmt.Sprintf("(%s).%s()", sa, fn)
	}
	r := fx.Eval(env, src, nil, nil, eo)
	env.Case()
	cov := fn
	if fn == "roundp" {
		cov = "round"
	}
	env.Cover(cov)
	env.Cover("carrier:" + ca)
	ra := a.rat()
	key := fmt.Sprintf("C08/%s/%s", fn, classNum(a))
	desc := fmt.Sprintf("`%s` (a=%s via %s)", src, a.Text, ca)
	if r.IsPanic() {
		env.Violatef(fx.PanicSig("C08", r), "%s => %s", desc, r.Short())
		return
	}
	var exact *big.Rat
	alt := (*big.Rat)(nil) // second acceptable value (negative ties)
	intResult := false
	switch fn {
	case "neg":
		exact = new(big.Rat).Neg(ra)
		intResult = a.IsInt
	case "abs":
		exact = new(big.Rat).Abs(ra)
		intResult = a.IsInt
	case "floor":
		exact = new(big.Rat).SetInt(model.FloorRat(ra))
		intResult = true
	case "ceiling":
		exact = new(big.Rat).SetInt(model.CeilRat(ra))
		intResult = true
	case "truncate":
		exact = new(big.Rat).SetInt(model.TruncRat(ra))
		intResult = true
	case "round", "roundp":
		var tie bool
		exact, tie = model.RoundHalfAway(ra, p)
		if tie && ra.Sign() < 0 {
			// the other neighbour (toward zero)
			step := new(big.Rat).SetFrac(big.NewInt(1), new(big.Int).Exp(big.NewInt(10), big.NewInt(int64(p)), nil))
			alt = new(big.Rat).Add(exact, step)
		}
	}
	if intResult && !model.FitsInt32(exact) {
		env.Cover("overflow-expected")
		// neg/abs: empty required; floor/ceiling/truncate: empty or error
		if fn == "neg" || fn == "abs" {
			if !r.Empty() {
				kind := "value-instead-of-empty"
				if r.IsError() {
					kind = "error-instead-of-empty"
				}
				env.Violatef(key+"/overflow/"+kind, "%s: result %s does not fit an Integer and must be empty, observed %s", desc, ratText(exact), trunc(r.Short(), 160))
			}
			return
		}
		if r.IsValue() && len(r.Items) > 0 {
			env.Violatef(key+"/overflow/wrong-number", "%s: result %s does not fit an Integer; expected empty or error, observed %s", desc, ratText(exact), trunc(r.Short(), 160))
		}
		return
	}
	it, ok := r.Single()
	if !ok || (it.K != "Integer" && it.K != "Decimal") {
		env.Violatef(key+"/no-number", "%s: expected %s, observed %s", desc, ratText(exact), trunc(r.Short(), 160))
		return
	}
	got, okp := model.ParseNum(it.T)
	if !okp || (got.Cmp(exact) != 0 && (alt == nil || got.Cmp(alt) != 0)) {
		env.Violatef(key+"/wrong-value", "%s: expected %s, observed %s", desc, ratText(exact), it)
		return
	}
	if intResult && a.IsInt && it.K != "Integer" {
		env.Violatef(key+"/wrong-kind", "%s: expected an Integer, observed %s", desc, it)
	}
	if exact.Cmp(ra) != 0 {
		env.Distinct(fmt.Sprintf("%s|%s|%s|%s", fn, classNum(a), ca, it.K))
	}
}

func runC08(env *core.Env) {
	vals := c08Values(env)
	rng := env.Rng("pairs")
	n := 0
	ops := []string{"+", "-", "*", "/", "div", "mod"}
	for _, a := range vals {
		for _, b := range vals {
			for _, op := range ops {
				ca, cb := carriers[rng.Intn(3)], carriers[rng.Intn(3)]
				n++
				if !env.Mine(n) {
					continue
				}
				c08Bin(env, op, a, b, ca, cb)
			}
		}
	}
	for _, a := range vals {
		for _, c := range carriers {
			for _, fn := range []string{"neg", "abs", "round", "floor", "ceiling", "truncate"} {
				n++
				if env.Mine(n) {
					c08Un(env, fn, a, c, 0)
				}
			}
			for p := 0; p <= 4; p++ {
				n++
				if env.Mine(n) {
					c08Un(env, "roundp", a, c, p)
				}
			}
		}
	}
	// decimals that are whole multiples of ten however they are held: elements written in exponent form, and results of
	// functions that go through floating point
	if env.Shard == 4%env.NShards {
		type ec struct{ text, fn, want string }
		var ecs []ec
		for _, t := range []struct{ text string; fl, ce, tr int64 }{{"1E2", 100, 100, 100}, {"2.5E3", 2500, 2500, 2500}, {"-7e+1", -70, -70, -70}, {"1.25E1", 12, 13, 12}, {"-1.25E1", -13, -12, -12}, {"3E0", 3, 3, 3}, {"1.5E0", 1, 2, 1}, {"12E-1", 1, 2, 1}, {"1E9", 1000000000, 1000000000, 1000000000}, {"5E1", 50, 50, 50}, {"-5E-1", -1, 0, 0}, {"0E3", 0, 0, 0}} {
			ecs = append(ecs, ec{t.text, "floor", fmt.Sprint(t.fl)}, ec{t.text, "ceiling", fmt.Sprint(t.ce)}, ec{t.text, "truncate", fmt.Sprint(t.tr)}, ec{t.text, "round", ""})
		}
		for _, c := range ecs {
			for _, carrier := range []string{"%x", "%q.value", "(%x + 0)", "(%x * 1)", "%x.abs()"} {
				if strings.HasPrefix(c.text, "-") && carrier == "%x.abs()" {
					continue
				}
				src := carrier + "." + c.fn + "()"
				eo := []fhirpath.EvaluateOption{evalopts.EnvVariable("x", &dtpb.Decimal{Value: c.text}), evalopts.EnvVariable("q", &dtpb.Quantity{Value: &dtpb.Decimal{Value: c.text}, Code: &dtpb.Code{Value: "mg"}})}
				r := fx.Eval(env, src, nil, nil, eo)
				env.Cover("exponent-form-decimal")
				if r.IsPanic() {
					env.Violatef(fx.PanicSig("C08", r), "`%s` with the decimal element %q => %s", src, c.text, r.Short())
					continue
				}
				it, ok := r.Single()
				if !ok || c.want == "" {
					continue // refusing the element is not decided here
				}
				if it.K != "Integer" || it.T != c.want {
					env.Violatef("C08/exponent-form/"+c.fn, "`%s` with the decimal element %q: expected Integer(%s), observed %s", src, c.text, c.want, trunc(r.Short(), 80))
				}
			}
		}
		for _, c := range [][2]string{{"100.sqrt().floor()", "10"}, {"100.sqrt().ceiling()", "10"}, {"100.sqrt().truncate()", "10"}, {"10000.sqrt().floor()", "100"}, {"1000000.sqrt().truncate()", "1000"}, {"10.0.power(3).truncate()", "1000"}, {"10.0.power(2).floor()", "100"}, {"10.0.power(2).ceiling()", "100"},
			{"400.sqrt().floor()", "20"}, {"2500.0.sqrt().ceiling()", "50"}, {"100.sqrt().round()", ""}, {"1000.log(10).floor()", ""}, {"0.exp().floor()", "1"}, {"1.ln().ceiling()", "0"}, {"16.sqrt().floor()", "4"}, {"2.0.power(10).truncate()", "1024"}, {"10.power(3).truncate()", "1000"}, {"1000000.0.sqrt().floor()", "1000"}} {
			r := fx.E(env, c[0])
			env.Cover("float-derived-decimal")
			if r.IsPanic() {
				env.Violatef(fx.PanicSig("C08", r), "`%s` => %s", c[0], r.Short())
				continue
			}
			if it, ok := r.Single(); ok && c[1] != "" && (it.K != "Integer" || it.T != c[1]) {
				env.Violatef("C08/float-derived/"+strings.SplitN(c[0], ".", 2)[0], "`%s`: expected Integer(%s), observed %s", c[0], c[1], trunc(r.Short(), 80))
			}
		}
	}
	// one literal operand, the other arriving through a variable whose type alternates between Integer and
	// Decimal from one evaluation to the next (one source text, hence - through fx.Eval - also one compiled
	// expression evaluated many times): the literal must be read afresh each time
	lits := []numVal{{"1", true}, {"2", true}, {"7", true}, {"2147483647", true}, {"0.5", false}, {"2.0", false}}
	var alt []numVal
	for i, v := range vals {
		if i%7 == 0 || v.Text == "2147483647" || v.Text == "-2147483648" || v.Text == "41" || v.Text == "1.5" {
			alt = append(alt, v)
		}
	}
	alt = append(alt, numVal{"1.5", false}, numVal{"41", true}, numVal{"2147483647", true}, numVal{"0.25", false}, numVal{"-2147483648", true}, numVal{"3", true})
	for _, op := range ops {
		for _, l := range lits {
			n++
			if !env.Mine(n) {
				continue
			}
			for k, a := range alt {
				c08Bin(env, op, a, l, []string{"sys", "fhir"}[k%2], "lit")
				c08Bin(env, op, l, a, "lit", []string{"fhir", "sys"}[k%2])
			}
			env.Cover("alternating-operand-types")
		}
	}
	// the same operator node meeting Decimal and Integer items inside one evaluation
	for _, c := range []struct {
		src  string
		coll system.Collection
		want []string
	}{
		{"%c.select($this + 1)", system.Collection{system.MustParseDecimal("1.5"), system.Integer(41), system.MustParseDecimal("0.5"), system.Integer(2147483647)}, []string{"Decimal(2.5)", "Integer(42)", "Decimal(1.5)"}},
		{"%c.select($this * 2)", system.Collection{system.MustParseDecimal("1.5"), system.Integer(21), system.Integer(1073741824)}, []string{"Decimal(3)", "Integer(42)"}},
		{"%c.select(1 + $this)", system.Collection{&dtpb.Decimal{Value: "1.5"}, &dtpb.Integer{Value: 41}}, []string{"Decimal(2.5)", "Integer(42)"}},
		{"%c.select($this - 1)", system.Collection{system.MustParseDecimal("0.5"), system.Integer(-2147483648), system.Integer(43)}, []string{"Decimal(-0.5)", "Integer(42)"}},
		{"%c.where($this + 1 = 42)", system.Collection{system.MustParseDecimal("41.0"), system.Integer(41), system.Integer(2147483647)}, []string{"Decimal(41)", "Integer(41)"}},
	} {
		n++
		if !env.Mine(n) {
			continue
		}
		func() {
			defer env.In("un", "probe:"+c.src, numVal{"0", true}, "lit", 0)()
			env.Case()
			env.Cover("mixed-items-one-node")
			r := fx.Eval(env, c.src, nil, nil, []fhirpath.EvaluateOption{evalopts.EnvVariable("c", c.coll)})
			if r.IsPanic() {
				env.Violatef(fx.PanicSig("C08", r), "`%s` => %s", c.src, r.Short())
				return
			}
			var got []string
			for _, it := range r.Items {
				t := it.T
				if it.K == "Decimal" {
					if q, ok := model.ParseNum(t); ok {
						t = strings.TrimSuffix(strings.TrimRight(q.FloatString(10), "0"), ".")
					}
				}
				got = append(got, it.K+"("+t+")")
			}
			if !r.IsValue() || strings.Join(got, ",") != strings.Join(c.want, ",") {
				env.Violatef("C08/mixed-items/"+c.src, "`%s` over %s: expected [%s] (overflowing items dropped), observed %s", c.src, fx.Render(c.coll).T, strings.Join(c.want, ", "), trunc(r.Short(), 200))
			}
		}()
	}
	// Integer ^ Integer against math/big: the exact power where it fits an Integer, otherwise empty or an error
	for _, b := range []int64{2, 3, 4, 6, 10, 16, -2, -3, 256, 65536, 46340, 46341, 1073741824, 2147483647, -2147483648, 1, -1, 0} {
		for _, e := range []int64{0, 1, 2, 3, 4, 8, 15, 16, 30, 31, 32, 33, 62, 63, 64, 65, 127, 128, 1024, 65536} {
			n++
			if !env.Mine(n) {
				continue
			}
			func() {
				bs := fmt.Sprint(b)
				if b < 0 {
					bs = "(" + bs + ")"
				}
				if b == -2147483648 {
					bs = "(-2147483647 - 1)"
				}
				src := fmt.Sprintf("%s.power(%d)", bs, e)
				defer env.In("un", "probe:"+src, numVal{"0", true}, "lit", 0)()
				env.Case()
				env.Cover("integer-power")
				r := fx.E(env, src)
				if r.IsPanic() {
					env.Violatef(fx.PanicSig("C08", r), "`%s` => %s", src, r.Short())
					return
				}
				exact := new(big.Int).Exp(big.NewInt(b), big.NewInt(e), nil)
				fits := exact.IsInt64() && exact.Int64() >= -2147483648 && exact.Int64() <= 2147483647
				if !fits {
					if r.IsValue() && len(r.Items) > 0 {
						env.Violatef("C08/power/overflow-expected/value-instead-of-empty", "`%s`: the exact power %s… does not fit an Integer, observed %s", src, trunc(exact.String(), 30), trunc(r.Short(), 80))
					}
					return
				}
				if r.IsError() || r.Empty() {
					if b == 0 && e == 0 {
						return
					}
					env.Violatef("C08/power/no-number", "`%s`: expected %s, observed %s", src, exact, trunc(r.Short(), 80))
					return
				}
				it, ok := r.Single()
				got, okp := model.ParseNum(it.T)
				if !ok || !okp || got.Cmp(new(big.Rat).SetInt(exact)) != 0 {
					env.Violatef("C08/power/wrong-value", "`%s`: expected %s, observed %s", src, exact, trunc(r.Short(), 80))
				}
			}()
		}
	}
	// every numeric function on a FHIR element gives the number it gives on the System value the element denotes
	{
		type carrier struct {
			name string
			elem func(v string) (any, bool)
		}
		atoi := func(v string) (int64, bool) {
			r, ok := new(big.Int).SetString(v, 10)
			if !ok || !r.IsInt64() {
				return 0, false
			}
			return r.Int64(), true
		}
		carriers := []carrier{
			{"integer", func(v string) (any, bool) { i, ok := atoi(v); return &dtpb.Integer{Value: int32(i)}, ok && i >= -2147483648 && i <= 2147483647 }},
			{"positiveInt", func(v string) (any, bool) { i, ok := atoi(v); return &dtpb.PositiveInt{Value: uint32(i)}, ok && i > 0 && i <= 2147483647 }},
			{"unsignedInt", func(v string) (any, bool) { i, ok := atoi(v); return &dtpb.UnsignedInt{Value: uint32(i)}, ok && i >= 0 && i <= 2147483647 }},
			{"decimal", func(v string) (any, bool) { return &dtpb.Decimal{Value: v}, true }},
			// a System value handed over as a one-item collection (the caller's slice: reading it must not change it)
			{"integer-collection", func(v string) (any, bool) { i, ok := atoi(v); return system.Collection{system.Integer(int32(i))}, ok && i >= -2147483648 && i <= 2147483647 }},
			{"decimal-collection", func(v string) (any, bool) { d, err := system.ParseDecimal(v); return system.Collection{d}, err == nil && strings.Contains(v, ".") }},
		}
		forms := []string{"%x.abs()", "%x.ceiling()", "%x.floor()", "%x.round()", "%x.round(1)", "%x.truncate()", "%x.sqrt()", "%x.exp()", "%x.ln()", "%x.log(10)", "%x.log(2)", "%x.power(2)", "%x.power(0.5)", "2.power(%x)", "10.log(%x)", "-%x", "%x + 1", "%x * %x", "%x / 4", "%x div 3", "%x mod 3", "1 / %x", "%x + -%x", "%x - -%x", "-%x + %x", "(-%x) * (-%x)", "-%x.abs() + %x.abs()", "(-%x) = %x or (-%x) != %x"}
		for _, v := range []string{"0", "1", "2", "4", "16", "100", "7", "-4", "2147483647", "0.0", "2.25", "6.25", "0.5", "-2.5", "1.0", "16.00", "1e0", "9007199254740993", "9999999.123456789", "0.1234567890123456", "123456789012.3457", "99999999999999.99"} {
			for _, c := range carriers {
				el, ok := c.elem(v)
				if !ok || v == "1e0" {
					continue
				}
				var sys system.Any
				_, isDec := el.(*dtpb.Decimal)
				if c.name == "decimal-collection" {
					isDec = true
				}
				if isDec {
					d, err := system.ParseDecimal(v)
					if err != nil {
						continue
					}
					sys = d
				} else {
					i, _ := atoi(v)
					sys = system.Integer(int32(i))
				}
				for _, f := range forms {
					n++
					if !env.Mine(n) {
						continue
					}
					if f == "2.power(%x)" && strings.HasPrefix(v, "-") {
						continue // Integer ^ negative Integer is the recorded finding C08/exact-case/2.power(-1)
					}
					func() {
						defer env.In("un", "probe:"+c.name+"("+v+"):"+f, numVal{"0", true}, "lit", 0)()
						env.Case()
						env.Cover("function-on-element")
						ex, cr := fx.Compile(env, f)
						if ex == nil {
							env.Violatef("C08/harness-program-rejected", "`%s`: %s", f, cr.Short())
							return
						}
						re := fx.Evaluate(env, ex, nil, evalopts.EnvVariable("x", el))
						rs := fx.Evaluate(env, ex, nil, evalopts.EnvVariable("x", sys))
						if re.IsPanic() {
							env.Violatef(fx.PanicSig("C08", re), "`%s` with %%x = FHIR %s %s => %s", f, c.name, v, re.Short())
							return
						}
						same := re.Kind == rs.Kind && len(re.Items) == len(rs.Items)
						if same && re.IsValue() {
							for i := range re.Items {
								a, oka := model.ParseNum(re.Items[i].T)
								b, okb := model.ParseNum(rs.Items[i].T)
								if oka != okb || (oka && a.Cmp(b) != 0) || (!oka && re.Items[i].T != rs.Items[i].T) {
									same = false
								}
							}
						}
						// sqrt / exp / ln / log / power are outside the statement (transcendental, computed in float64): only two
						// values are compared; whether such a function accepts a FHIR decimal element at all, or takes the
						// Integer or the Decimal route for a FHIR integer, is not decided here
						if strings.Contains(f, "sqrt") || strings.Contains(f, "exp") || strings.Contains(f, "ln") || strings.Contains(f, "log") || strings.Contains(f, "power") {
							if !(re.IsValue() && rs.IsValue() && len(re.Items) > 0 && len(rs.Items) > 0) {
								env.Skip("transcendental-on-element-not-two-values")
								return
							}
						}
						if !same {
							env.Violatef("C08/function-on-element/"+c.name+"/"+strings.ReplaceAll(f, "%x", "x"), "`%s` with %%x = FHIR %s %s gives %s; with the System value %s it gives %s", f, c.name, v, trunc(re.Short(), 80), v, trunc(rs.Short(), 80))
						}
					}()
				}
			}
		}
	}
	// exactly representable transcendental cases and both-sides-rooted operands
	for _, c := range []struct{ src, want string }{
		{"4.sqrt()", "2"}, {"16.0.sqrt()", "4"}, {"2.power(10)", "1024"}, {"2.5.power(2)", "6.25"}, {"0.exp()", "1"}, {"1.ln()", "0"}, {"100.log(10)", "2"}, {"8.log(2)", "3"},
		{"0.99999999999999999999 div 1.0", "0"}, {"19.9999999999999999999 div 10.0", "1"}, {"2147483647.99999999999999999 div 1.0", "2147483647"}, {"(-0.99999999999999999999) div 1.0", "0"}, {"(-19.9999999999999999999) div 10.0", "-1"},
		{"0.99999999999999999999 mod 1.0", "0.99999999999999999999"}, {"19.9999999999999999999 mod 10.0", "9.9999999999999999999"}, {"5.9999999999999999999 div 2", "2"}, {"5.9999999999999999999 div 3", "1"}, {"0.29999999999999999999 div 0.1", "2"},
		{"2.power(31)", "EMPTY-OR-ERROR"}, {"2.power(-1)", "0.5|EMPTY-OR-ERROR"}, {"(-1).sqrt()", "EMPTY-OR-ERROR"},
	} {
		n++
		if !env.Mine(n) {
			continue
		}
		func() {
			defer env.In("un", "probe:"+c.src, numVal{"0", true}, "lit", 0)()
			r := fx.E(env, c.src)
			if r.IsPanic() {
				env.Violatef(fx.PanicSig("C08", r), "`%s` => %s", c.src, r.Short())
				return
			}
			okAny := false
			for _, w := range strings.Split(c.want, "|") {
				if w == "EMPTY-OR-ERROR" {
					if r.IsError() || r.Empty() {
						okAny = true
					}
					continue
				}
				if it, ok := r.Single(); ok {
					if g, ok2 := model.ParseNum(it.T); ok2 {
						wr, _ := model.ParseNum(w)
						if g.Cmp(wr) == 0 {
							okAny = true
						}
					}
				}
			}
			if !okAny {
				env.Violatef("C08/exact-case/"+c.src, "`%s`: expected %s, observed %s", c.src, c.want, trunc(r.Short(), 120))
			}
		}()
	}
}
