package props

import (
	"crypto/sha256"
	"encoding/binary"
	"encoding/hex"
	"encoding/json"
	"fmt"
	"reflect"
	"sort"
	"strings"
	"unsafe"

	bcrpb "github.com/google/fhir/go/proto/google/fhir/proto/r4/core/resources/bundle_and_contained_resource_go_proto"
	dtpb "github.com/google/fhir/go/proto/google/fhir/proto/r4/core/datatypes_go_proto"
	ppb "github.com/google/fhir/go/proto/google/fhir/proto/r4/core/resources/patient_go_proto"
	"github.com/verily-src/fhirpath-go/fhirpath"
	"github.com/verily-src/fhirpath-go/fhirpath/evalopts"
	"github.com/verily-src/fhirpath-go/fhirpath/system"
	"github.com/verily-src/fhirpath-go/fhirpath/verifharness/core"
	"github.com/verily-src/fhirpath-go/fhirpath/verifharness/fx"
	"github.com/verily-src/fhirpath-go/fhirpath/verifharness/gen"
	"github.com/verily-src/fhirpath-go/fhirpath/verifharness/model"
	"github.com/verily-src/fhirpath-go/internal/fhir"
	"google.golang.org/protobuf/proto"
	"google.golang.org/protobuf/reflect/protoreflect"
)

// C03 — evaluation never mutates its inputs.

func init() {
	core.Register(&core.Property{
		ID:   "C03",
		Rule: "generated programs (every node kind, every function of the table), every function of the table x 10 receivers x 80 argument lists of arity 0..3 built from aliasing collections and non-literal values, and a fixed list of aliasing-sensitive programs x generated resources of every R4 type x environment variables that alias the resource (%r the resource, %kids a collection sharing the backing array of a caller-held slice, %sub a sub-slice with spare capacity, %e an empty collection with spare capacity, sentinels in every spare region); before/after every Evaluate (successful or not): deterministic proto bytes of the resource and of every env element, slice header and whole capacity region of every env collection, reflect-based deep digest of the compiled expression; every FHIR element in a result must be one of the input's own nodes. type-operator programs over every descendant, inputs with selected-but-nil choice members compared by Go-level shape; distinct_nontrivial = distinct (program shape, resource type) evaluations that returned at least one item or an error after partial evaluation",
		Assumptions: []string{"typed-reference strings and elements under `contained` are synthesized/unpacked into fresh objects by design (compared by value)",
			"Mutable() on an empty list is invisible in proto semantics and is not flagged"},
		Run:    runC03,
		Checks: map[string]func(*core.Env, []json.RawMessage){"nilmembers": func(env *core.Env, a []json.RawMessage) { c03NilMembers(env) }, "emptywrappers": func(env *core.Env, a []json.RawMessage) { c03EmptyWrappers(env) }, "prog": replayC03},
		Threshold: func(m *core.Merged) []string {
			var r []string
			for _, k := range []string{"evaluated", "returned-elements", "errored", "aliasing-program", "generated-program", "spare-capacity-checked", "expression-digest", "table-args", "nil-choice-member", "empty-resource-wrapper"} {
				if m.Cover[k] == 0 {
					r = append(r, "never observed: "+k)
				}
			}
			return r
		},
	})
}

// deepDigest hashes any Go value structurally (pointers followed, func values by code pointer).
func deepDigest(v any) string {
	h := sha256.New()
	seen := map[uintptr]bool{}
	var walk func(rv reflect.Value, depth int)
	w64 := func(x uint64) {
		var b [8]byte
		binary.LittleEndian.PutUint64(b[:], x)
		h.Write(b[:])
	}
	walk = func(rv reflect.Value, depth int) {
		if depth > 200 {
			return
		}
		if !rv.IsValid() {
			h.Write([]byte{0})
			return
		}
		h.Write([]byte(rv.Type().String()))
		switch rv.Kind() {
		case reflect.Bool:
			if rv.Bool() {
				h.Write([]byte{1})
			} else {
				h.Write([]byte{2})
			}
		case reflect.Int, reflect.Int8, reflect.Int16, reflect.Int32, reflect.Int64:
			w64(uint64(rv.Int()))
		case reflect.Uint, reflect.Uint8, reflect.Uint16, reflect.Uint32, reflect.Uint64, reflect.Uintptr:
			w64(rv.Uint())
		case reflect.Float32, reflect.Float64:
			w64(uint64(rv.Float() * 1e6))
		case reflect.String:
			h.Write([]byte(rv.String()))
		case reflect.Func:
			w64(uint64(rv.Pointer()))
		case reflect.Ptr:
			if rv.IsNil() {
				h.Write([]byte{0})
				return
			}
			p := rv.Pointer()
			if seen[p] {
				h.Write([]byte{9})
				return
			}
			seen[p] = true
			walk(rv.Elem(), depth+1)
		case reflect.Interface:
			if rv.IsNil() {
				h.Write([]byte{0})
				return
			}
			walk(rv.Elem(), depth+1)
		case reflect.Struct:
			for i := 0; i < rv.NumField(); i++ {
				walk(rv.Field(i), depth+1)
			}
		case reflect.Slice:
			if rv.IsNil() {
				h.Write([]byte{0})
				return
			}
			w64(uint64(rv.Len()))
			for i := 0; i < rv.Len(); i++ {
				walk(rv.Index(i), depth+1)
			}
		case reflect.Array:
			for i := 0; i < rv.Len(); i++ {
				walk(rv.Index(i), depth+1)
			}
		case reflect.Map:
			w64(uint64(rv.Len()))
			keys := rv.MapKeys()
			sort.Slice(keys, func(i, j int) bool { return fmt.Sprint(keys[i]) < fmt.Sprint(keys[j]) })
			for _, k := range keys {
				h.Write([]byte(fmt.Sprint(k)))
				walk(rv.MapIndex(k), depth+1)
			}
		case reflect.Chan, reflect.UnsafePointer:
			w64(uint64(rv.Pointer()))
		}
	}
	walk(reflect.ValueOf(v), 0)
	return hex.EncodeToString(h.Sum(nil)[:10])
}

func protoBytes(m proto.Message) string {
	b, err := proto.MarshalOptions{Deterministic: true}.Marshal(m)
	if err != nil {
		return "ERR:" + err.Error()
	}
	s := sha256.Sum256(b)
	return hex.EncodeToString(s[:10])
}

// allMessages collects every message pointer reachable from m.
func allMessages(m proto.Message, into map[proto.Message]bool) {
	if m == nil {
		return
	}
	into[m] = true
	m.ProtoReflect().Range(func(fd protoreflect.FieldDescriptor, v protoreflect.Value) bool {
		if fd.Message() == nil {
			return true
		}
		if fd.IsList() {
			l := v.List()
			for i := 0; i < l.Len(); i++ {
				allMessages(l.Get(i).Message().Interface(), into)
			}
		} else if !fd.IsMap() {
			allMessages(v.Message().Interface(), into)
		}
		return true
	})
}

type sentinel struct{ n int }

type collSnap struct {
	name string
	hdr  [3]uintptr // data, len, cap
	full []any      // the whole capacity region (item identity)
}

func snapColl(name string, c system.Collection) collSnap {
	full := c[:cap(c)]
	cp := make([]any, len(full))
	copy(cp, full)
	var data uintptr
	if cap(c) > 0 {
		data = uintptr(unsafe.Pointer(unsafe.SliceData(c)))
	}
	return collSnap{name, [3]uintptr{data, uintptr(len(c)), uintptr(cap(c))}, cp}
}

func (s collSnap) changed(c system.Collection) string {
	now := snapColl(s.name, c)
	if now.hdr != s.hdr {
		return fmt.Sprintf("slice header changed %v -> %v", s.hdr, now.hdr)
	}
	for i := range s.full {
		a, b := s.full[i], now.full[i]
		if !sameIdentity(a, b) {
			where := "item"
			if i >= int(s.hdr[1]) {
				where = "spare capacity slot"
			}
			return fmt.Sprintf("%s %d of the backing array changed: %s -> %s", where, i, fx.Render(a), fx.Render(b))
		}
	}
	return ""
}

func sameIdentity(a, b any) bool {
	am, ok1 := a.(proto.Message)
	bm, ok2 := b.(proto.Message)
	if ok1 || ok2 {
		return ok1 && ok2 && am == bm
	}
	as, ok1 := a.(*sentinel)
	bs, ok2 := b.(*sentinel)
	if ok1 || ok2 {
		return ok1 && ok2 && as == bs
	}
	return fx.Render(a) == fx.Render(b)
}

// c03Prog evaluates one program on a generated resource with aliasing env variables and checks non-mutation.
func c03Prog(env *core.Env, kind, src, tn string, seed uint64, rich bool) {
	defer env.In("prog", kind, src, tn, seed, rich)()
	env.Case()
	var res fhir.Resource
	if tn == "" {
		res = gen.StdPatient()
	} else {
		res, _ = genResource(tn, seed, rich)
	}
	tree, err := model.BuildTree(res)
	if err != nil {
		env.Skip("resource-not-marshallable")
		return
	}
	// the caller's slice: repeated complex elements of the resource
	var kidsNodes []*model.Node
	for _, nd := range tree.All() {
		if nd.Parent != nil && !nd.IsPrim && nd.Synth == nil && !nd.UnderFresh() && len(nd.Parent.KidsNamed(nd.Name)) >= 2 {
			kidsNodes = nd.Parent.KidsNamed(nd.Name)
			break
		}
	}
	if kidsNodes == nil {
		for _, nd := range tree.Kids {
			if nd.Msg != nil && !nd.UnderFresh() {
				kidsNodes = append(kidsNodes, nd)
			}
		}
	}
	n := len(kidsNodes)
	backing := make([]any, n, n+4)
	for i, nd := range kidsNodes {
		backing[i] = nd.Msg
	}
	spare := backing[:cap(backing)]
	for i := n; i < len(spare); i++ {
		spare[i] = &sentinel{i}
	}
	kids := system.Collection(backing[:n])
	var sub system.Collection
	if n >= 2 {
		sub = system.Collection(backing[1:2]) // capacity extends over the caller's later items
	} else {
		sub = system.Collection(backing[:0])
	}
	eb := make([]any, 0, 4)
	for i := range eb[:4] {
		eb[:4][i] = &sentinel{100 + i}
	}
	empty := system.Collection(eb)
	std := gen.StdEnv()
	eo := gen.EnvOpts(std)
	eo = append(eo, evalopts.EnvVariable("r", res), evalopts.EnvVariable("kids", kids), evalopts.EnvVariable("sub", sub), evalopts.EnvVariable("e", empty))
	// snapshots
	resBefore := protoBytes(res)
	envBefore := map[string]string{}
	inputNodes := map[proto.Message]bool{}
	allMessages(res, inputNodes)
	var envColls []collSnap
	envCollVals := map[string]system.Collection{"kids": kids, "sub": sub, "e": empty}
	for _, nm := range []string{"kids", "sub", "e"} {
		envColls = append(envColls, snapColl(nm, envCollVals[nm]))
	}
	for _, e := range std {
		switch v := e.Value.(type) {
		case proto.Message:
			envBefore[e.Name] = protoBytes(v)
			allMessages(v, inputNodes)
		case system.Collection:
			envColls = append(envColls, snapColl(e.Name, v))
			envCollVals[e.Name] = v
			for _, it := range v {
				if m, ok := it.(proto.Message); ok {
					envBefore[e.Name+"/"+fx.Digest(m)] = protoBytes(m)
					allMessages(m, inputNodes)
				}
			}
		}
	}
	ex, cr := fx.Compile(env, src, buildCompileOpts("experimental")...)
	if ex == nil {
		if cr.IsPanic() {
			env.Violatef(fx.PanicSig("C03", cr), "Compile(`%s`) => %s", src, cr.Short())
		}
		return
	}
	exBefore := deepDigest(ex)
	in := []fhir.Resource{res}
	r := fx.Evaluate(env, ex, in, eo...)
	env.Cover("evaluated")
	env.Cover(kind)
	if r.IsPanic() {
		env.Violatef(fx.PanicSig("C03", r), "`%s` => %s", src, r.Short())
	}
	if r.IsError() {
		env.Cover("errored")
	}
	shape := progShape(src)
	if (r.IsValue() && len(r.Items) > 0) || r.IsError() {
		env.Distinct(shape + "|" + tn)
	}
	d := fmt.Sprintf("`%s` on %s(seed %d)", src, tn, seed)
	// after
	if in[0] != res {
		env.Violatef("C03/input-slice-modified", "%s: the caller's input slice was modified", d)
	}
	if a := protoBytes(res); a != resBefore {
		env.Violatef("C03/resource-mutated/"+shape, "%s: the input resource's deterministic serialisation changed (%s -> %s)", d, resBefore, a)
	}
	for _, e := range std {
		switch v := e.Value.(type) {
		case proto.Message:
			if a := protoBytes(v); a != envBefore[e.Name] {
				env.Violatef("C03/env-element-mutated/"+shape, "%s: environment element %%%s changed", d, e.Name)
			}
		case system.Collection:
			for _, it := range v {
				if m, ok := it.(proto.Message); ok {
					if b, ok2 := envBefore[e.Name+"/"+fx.Digest(m)]; ok2 && b != protoBytes(m) {
						env.Violatef("C03/env-element-mutated/"+shape, "%s: an element of environment collection %%%s changed", d, e.Name)
					}
				}
			}
		}
	}
	env.Cover("spare-capacity-checked")
	for _, s := range envColls {
		if why := s.changed(envCollVals[s.name]); why != "" {
			env.Violatef("C03/env-collection-backing-array/"+shape, "%s: environment collection %%%s: %s", d, s.name, why)
		}
	}
	env.Cover("expression-digest")
	if a := deepDigest(ex); a != exBefore {
		env.Violatef("C03/expression-mutated/"+shape, "%s: the compiled expression changed during evaluation", d)
	}
	// result elements are the input's own nodes
	if r.IsValue() {
		for i, it := range r.Raw {
			m, ok := it.(proto.Message)
			if !ok {
				continue
			}
			env.Cover("returned-elements")
			if inputNodes[m] {
				continue
			}
			if c03FreshAllowed(m, tree) || c03SynthReference(m, inputNodes) {
				continue
			}
			env.Violatef("C03/result-not-an-input-node/"+shape, "%s: result item %d (%s) is a FHIR element that is not one of the input's own nodes", d, i, fx.Render(it))
			break
		}
	}
	env.SampleSpread(src+tn, map[string]string{"program": src, "resource": tn, "outcome": trunc(r.Short(), 100)})
}

// c03FreshAllowed: synthesized reference strings and elements unpacked from `contained`.
func c03FreshAllowed(m proto.Message, tree *model.Node) bool {
	if s, ok := m.(*dtpb.String); ok {
		for _, nd := range tree.All() {
			if nd.Synth != nil && *nd.Synth == s.Value {
				return true
			}
		}
	}
	for _, nd := range tree.All() {
		if nd.UnderFresh() && nd.Msg != nil && nd.MD == m.ProtoReflect().Descriptor() && proto.Equal(nd.Msg, m) {
			return true
		}
	}
	return false
}

// progShape abstracts a source text to its operator/function skeleton for finding signatures.
func progShape(src string) string {
	var fns []string
	tok := ""
	flush := func(next byte) {
		if tok != "" && next == '(' {
			fns = append(fns, tok)
		}
		tok = ""
	}
	for i := 0; i < len(src); i++ {
		c := src[i]
		if c == '_' || (c >= 'a' && c <= 'z') || (c >= 'A' && c <= 'Z') {
			tok += string(c)
			continue
		}
		flush(c)
		if c == '&' {
			fns = append(fns, "&")
		}
	}
	seen := map[string]bool{}
	var out []string
	for _, f := range fns {
		if !seen[f] {
			seen[f] = true
			out = append(out, f)
		}
	}
	sort.Strings(out)
	if len(out) > 4 {
		out = out[:4]
	}
	return strings.Join(out, "+")
}

func replayC03(env *core.Env, a []json.RawMessage) {
	var kind, src, tn string
	var seed uint64
	var rich bool
	json.Unmarshal(a[0], &kind)
	json.Unmarshal(a[1], &src)
	json.Unmarshal(a[2], &tn)
	json.Unmarshal(a[3], &seed)
	json.Unmarshal(a[4], &rich)
	c03Prog(env, kind, src, tn, seed, rich)
}

var c03Aliasing = []string{
	"%codes.isDistinct()", "%codes.tail().isDistinct()", "%codes.skip(1).isDistinct()", "%codes.distinct()", "%codes.tail().distinct()", "%codes.union(%codes)", "%codes.combine(%codes)", "%codes.exclude('a')", "%codes.intersect(%codes)",
	"%codes.skip(1).subsetOf(%codes)", "%codes.supersetOf(%codes.tail())", "%codes.join(',')", "%codes.where($this > 'a')", "%codes.select($this & 'x')", "%codes.allTrue()", "%codes.count()", "%codes.take(4).isDistinct()", "%codes.take(3).distinct().count()",
	"%fcodes.isDistinct()", "%fcodes.tail().isDistinct()", "%fcodes.distinct()", "%fcodes.union(%fcodes)", "%fcodes.exclude('a')", "%fcodes.intersect(%codes)", "%fcodes.subsetOf(%codes)", "%fcodes.skip(1).supersetOf(%fcodes)", "%fcodes.join('-')", "%codes | %fcodes",
	"%codes.tail().tail().isDistinct()", "%codes.skip(2).take(3).isDistinct()", "%multi.isDistinct()", "%fprims.isDistinct()", "%fprims.tail().isDistinct()", "%codes.aggregate($this & $total, '')", "%codes.repeat($this)", "%codes.indexOf('a')", "%codes.first().indexOf('c')",
	"%e & 'x'", "'x' & %e", "%e & %e", "%sub & 'x'", "%emptyc & 'x'", "%e.first() & 'y'", "%sub.family & 'x'",
	"%kids.tail()", "%kids.skip(1)", "%kids.take(1)", "%kids.skip(1).take(1)", "%kids.first()", "%kids.last()", "%sub.tail()", "%sub.take(5)",
	"%kids.where(true)", "%kids.where(false)", "%kids.select($this)", "%e.select($this)", "%kids.select(children())", "%kids.all(true)", "%kids.exists($this.exists())",
	"%kids.exclude(%kids)", "%kids.exclude(%sub)", "%sub.exclude(%kids)", "%kids.intersect(%kids)", "%kids.intersect(%sub)", "%kids.distinct()", "%kids.isDistinct()",
	"%kids.children()", "%kids.descendants()", "%r.descendants()", "%r.children()", "%context.descendants().count()", "%r.descendants().where($this is string)",
	"%kids.extension('http://example.org/ext/a')", "%kids.id", "%r.id", "%r.meta", "%r.meta.lastUpdated", "%r.extension", "%r.contained", "%r.contained.id", "%r.text.div",
	"%kids = %kids", "%kids != %sub", "%kids[0] = %sub[0]", "%e = %e", "%kids.count() + %sub.count()", "iif(%kids.exists(), %kids, %e)", "iif(%e.exists(), %e, %kids.tail())",
	"%kids.toString()", "%kids.first().toString()", "%e.toString()", "%kids.join(',')", "%multis.join(',')", "%multi.skip(1) & 'x'", "%multi.tail().first() + 1",
	"%names.where(family = 'Smith').given", "%names.select(given)", "%names.given.distinct()", "%names.tail().family", "%names.exclude(%name)", "%names.intersect(%name)",
	"%kids.where($this / 0)", "%kids.select(nosuchfield)", "%kids.first().nosuchfield", "%e.nosuchfield", "%kids.skip('a')", "%kids.take(%multi)",
	"%fdnp = %fdnp", "%fdnp.toString()", "%fdtnp.toString()", "%fdtnp = %fdt", "%fdtnp < %fdt", "%ftnp.toString()", "%fdnp.toDateTime()", "%fdtnp.toDate()", "%fdnp + 1 day", "%fdtnp in %multi", "%ftnp = @T01:02:03",
	"%multis.intersect(%fprims)", "%fprims.intersect(%fprims.skip(1))", "%fprims.intersect($this)", "%fprims.exclude(%fprims.take(2))", "%fprims.distinct()", "%fprims.select($this & 'x')", "%fprims.where($this = 'a')", "%fprims = %fprims",
	"%tcoll.not()", "%fcoll.not()", "%tcoll.not() or %tcoll", "%multib.take(1).not()", "%multib.tail().not()", "%fprims.tail().take(1).toString()", "%fprims.first().toInteger()", "%fprims.skip(2).first() + 1", "-(%fprims.skip(2).first())",
	"%kids[%idxc]", "%multi[%idxc]", "%multi[%multi.skip(1).take(1)]", "%kids[%multi.take(1)]", "%names[%idxc].family", "%multi.skip(%idxc)", "%multi.take(%idxc)", "'abc'.substring(%idxc)", "%multis[%idxc] & 'x'", "%idxc + 1", "-%idxc", "%idxc.abs()", "%idxc = 1",
	"%kids.as(Patient)", "%kids.first() as Element", "%kids.first() is Element", "%r is DomainResource", "%r as Resource",
	// every element through the type operators and functions (a conversion between related types must not write through shared children)
	"%r.descendants().select($this as Quantity)", "%r.descendants().select($this as Duration)", "%r.descendants().select($this as Age)", "%r.descendants().ofType(Quantity)", "%r.descendants().where($this is Quantity).count()",
	"%r.descendants().select($this as SimpleQuantity)", "%r.descendants().select($this as Money)", "%r.descendants().select($this as string)", "%r.descendants().select($this as uri)", "%r.descendants().select($this as code)",
	"%r.descendants().select($this as Coding)", "%r.descendants().select($this as Reference)", "%r.descendants().select($this as Element).count()", "%r.descendants().select($this as dateTime)", "%r.descendants().ofType(Duration).toString()",
	"%r.descendants().select($this as Quantity).toString()", "%r.descendants().select(($this as Quantity) = $this)", "%r.descendants().where($this is Quantity).select($this.toQuantity())", "%r.descendants().where($this is Quantity).select($this = $this)",
	"%r.descendants().where($this is Quantity).select($this + $this)", "%r.descendants().where($this is Quantity).select($this < $this)", "%r.descendants().toQuantity()", "%r.descendants().select(toString())",
}

// goShape renders the exported Go fields of a message tree: which pointers, slices and interfaces are nil, and the
// scalar values. Two messages that serialise alike can still differ here (a selected oneof case whose member is nil
// against the same case with an allocated empty member).
func goShape(v any) string {
	var b strings.Builder
	var walk func(rv reflect.Value, depth int)
	walk = func(rv reflect.Value, depth int) {
		if depth > 60 || !rv.IsValid() {
			b.WriteString("?")
			return
		}
		switch rv.Kind() {
		case reflect.Ptr, reflect.Interface:
			if rv.IsNil() {
				b.WriteString("nil;")
				return
			}
			b.WriteString("&")
			walk(rv.Elem(), depth+1)
		case reflect.Struct:
			b.WriteString(rv.Type().Name() + "{")
			for i := 0; i < rv.NumField(); i++ {
				if f := rv.Type().Field(i); f.IsExported() {
					b.WriteString(f.Name + ":")
					walk(rv.Field(i), depth+1)
				}
			}
			b.WriteString("}")
		case reflect.Slice:
			if rv.IsNil() {
				b.WriteString("nil;")
				return
			}
			fmt.Fprintf(&b, "[%d:", rv.Len())
			if rv.Type().Elem().Kind() != reflect.Uint8 {
				for i := 0; i < rv.Len(); i++ {
					walk(rv.Index(i), depth+1)
				}
			}
			b.WriteString("]")
		default:
			fmt.Fprintf(&b, "%v;", rv.Interface())
		}
	}
	walk(reflect.ValueOf(v), 0)
	return b.String()
}

// c03NilMembers: inputs whose choice wrappers select a case but hold no member message (legal Go values that
// serialise like an allocated empty member): navigation reads them and leaves them as they are.
func c03NilMembers(env *core.Env) {
	defer env.In("nilmembers")()
	env.Case()
	mk := func() (*ppb.Patient, *dtpb.Extension) {
		p := gen.StdPatient()
		p.Deceased = &ppb.Patient_DeceasedX{Choice: &ppb.Patient_DeceasedX_Boolean{}}
		p.MultipleBirth = &ppb.Patient_MultipleBirthX{Choice: &ppb.Patient_MultipleBirthX_Integer{}}
		p.Extension = append(p.Extension, &dtpb.Extension{Url: &dtpb.Uri{Value: "http://u/nil"}, Value: &dtpb.Extension_ValueX{Choice: &dtpb.Extension_ValueX_StringValue{}}}, &dtpb.Extension{Url: &dtpb.Uri{Value: "http://u/nil2"}, Value: &dtpb.Extension_ValueX{}})
		p.ManagingOrganization = &dtpb.Reference{Reference: &dtpb.Reference_OrganizationId{}}
		e := &dtpb.Extension{Url: &dtpb.Uri{Value: "http://u/e"}, Value: &dtpb.Extension_ValueX{Choice: &dtpb.Extension_ValueX_Quantity{}}}
		return p, e
	}
	for _, src := range []string{"Patient.deceased", "Patient.multipleBirth", "Patient.children()", "Patient.descendants().count()", "Patient.extension.value", "Patient.extension.where(url = 'http://u/nil').value", "Patient.deceased.exists()", "Patient.deceased = true",
		"Patient.deceased is boolean", "Patient.deceased as boolean", "Patient.multipleBirth + 1", "Patient.managingOrganization.reference", "Patient.managingOrganization.children()", "%e.value", "%e.children()", "%e.value is Quantity", "%e.descendants()", "Patient.extension.select(value)", "Patient.extension.value.toString()", "Patient.deceased.not()"} {
		p, e := mk()
		before, beforeE := goShape(p), goShape(e)
		r := fx.Eval(env, src, []fhir.Resource{p}, nil, []fhirpath.EvaluateOption{evalopts.EnvVariable("e", e)})
		env.Cover("nil-choice-member")
		if r.IsPanic() {
			env.Skip("nil-member-input-panics") // outside the domain of C01 (typed-nil elements are caller errors); not a mutation
			continue
		}
		if after := goShape(p); after != before {
			env.Violatef("C03/resource-mutated/nil-choice-member", "`%s`: the input Patient (choice wrappers with a selected case and no member) changed shape: a nil member was allocated or a field was set", src)
		}
		if after := goShape(e); after != beforeE {
			env.Violatef("C03/variable-mutated/nil-choice-member", "`%s`: the element bound to %%e (value[x] with a selected case and no member) changed shape", src)
		}
	}
}

// c03EmptyWrappers: resource wrappers that select a member and hold no resource (a Bundle entry, a variable): the steps
// that unwrap them read the member and leave the wrapper as it is.
func c03EmptyWrappers(env *core.Env) {
	defer env.In("emptywrappers")()
	env.Case()
	mk := func() (*bcrpb.Bundle, *bcrpb.ContainedResource) {
		b := &bcrpb.Bundle{Id: &dtpb.Id{Value: "b"}, Entry: []*bcrpb.Bundle_Entry{
			{FullUrl: &dtpb.Uri{Value: "urn:a"}, Resource: &bcrpb.ContainedResource{OneofResource: &bcrpb.ContainedResource_Patient{}}},
			{FullUrl: &dtpb.Uri{Value: "urn:b"}, Resource: &bcrpb.ContainedResource{OneofResource: &bcrpb.ContainedResource_Patient{Patient: &ppb.Patient{Id: &dtpb.Id{Value: "p1"}}}}},
			{FullUrl: &dtpb.Uri{Value: "urn:c"}, Resource: &bcrpb.ContainedResource{OneofResource: &bcrpb.ContainedResource_Observation{}}},
			{FullUrl: &dtpb.Uri{Value: "urn:d"}, Resource: &bcrpb.ContainedResource{}},
			{FullUrl: &dtpb.Uri{Value: "urn:e"}},
		}}
		return b, &bcrpb.ContainedResource{OneofResource: &bcrpb.ContainedResource_Patient{}}
	}
	for _, src := range []string{"Bundle.entry.resource", "Bundle.entry.resource.id", "Bundle.entry.resource.where(id = 'p1').exists()", "Bundle.descendants().count()", "Bundle.entry.children()", "Bundle.entry.resource.ofType(Patient)",
		"Bundle.entry.resource is Patient", "Bundle.entry[0].resource.exists()", "Bundle.entry.select(resource.id)", "Bundle.entry.resource.children().count()", "Bundle.entry.all(resource.exists())", "Bundle.entry.resource.count()",
		"%w", "%w.id", "%w.children()", "%w.descendants().count()", "%w is Patient", "%w.exists()", "Bundle.entry.resource | %w", "Bundle.entry.resource.where($this is Observation)"} {
		b, w := mk()
		before, beforeW := goShape(b), goShape(w)
		r := fx.Eval(env, src, []fhir.Resource{b}, nil, []fhirpath.EvaluateOption{evalopts.EnvVariable("w", w)})
		env.Cover("empty-resource-wrapper")
		if r.IsPanic() {
			env.Skip("empty-wrapper-input-panics") // totality is C01's concern; not a mutation
			continue
		}
		if after := goShape(b); after != before {
			env.Violatef("C03/resource-mutated/empty-resource-wrapper", "`%s`: the input Bundle (entries whose resource wrapper selects a member and holds no resource) changed shape: a nil member was allocated or a field was set", src)
		}
		if after := goShape(w); after != beforeW {
			env.Violatef("C03/variable-mutated/empty-resource-wrapper", "`%s`: the wrapper bound to %%w (a selected member, no resource) changed shape", src)
		}
	}
}

// c03FailedRuns: a compiled expression answers the same after many evaluations that failed (an option that is
// refused, a variable that is missing, an operation that errors) as before them.
func c03FailedRuns(env *core.Env) {
	defer env.In("failedruns")()
	env.Case()
	in := []fhir.Resource{gen.StdPatient()}
	okOpt := []fhirpath.EvaluateOption{evalopts.EnvVariable("v", system.Integer(2))}
	fails := [][]fhirpath.EvaluateOption{
		{evalopts.EnvVariable("context", system.Integer(1))},
		{evalopts.EnvVariable("v", 42)},
		{evalopts.EnvVariable("v", system.Integer(1)), evalopts.EnvVariable("v", system.Integer(2))},
		{}, // %v missing: evaluation error
		{evalopts.EnvVariable("v", system.String("x"))},
	}
	for _, src := range []string{"Patient.name.given.count() + %v", "Patient.name.where(given.count() >= %v).family", "%v + 1", "Patient.name.select(given.first() & 'x').take(%v)", "iif(%v > 1, Patient.id, {})"} {
		ex, cr := fx.Compile(env, src)
		if ex == nil {
			env.Violatef("C03/failed-runs/compile", "`%s` => %s", src, cr.Short())
			continue
		}
		r0 := fx.Evaluate(env, ex, in, okOpt...)
		failed := 0
		for round := 0; round < 150; round++ {
			rf := fx.Evaluate(env, ex, in, fails[round%len(fails)]...)
			if rf.IsPanic() {
				break
			}
			if rf.IsError() {
				failed++
			}
			if round%25 == 24 || round == 64 || round == 65 {
				r1 := fx.Evaluate(env, ex, in, okOpt...)
				env.Cover("evaluated-after-failed-evaluations")
				if !fx.Same(r0, r1) {
					env.Violatef("C03/expression-changed-by-failed-evaluations", "`%s`: first evaluation => %s; after %d failed evaluations of the same compiled expression => %s", src, trunc(r0.Short(), 100), failed, trunc(r1.Short(), 100))
					break
				}
			}
		}
		env.Distinct(fmt.Sprintf("failed-runs|%s|%d", src, failed))
	}
}

func runC03(env *core.Env) {
	if env.Shard == 2%env.NShards {
		c03NilMembers(env)
		c03EmptyWrappers(env)
	}
	if env.Shard == 3%env.NShards {
		c03FailedRuns(env)
	}
	types := gen.ResourceTypes()
	names := funcNames()
	rng := env.Rng("c03")
	n := 0
	// aliasing-sensitive programs on resources of several types
	reps := env.Size(12, 146)
	for k := 0; k < reps; k++ {
		tn := string(types[(k*13)%len(types)].Name())
		seed := rng.Next() % 100000
		rich := k%2 == 0
		for _, src := range c03Aliasing {
			n++
			if env.Mine(n) {
				c03Prog(env, "aliasing-program", src, tn, seed, rich)
			}
		}
	}
	// every function of the table x receivers x non-literal / aliasing arguments (arity 0..3): a function that
	// writes into its argument nodes, or adopts an argument's collection as its result buffer, shows here
	recvs := []string{"%codes", "%fprims", "%tcoll", "%kids", "%names", "%multi", "%fstr", "'5'", "5", "%r", "%e", "%sub", "Patient.name"}
	a1 := []string{"%fprims", "%fprims.skip(1)", "%sub", "%kids.take(1)", "%e", "%kids", "%fstr", "%ucum", "%fint", "%fbool", "$this", "%context.id", "%name", "%multis.first()", "1", "'a'", "%multi.take(1)", "%kids.skip(1)"}
	a2 := []string{"%sub", "%e", "%fstr", "%fint", "$this", "%multi.take(1)"}
	a3 := []string{"%sub", "%fstr", "%fint"}
	var argLists []string
	argLists = append(argLists, "")
	argLists = append(argLists, a1...)
	for _, x := range a2 {
		for _, y := range a2 {
			argLists = append(argLists, x+", "+y)
		}
	}
	for _, x := range a3 {
		for _, y := range a3 {
			for _, z := range a3 {
				argLists = append(argLists, x+", "+y+", "+z)
			}
		}
	}
	tabTypes := []string{""}
	if !env.Quick() {
		for k := 0; k < 6; k++ {
			tabTypes = append(tabTypes, string(types[(k*29+3)%len(types)].Name()))
		}
	}
	for ti, tn := range tabTypes {
		seed := rng.Next() % 100000
		for _, f := range names {
			for _, rc := range recvs {
				for _, al := range argLists {
					n++
					if env.Mine(n) {
						c03Prog(env, "table-args", rc+"."+f+"("+al+")", tn, seed, ti%2 == 1)
					}
				}
			}
		}
	}
	// generated programs
	total := env.Size(9000, 500000)
	var pctx *gen.ProgCtx
	var tn string
	var seed uint64
	var rich bool
	cats := []string{"any", "coll", "coll", "str", "bool", "num", "date"}
	for i := 0; i < total; i++ {
		if i%30 == 0 {
			tn = string(types[rng.Intn(len(types))].Name())
			seed = rng.Next() % 100000
			rich = rng.Intn(3) == 0
			pctx = nil
		}
		sub := rng.Fork("p")
		n++
		if !env.Mine(n) {
			continue
		}
		if pctx == nil {
			r, _ := genResource(tn, seed, rich)
			t, err := model.BuildTree(r)
			if err != nil {
				continue
			}
			pctx = ctxFromTree(t, names)
		}
		g := &gen.ProgGen{R: sub, Ctx: pctx}
		tree := g.Gen(cats[sub.Intn(len(cats))], 1+sub.Intn(5))
		src := gen.Join(tree.Tokens(false))
		// bias towards the aliasing variables
		if sub.Intn(3) == 0 {
			src = strings.Replace(src, "%multi", []string{"%kids", "%sub", "%e", "%r"}[sub.Intn(4)], 1)
			src = strings.Replace(src, "%names", "%kids", 1)
		}
		c03Prog(env, "generated-program", src, tn, seed, rich)
	}
}

// c03SynthReference: a String equal to the rendering of some input Reference (typed references are
// synthesized as "Type/id[/_history/v]" by design, also for references supplied through %env).
func c03SynthReference(m proto.Message, inputs map[proto.Message]bool) bool {
	s, ok := m.(*dtpb.String)
	if !ok {
		return false
	}
	for in := range inputs {
		ref, ok := in.(*dtpb.Reference)
		if !ok {
			continue
		}
		rm := ref.ProtoReflect()
		od := rm.Descriptor().Oneofs().ByName("reference")
		f := rm.WhichOneof(od)
		if f == nil {
			continue
		}
		var want string
		switch string(f.Name()) {
		case "uri":
			want = ref.GetUri().GetValue()
		case "fragment":
			want = "#" + ref.GetFragment().GetValue()
		default:
			rid := rm.Get(f).Message().Interface().(*dtpb.ReferenceId)
			parts := strings.Split(strings.TrimSuffix(string(f.Name()), "_id"), "_")
			for i, p := range parts {
				if p != "" {
					parts[i] = strings.ToUpper(p[:1]) + p[1:]
				}
			}
			want = strings.Join(parts, "") + "/" + rid.GetValue()
			if rid.GetHistory() != nil {
				want += "/_history/" + rid.GetHistory().GetValue()
			}
		}
		if want == s.Value {
			return true
		}
	}
	return false
}
