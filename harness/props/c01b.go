package props

import (
	"encoding/json"

	"github.com/verily-src/fhirpath-go/fhirpath/verifharness/core"
)

func c01Stream2(env *core.Env) {}
func c01Stream3(env *core.Env) {}
func c01Stream4(env *core.Env) {}

func replayC01Patch(env *core.Env, a []json.RawMessage) {}
func replayC01Src(env *core.Env, a []json.RawMessage)   {}
