package props

import (
	"encoding/json"
	"fmt"
	"strings"
	"time"
	"unicode/utf8"

	basicpb "github.com/google/fhir/go/proto/google/fhir/proto/r4/core/resources/basic_go_proto"
	bcrpb "github.com/google/fhir/go/proto/google/fhir/proto/r4/core/resources/bundle_and_contained_resource_go_proto"
	"github.com/verily-src/fhirpath-go/fhirpath"
	"github.com/verily-src/fhirpath-go/fhirpath/compopts"
	"github.com/verily-src/fhirpath-go/fhirpath/evalopts"
	"github.com/verily-src/fhirpath-go/fhirpath/system"
	"github.com/verily-src/fhirpath-go/fhirpath/verifharness/core"
	"github.com/verily-src/fhirpath-go/fhirpath/verifharness/fx"
	"github.com/verily-src/fhirpath-go/fhirpath/verifharness/gen"
	"github.com/verily-src/fhirpath-go/fhirpath/verifharness/model"
	"github.com/verily-src/fhirpath-go/internal/fhir"
	"google.golang.org/protobuf/proto"
	"google.golang.org/protobuf/reflect/protoreflect"
	"google.golang.org/protobuf/types/known/anypb"
)

// ctxFromTree derives non-vacuous paths by category from a resource's tree.
func ctxFromTree(t *model.Node, funcNames []string) *gen.ProgCtx {
	c := &gen.ProgCtx{Root: t.Name, FuncNames: funcNames, WrongRoot: "Observation"}
	if t.Name == "Observation" {
		c.WrongRoot = "Patient"
	}
	seen := map[string]bool{}
	for _, n := range t.All() {
		if n.Parent == nil {
			continue
		}
		p := n.PathTo()
		key := strings.Join(p, ".")
		if seen[key] || len(p) > 5 {
			continue
		}
		seen[key] = true
		add := func(dst *[][]string) {
			if len(*dst) < 14 {
				*dst = append(*dst, p)
			}
		}
		if n.Synth != nil {
			add(&c.StrPaths)
			continue
		}
		if n.IsPrim {
			switch string(n.MD.Name()) {
			case "Integer", "PositiveInt", "UnsignedInt", "Decimal":
				add(&c.NumPaths)
			case "Boolean":
				add(&c.BoolPaths)
			case "Date", "DateTime", "Instant", "Time":
				add(&c.DatePaths)
			case "Base64Binary":
				add(&c.AnyPaths)
			default:
				add(&c.StrPaths)
			}
			continue
		}
		if len(n.Parent.KidsNamed(n.Name)) > 1 {
			add(&c.CollPaths)
		} else {
			add(&c.AnyPaths)
		}
	}
	if len(c.CollPaths) == 0 {
		c.CollPaths = append(c.CollPaths, []string{"extension"})
	}
	if len(c.AnyPaths) == 0 {
		c.AnyPaths = append(c.AnyPaths, []string{"meta"})
	}
	if len(c.StrPaths) == 0 {
		c.StrPaths = append(c.StrPaths, []string{"id"})
	}
	if len(c.NumPaths) == 0 {
		c.NumPaths = append(c.NumPaths, []string{"meta", "extension"})
	}
	if len(c.BoolPaths) == 0 {
		c.BoolPaths = append(c.BoolPaths, []string{"meta", "id"})
	}
	if len(c.DatePaths) == 0 {
		c.DatePaths = append(c.DatePaths, []string{"meta", "lastUpdated"})
	}
	return c
}

var overrideTimes = []struct {
	name string
	t    *time.Time
}{
	{"none", nil},
	{"zero", ptrTime(time.Time{})},
	{"year1", ptrTime(time.Date(1, 1, 1, 0, 0, 0, 0, time.UTC))},
	{"leap+0530", ptrTime(time.Date(2024, 2, 29, 23, 59, 59, 999000000, time.FixedZone("", 19800)))},
	{"year9999", ptrTime(time.Date(9999, 12, 31, 23, 59, 59, 999999999, time.UTC))},
	{"year10000", ptrTime(time.Date(10000, 1, 1, 0, 0, 0, 0, time.UTC))},
	{"neg-year", ptrTime(time.Date(-5, 6, 7, 8, 9, 10, 0, time.FixedZone("", -39600)))},
}

func ptrTime(t time.Time) *time.Time { return &t }

// compileOptSets: descriptors of compile option sets.
var compileOptSets = []string{"none", "experimental", "permissive", "addfn-good", "addfn-malformed", "addfn-builtin", "dup"}

func goodCustom(in system.Collection, s system.String) (system.Collection, error) {
	return append(system.Collection{s}, in...), nil
}

func buildCompileOpts(name string) []fhirpath.CompileOption {
	switch name {
	case "experimental":
		return []fhirpath.CompileOption{compopts.WithExperimentalFuncs()}
	case "permissive":
		return []fhirpath.CompileOption{compopts.Permissive()}
	case "addfn-good":
		return []fhirpath.CompileOption{compopts.AddFunction("custom", goodCustom), compopts.WithExperimentalFuncs()}
	case "addfn-malformed":
		return []fhirpath.CompileOption{compopts.AddFunction("bad", func(int) int { return 0 }), compopts.AddFunction("worse", 42)}
	case "addfn-builtin":
		return []fhirpath.CompileOption{compopts.AddFunction("where", goodCustom)}
	case "dup":
		return []fhirpath.CompileOption{compopts.AddFunction("custom", goodCustom), compopts.AddFunction("custom", goodCustom), compopts.Permissive(), compopts.Permissive()}
	}
	return nil
}

// c01Tree evaluates one source with the given inputs/option descriptors through Evaluate and the EvaluateAs* helpers.
func c01Source(env *core.Env, stream, src, resType string, resSeed uint64, rich bool, copt, otime string, nInputs int) {
	defer env.In("src", stream, src, resType, resSeed, rich, copt, otime, nInputs)()
	var in []fhir.Resource
	switch {
	case resType == "":
		in = []fhir.Resource{gen.StdPatient()}
	default:
		r, _ := genResource(resType, resSeed, rich)
		in = []fhir.Resource{r}
	}
	switch nInputs {
	case 0:
		in = nil
	case 2:
		in = append(in, gen.StdPatient())
	case -1:
		in = []fhir.Resource{}
	}
	eo := gen.EnvOpts(gen.StdEnv())
	for _, ot := range overrideTimes {
		if ot.name == otime && ot.t != nil {
			eo = append(eo, evalopts.OverrideTime(*ot.t))
		}
	}
	if otime == "dup-env" {
		eo = append(eo, evalopts.EnvVariable("fint", system.Integer(1)), evalopts.EnvVariable("bad", 42), evalopts.EnvVariable("context", system.Integer(1)))
	}
	env.Case()
	ex, cr := fx.Compile(env, src, buildCompileOpts(copt)...)
	if ex == nil {
		c01Judge(env, stream, "compile:"+copt, src, cr)
		return
	}
	if ex.String() != src {
		env.Violatef("C01/expression-string-differs", "Expression.String() = %q for source %q", ex.String(), src)
	}
	r := fx.Evaluate(env, ex, in, eo...)
	c01Judge(env, stream, "eval:"+copt+":"+otime, src, r)
	// EvaluateAs* helpers
	helpers := []struct {
		name string
		f    func()
	}{
		{"EvaluateAsString", func() { ex.EvaluateAsString(in, eo...) }},
		{"EvaluateAsBool", func() { ex.EvaluateAsBool(in, eo...) }},
		{"EvaluateAsInt32", func() { ex.EvaluateAsInt32(in, eo...) }},
		{"EvaluateAsCanonical", func() { ex.EvaluateAsCanonical(in, eo...) }},
	}
	for _, h := range helpers {
		out := env.Guard(h.name+" "+src, h.f)
		env.Eval(1)
		if out.Panicked || out.Dead {
			rr := fx.Res{Kind: "panic", Out: out}
			if out.Dead {
				rr.Kind = "dead"
			}
			env.Violatef(fx.PanicSig("C01", rr), "%s: %s(`%s`) => %s", stream, h.name, src, rr.Short())
		}
	}
}

func replayC01Src(env *core.Env, a []json.RawMessage) {
	var stream, src, resType, copt, otime string
	var seed uint64
	var rich bool
	var nIn int
	json.Unmarshal(a[0], &stream)
	json.Unmarshal(a[1], &src)
	json.Unmarshal(a[2], &resType)
	json.Unmarshal(a[3], &seed)
	json.Unmarshal(a[4], &rich)
	json.Unmarshal(a[5], &copt)
	json.Unmarshal(a[6], &otime)
	json.Unmarshal(a[7], &nIn)
	c01Source(env, stream, src, resType, seed, rich, copt, otime, nIn)
	fmt.Printf("replayed source %q\n", src)
}

func c01Stream2(env *core.Env) {
	names := funcNames()
	rng := env.Rng("stream2")
	types := gen.ResourceTypes()
	total := env.Size(12000, 600000)
	cats := []string{"any", "num", "str", "bool", "date", "coll"}
	// a small number of generated resources, each reused for many programs
	var pctx *gen.ProgCtx
	var resType string
	var resSeed uint64
	var rich bool
	for i := 0; i < total; i++ {
		if i%40 == 0 {
			if rng.Intn(4) == 0 {
				resType, pctx = "", gen.StdProgCtx(names)
			} else {
				resType = string(types[rng.Intn(len(types))].Name())
				resSeed = rng.Next() % 100000
				rich = rng.Intn(3) == 0
				pctx = nil
			}
		}
		sub := rng.Fork("p")
		if !env.Mine(i) {
			continue
		}
		if pctx == nil {
			r, _ := genResource(resType, resSeed, rich)
			t, err := model.BuildTree(r)
			if err != nil {
				pctx = gen.StdProgCtx(names)
				resType = ""
			} else {
				pctx = ctxFromTree(t, names)
			}
		}
		g := &gen.ProgGen{R: sub, Ctx: pctx}
		tree := g.Gen(cats[sub.Intn(len(cats))], 1+sub.Intn(6))
		src := gen.Join(tree.Tokens(false))
		copt := compileOptSets[0]
		if sub.Intn(3) == 0 {
			copt = compileOptSets[sub.Intn(len(compileOptSets))]
		} else if sub.Intn(2) == 0 {
			copt = "experimental"
		}
		ot := "none"
		if sub.Intn(4) == 0 {
			ot = overrideTimes[sub.Intn(len(overrideTimes))].name
		} else if sub.Intn(30) == 0 {
			ot = "dup-env"
		}
		nIn := 1
		switch sub.Intn(30) {
		case 0:
			nIn = 0
		case 1:
			nIn = 2
		case 2:
			nIn = -1
		}
		c01Source(env, "stream2", src, resType, resSeed, rich, copt, ot, nIn)
		env.Cover("stream2/tree")
	}
}

// c01Mixed: navigation over containers mixing resource types that share a backbone element name, and one
// un-rooted path evaluated on resources of different types in turn (through fx.Eval, which also re-evaluates
// the expression compiled at the first occurrence of the source).
func c01Mixed(env *core.Env, group string, tns []string, seed uint64, viaContained bool) {
	defer env.In("mixed", group, tns, seed, viaContained)()
	res, tn, members := buildMixed(group, tns, seed, viaContained)
	// plus a wrapper that holds no resource (a valid, if useless, message)
	switch b := res.(type) {
	case *bcrpb.Bundle:
		b.Entry = append(b.Entry, &bcrpb.Bundle_Entry{Resource: &bcrpb.ContainedResource{}}, &bcrpb.Bundle_Entry{})
	case *basicpb.Basic:
		if a, err := anypb.New(&bcrpb.ContainedResource{}); err == nil {
			b.Contained = append(b.Contained, a)
		}
	}
	env.Case()
	env.Cover("stream2/mixed")
	// child names of the shared backbone element, over all member types
	kids := map[string]bool{}
	var kidNames []string
	for _, m := range members {
		fs := m.ProtoReflect().Descriptor().Fields()
		for i := 0; i < fs.Len(); i++ {
			if fs.Get(i).JSONName() != group || fs.Get(i).Message() == nil {
				continue
			}
			cf := fs.Get(i).Message().Fields()
			for k := 0; k < cf.Len(); k++ {
				if cf.Get(k).Message() != nil && !kids[cf.Get(k).JSONName()] && !lexicallyOdd(cf.Get(k).JSONName()) {
					kids[cf.Get(k).JSONName()] = true
					kidNames = append(kidNames, cf.Get(k).JSONName())
				}
			}
		}
	}
	if lexicallyOdd(group) {
		return
	}
	prefix := tn + ".entry.resource"
	if viaContained {
		prefix = tn + ".contained"
	}
	g := model.IdentSrc(group)
	srcs := []string{prefix + "." + g, prefix + "." + g + ".children().count()", prefix + "." + g + ".descendants().count()", prefix + ".descendants().count()", prefix + "." + g + ".id", prefix + "." + g + ".extension"}
	var unrooted []string
	for _, k := range kidNames {
		srcs = append(srcs, prefix+"."+g+"."+model.IdentSrc(k), prefix+"."+g+".where("+model.IdentSrc(k)+".exists())."+model.IdentSrc(k)+".count()")
		unrooted = append(unrooted, g+"."+model.IdentSrc(k), g+"."+model.IdentSrc(k)+".children()")
	}
	in := []fhir.Resource{res}
	for _, src := range srcs {
		r := fx.Eval(env, src, in, nil, nil)
		c01Judge(env, "stream2m", "mixed:"+group, src, r)
	}
	// the same paths compiled with Permissive (wrappers stay in the collection between steps)
	for _, src := range append([]string{prefix + ".id", prefix + ".meta.lastUpdated", prefix + ".children().count()", prefix + ".ofType(Patient).id"}, srcs...) {
		r := fx.EvalK(env, "permissive", src, in, []fhirpath.CompileOption{compopts.Permissive()}, nil)
		c01Judge(env, "stream2m", "mixed-permissive:"+group, src, r)
	}
	// wrappers (filled, empty, packed in an Any) supplied as environment values and navigated
	var wrappers []any
	wrappers = append(wrappers, &bcrpb.ContainedResource{})
	if a, err := anypb.New(&bcrpb.ContainedResource{}); err == nil {
		wrappers = append(wrappers, a)
	}
	if b, ok := res.(*bcrpb.Bundle); ok && len(b.Entry) > 0 && b.Entry[0].Resource != nil {
		wrappers = append(wrappers, b.Entry[0].Resource)
	}
	if b, ok := res.(*basicpb.Basic); ok && len(b.Contained) > 0 {
		wrappers = append(wrappers, b.Contained[0])
	}
	for wi, w := range wrappers {
		for _, src := range []string{"%w.id", "%w." + g, "%w.children().count()", "%w.descendants().count()", "%w.meta.versionId", "%w.where(id.exists()).count()", "%w.select(id)", "%w.ofType(Patient)", "%w = %w", "%w.exists()"} {
			for _, perm := range []bool{false, true} {
				var co []fhirpath.CompileOption
				key := "default"
				if perm {
					co, key = []fhirpath.CompileOption{compopts.Permissive()}, "permissive"
				}
				r := fx.EvalK(env, key, src, in, co, []fhirpath.EvaluateOption{evalopts.EnvVariable("w", w)})
				c01Judge(env, "stream2m", fmt.Sprintf("wrapper-variable:%d:%s", wi, key), src, r)
			}
		}
	}
	unrooted = append(unrooted, g, g+".count()", "id", "meta.lastUpdated", "descendants().count()")
	for _, src := range unrooted {
		for _, m := range members {
			r := fx.Eval(env, src, []fhir.Resource{m}, nil, nil)
			c01Judge(env, "stream2m", "unrooted:"+group, src, r)
		}
		// all members as separate inputs of one evaluation
		r := fx.Eval(env, src, members, nil, nil)
		c01Judge(env, "stream2m", "unrooted-multi:"+group, src, r)
	}
}

func replayC01Mixed(env *core.Env, a []json.RawMessage) {
	var group string
	var tns []string
	var seed uint64
	var vc bool
	json.Unmarshal(a[0], &group)
	json.Unmarshal(a[1], &tns)
	json.Unmarshal(a[2], &seed)
	json.Unmarshal(a[3], &vc)
	c01Mixed(env, group, tns, seed, vc)
}

// element x forcing operation: every element of a generated resource is pushed through the operations that
// convert an element to a System value or compare / combine it (one compiled expression per operation).
var c01ElemOps = []string{"%x = %x", "%x != %x", "%x < %x", "%x >= 1", "%x.toString()", "%x & 'x'", "%x + 1", "%x + %x", "-%x", "%x.abs()", "%x in %x", "%x.distinct()", "%x.isDistinct()",
	"%x.toQuantity()", "%x.toDecimal()", "%x.toDateTime()", "%x.convertsToBoolean()", "%x is System.Quantity", "%x as Quantity", "%x.exists($this = %x)", "%x.where($this > %x)", "%x.select($this & $this)",
	"%x.intersect(%x)", "%x.exclude(%x)", "(%x | %x)", "%x.children()", "%x.descendants().count()", "%x.not()", "iif(%x, 1, 2)", "%x.length()", "%x.round()", "%x.value", "%x.extension", "%x.id", "%x[0]", "%x.single()"}

var c01ElemCompiled []*fhirpath.Expression

func c01Elements(env *core.Env, tn string, seed uint64, rich bool) {
	defer env.In("elements", tn, seed, rich)()
	if c01ElemCompiled == nil {
		for _, src := range c01ElemOps {
			ex, _ := fx.Compile(env, src)
			c01ElemCompiled = append(c01ElemCompiled, ex) // nil where the grammar is unsupported (`|`)
		}
	}
	res, _ := genResource(tn, seed, rich)
	var msgs []proto.Message
	var walk func(m protoreflect.Message, depth int)
	walk = func(m protoreflect.Message, depth int) {
		msgs = append(msgs, m.Interface())
		if depth > 8 {
			return
		}
		m.Range(func(fd protoreflect.FieldDescriptor, v protoreflect.Value) bool {
			if fd.Message() == nil || gen.IsAny(fd.Message()) {
				return true
			}
			if fd.IsList() {
				for i := 0; i < v.List().Len(); i++ {
					walk(v.List().Get(i).Message(), depth+1)
				}
			} else if !fd.IsMap() {
				walk(v.Message(), depth+1)
			}
			return true
		})
	}
	walk(res.ProtoReflect(), 0)
	step := 1
	if len(msgs) > 120 {
		step = len(msgs)/120 + 1
	}
	env.Case()
	env.Cover("stream2/elements")
	for i := 0; i < len(msgs); i += step {
		m := msgs[i]
		fb, ok := m.(fhir.Base)
		if !ok {
			continue
		}
		for k, ex := range c01ElemCompiled {
			if ex == nil {
				continue
			}
			r := fx.Evaluate(env, ex, []fhir.Resource{res}, evalopts.EnvVariable("x", fb))
			if r.IsPanic() {
				env.Violatef(fx.PanicSig("C01", r), "stream2e: `%s` with %%x = a %s of %s(seed %d) => %s", c01ElemOps[k], m.ProtoReflect().Descriptor().Name(), tn, seed, r.Short())
			} else {
				env.Distinct("stream2e|" + c01ElemOps[k] + "|" + string(m.ProtoReflect().Descriptor().Name()) + "|" + r.Kind)
			}
		}
	}
}

func replayC01Elements(env *core.Env, a []json.RawMessage) {
	var tn string
	var seed uint64
	var rich bool
	json.Unmarshal(a[0], &tn)
	json.Unmarshal(a[1], &seed)
	json.Unmarshal(a[2], &rich)
	c01Elements(env, tn, seed, rich)
}

func c01Stream2e(env *core.Env) {
	n := 0
	per := env.Size(1, 12)
	for k := 0; k < per; k++ {
		for _, md := range gen.ResourceTypes() {
			n++
			if env.Mine(n) {
				c01Elements(env, string(md.Name()), env.Seed*1000+uint64(k)+500, k%2 == 0)
			}
		}
	}
}

func c01Stream2m(env *core.Env) {
	gnames, groups := backboneGroups()
	rng := env.Rng("stream2m")
	rounds := env.Size(1, 10)
	n := 0
	for k := 0; k < rounds; k++ {
		for _, gname := range gnames {
			tl := groups[gname]
			cnt := 2 + rng.Intn(2)
			var tns []string
			start := rng.Intn(len(tl))
			for i := 0; i < cnt && i < len(tl); i++ {
				tns = append(tns, tl[(start+i*(1+rng.Intn(3)))%len(tl)])
			}
			vc := rng.Intn(3) == 0
			sd := env.Seed*1000 + uint64(k)*31 + rng.Next()%1000
			n++
			if env.Mine(n) {
				c01Mixed(env, gname, tns, sd, vc)
			}
		}
	}
}

// seedSources are expressions in the style of the repository's own tests.
var seedSources = []string{
	"Patient.name.given", "Patient.name.where(use = 'official').given.first()", "Patient.telecom.where(system = 'phone').value",
	"Patient.name.given.count() > 1", "Patient.birthDate < today()", "Patient.active and Patient.deceased", "Patient.name.family & ', ' & Patient.name.given.first()",
	"Patient.name.select(given.first() + ' ' + family)", "Patient.extension('http://example.org/ext/a').value", "(1 + 2) * 3 = 9", "@2020-01-01 + 1 month", "'abc'.substring(1, 1)",
	"Patient.name.exists(family = 'Smith')", "Patient.name.all(given.exists())", "iif(Patient.active, 'a', 'b')", "Patient.contact.name.family.upper()", "Patient.descendants().count()",
	"Patient.children().exists()", "1 'mg' = 1 'mg'", "now() > @2000-01-01T00:00:00Z", "%context.id", "%ucum", "Patient.name[0].given[1]", "Patient.multipleBirth as integer", "Patient.deceased is boolean",
	"Patient.name.given.distinct().count()", "Patient.name.given.join(',')", "Patient.telecom.rank.first() div 2", "-1.abs()", "10 mod 3", "5 / 2", "'a' in ('a' | 'b')", "{}.empty()", "Patient.name.skip(1).take(1).family",
	"Patient.managingOrganization.reference", "Patient.name.intersect(Patient.name)", "Patient.name.given.exclude('Ann')", "3.14159.round()", "'1'.toInteger() + 1", "@T10:30 + 90 minutes", "today().toString().length()",
}

func mutate(src string, r *core.Rng) string {
	b := []byte(src)
	n := 1 + r.Intn(3)
	for k := 0; k < n; k++ {
		if len(b) == 0 {
			b = []byte("a")
		}
		pos := r.Intn(len(b) + 1)
		switch r.Intn(9) {
		case 0: // delete a byte
			if pos < len(b) {
				b = append(b[:pos], b[pos+1:]...)
			}
		case 1: // insert punctuation
			p := "()[]{}.,'`\"%$@+-*/&|<>=!~\\: \t\n"
			b = append(b[:pos], append([]byte{p[r.Intn(len(p))]}, b[pos:]...)...)
		case 2: // duplicate a span
			if pos < len(b) {
				end := pos + 1 + r.Intn(8)
				if end > len(b) {
					end = len(b)
				}
				span := append([]byte{}, b[pos:end]...)
				b = append(b[:end], append(span, b[end:]...)...)
			}
		case 3: // flip a bit
			if pos < len(b) {
				b[pos] ^= 1 << uint(r.Intn(8))
			}
		case 4: // insert a keyword/token
			toks := []string{" and ", " or ", " is ", " as ", " div ", " mod ", "$this", "$index", "$total", "%x", "%`a b`", "%'q'", "{}", "@2020-13", "@T25", "1e5", ".", "..", "()", "true", " implies ", "'\\u00e9'", "'\\q'", "0x1F", "1.", ".5", "@2020-02-30", "@2020-01-01T10:00:00+25:00", "99999999999", "`x`", "`", "/*", "*/", "//"}
			t := toks[r.Intn(len(toks))]
			b = append(b[:pos], append([]byte(t), b[pos:]...)...)
		case 5: // random unicode rune
			runes := []rune{0xE9, 0x20AC, 0x1F600, 0x301, 0xFEFF, 0x2028, 0, 0x7F, 0xFFFD, 0x10FFFF}
			var buf [4]byte
			l := utf8.EncodeRune(buf[:], runes[r.Intn(len(runes))])
			b = append(b[:pos], append(buf[:l:l], b[pos:]...)...)
		case 6: // truncate
			b = b[:pos]
		case 7: // swap two bytes
			if len(b) > 1 {
				q := r.Intn(len(b))
				p2 := pos % len(b)
				b[p2], b[q] = b[q], b[p2]
			}
		case 8: // raw random byte
			b = append(b[:pos], append([]byte{byte(r.Intn(256))}, b[pos:]...)...)
		}
	}
	if len(b) > 2048 {
		b = b[:2048]
	}
	return string(b)
}

func c01Stream3(env *core.Env) {
	names := funcNames()
	rng := env.Rng("stream3")
	total := env.Size(8000, 400000)
	pctx := gen.StdProgCtx(names)
	for i := 0; i < total; i++ {
		sub := rng.Fork("m")
		if !env.Mine(i) {
			continue
		}
		var base string
		switch sub.Intn(4) {
		case 0:
			base = seedSources[sub.Intn(len(seedSources))]
		case 1:
			// arbitrary bytes
			n := sub.Intn(24)
			bb := make([]byte, n)
			for k := range bb {
				bb[k] = byte(sub.Intn(256))
			}
			base = string(bb)
		case 2:
			// deep but bounded nesting
			d := 1 + sub.Intn(60)
			open := []string{"(", "iif(true,", "Patient.where(", "-", "(1+"}[sub.Intn(5)]
			cl := map[string]string{"(": ")", "iif(true,": ")", "Patient.where(": ")", "-": "", "(1+": ")"}[open]
			base = strings.Repeat(open, d) + "1" + strings.Repeat(cl, d)
		default:
			g := &gen.ProgGen{R: sub, Ctx: pctx}
			base = gen.Join(g.Gen("any", 1+sub.Intn(4)).Tokens(sub.Bool()))
		}
		src := base
		if sub.Intn(6) != 0 {
			src = mutate(base, sub)
		}
		copt := "experimental"
		if sub.Intn(5) == 0 {
			copt = compileOptSets[sub.Intn(len(compileOptSets))]
		}
		c01Source(env, "stream3", src, "", 0, false, copt, "none", 1)
		env.Cover("stream3/mutated")
	}
}

func c01Stream4(env *core.Env) {
	n := 0
	if env.Mine(n) {
		c18Fixed(env, true)
		env.Cover("stream4/patch")
	}
	types := gen.ResourceTypes()
	for k := 0; k < env.Size(1, 6); k++ {
		for i, md := range types {
			if env.Quick() && i%3 != 0 {
				continue
			}
			c18Resource(env, string(md.Name()), env.Seed*977+uint64(k), k%2 == 1, true, &n)
			env.Cover("stream4/patch")
		}
	}
}

func replayC01Patch(env *core.Env, a []json.RawMessage) {
	var c c18Case
	json.Unmarshal(a[0], &c)
	c.Totality = true
	defer env.In("patch", c)()
	c18Run(env, c)
}
