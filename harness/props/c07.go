package props

import (
	"encoding/json"
	"fmt"
	"strings"

	"github.com/verily-src/fhirpath-go/fhirpath"
	"github.com/verily-src/fhirpath-go/fhirpath/compopts"
	"github.com/verily-src/fhirpath-go/fhirpath/evalopts"
	"github.com/verily-src/fhirpath-go/fhirpath/system"
	"github.com/verily-src/fhirpath-go/fhirpath/verifharness/core"
	"github.com/verily-src/fhirpath-go/fhirpath/verifharness/fx"
)

// C07 — empty collections propagate through operators and functions.

func init() {
	core.Register(&core.Property{
		ID:         "C07",
		Exhaustive: true,
		Rule:       "exhaustive: every arithmetic/comparison/equality/type/polarity/indexer operator x operand position, and every name of the function table (base + experimental) x every arity Compile accepts x (input | each argument position), with empty supplied as `{}`, an absent element path and an empty %env collection; empty arguments also with receivers of every System / FHIR kind, and through a variable that held a value in the previous evaluation of the same source. Expected: empty input => empty (except documented aggregates); empty single-value argument => empty or error, never a value; `&` treats empty as ''. value-then-empty variables, nil and spare-capacity collections as empty forms, pinned placeholders re-detected at run time; distinct_nontrivial = distinct (operator-or-function, arity, position, empty-form) programs",
		Assumptions: []string{"unimplemented placeholder functions are excluded (C16 covers them)",
			"collection-valued / criterion arguments (where, select, all, exists, intersect, exclude, iif) are not 'single value required'",
			"functions added to the table later are probed with integer arguments"},
		Run:    runC07,
		Checks: map[string]func(*core.Env, []json.RawMessage){"prog": replayC07, "varprog": replayC07Var, "permissive": replayC07Perm},
		Threshold: func(m *core.Merged) []string {
			var r []string
			if m.Cover["func-empty-input"] < 60 {
				r = append(r, fmt.Sprintf("only %d functions probed with empty input", m.Cover["func-empty-input"]))
			}
			for _, k := range []string{"op-empty", "concat", "arg-empty", "arg-empty-other-receiver", "var-then-empty", "permissive-absent-path"} {
				if m.Cover[k] == 0 {
					r = append(r, "never observed: "+k)
				}
			}
			return r
		},
	})
}

var emptyForms = []string{"{}", "Patient.photo", "%emptyc", "Patient.maritalStatus", "%nilc", "%sparec", "%resource", "%rootResource", "%bw.entry.resource"} // (an absent repeated and an absent singular element)

// c07Prog: want = "empty" | "empty-or-error" | "str:<text>"
func c07Prog(env *core.Env, key, src, want string) {
	defer env.In("prog", key, src, want)()
	in, eo := stdInputs()
	r := fx.EvalK(env, "experimental", src, in, buildCompileOpts("experimental"), eo)
	env.Case()
	env.Distinct(key + "|" + src)
	env.SampleSpread(src, map[string]string{"program": src, "expected": want, "observed": trunc(r.Short(), 100)})
	if r.IsPanic() {
		env.Violatef(fx.PanicSig("C07", r), "`%s` => %s", src, r.Short())
		return
	}
	switch {
	case want == "empty":
		if !r.Empty() {
			kind := "value-instead-of-empty"
			if r.IsError() {
				kind = "error-instead-of-empty"
			}
			env.Violatef("C07/"+key+"/"+kind, "`%s`: empty must propagate, observed %s", src, trunc(r.Short(), 200))
		}
	case want == "empty-or-error":
		if r.IsValue() && len(r.Items) > 0 {
			env.Violatef("C07/"+key+"/fabricated-value", "`%s`: an empty required argument must give empty or an error, observed %s", src, trunc(r.Short(), 200))
		}
	case strings.HasPrefix(want, "str:"):
		it, ok := r.Single()
		if !ok || it.K != "String" || it.T != want[4:] {
			env.Violatef("C07/"+key+"/concat", "`%s`: expected String(%s), observed %s", src, want[4:], trunc(r.Short(), 200))
		}
	}
}

// c07Permissive: an absent element reached by a path compiled with the (deprecated) Permissive option is still the
// empty collection, for operators and functions alike.
func c07Permissive(env *core.Env, key, src string) {
	defer env.In("permissive", key, src)()
	in, eo := stdInputs()
	co := append(buildCompileOpts("experimental"), compopts.Permissive())
	r := fx.EvalK(env, "experimental+permissive", src, in, co, eo)
	env.Case()
	env.Cover("permissive-absent-path")
	if r.IsPanic() {
		env.Violatef(fx.PanicSig("C07", r), "`%s` compiled with Permissive => %s", src, r.Short())
		return
	}
	if !r.Empty() {
		kind := "value-instead-of-empty"
		if r.IsError() {
			kind = "error-instead-of-empty"
		}
		env.Violatef("C07/"+key+"/permissive/"+kind, "`%s` compiled with compopts.Permissive(): empty must propagate, observed %s", src, trunc(r.Short(), 200))
	}
}

func replayC07Perm(env *core.Env, a []json.RawMessage) {
	var key, src string
	json.Unmarshal(a[0], &key)
	json.Unmarshal(a[1], &src)
	c07Permissive(env, key, src)
}

func replayC07(env *core.Env, a []json.RawMessage) {
	var key, src, want string
	json.Unmarshal(a[0], &key)
	json.Unmarshal(a[1], &src)
	json.Unmarshal(a[2], &want)
	c07Prog(env, key, src, want)
}

func runC07(env *core.Env) {
	n := 0
	mine := func() bool { n++; return env.Mine(n) }
	others := map[string][]string{
		"*": {"2", "1.5"}, "/": {"2", "1.5"}, "div": {"2"}, "mod": {"2"}, "+": {"2", "'a'", "@2020-01-01", "1 'mg'"}, "-": {"2", "@2020-01-01", "1 day"},
		"<": {"2", "'a'", "@2020"}, "<=": {"2"}, ">": {"2"}, ">=": {"2"}, "=": {"2", "'a'", "true", "%name", "%multi"}, "!=": {"2", "'a'", "%names"},
	}
	for _, op := range []string{"*", "/", "div", "mod", "+", "-", "<", "<=", ">", ">=", "=", "!="} {
		// an empty operand wins over whatever the other operand is: also a multi-item collection or a complex element
		others[op] = append(others[op], "%multi", "%name", "Patient.name.given", "Patient.contact[0]")
	}
	for _, op := range []string{"*", "/", "div", "mod", "+", "-", "<", "<=", ">", ">=", "=", "!="} {
		for _, e := range emptyForms {
			for _, o := range others[op] {
				if mine() {
					c07Prog(env, "op"+op+"/left", e+" "+op+" "+o, "empty")
					env.Cover("op-empty")
				}
				if mine() {
					c07Prog(env, "op"+op+"/right", o+" "+op+" "+e, "empty")
				}
			}
			if mine() {
				c07Prog(env, "op"+op+"/both", e+" "+op+" "+emptyForms[0], "empty")
			}
		}
	}
	for _, e := range emptyForms {
		for _, t := range []string{"Integer", "System.String", "Patient", "FHIR.boolean", "Quantity"} {
			if mine() {
				c07Prog(env, "is", "("+e+") is "+t, "empty")
			}
			if mine() {
				c07Prog(env, "as", "("+e+") as "+t, "empty")
			}
		}
		if mine() {
			c07Prog(env, "polarity-", "-("+e+")", "empty")
		}
		if mine() {
			c07Prog(env, "polarity+", "+("+e+")", "empty")
		}
		if mine() {
			c07Prog(env, "index/coll", "("+e+")[0]", "empty")
		}
		if mine() {
			c07Prog(env, "index/idx", "%multi["+e+"]", "empty")
		}
		if mine() {
			c07Prog(env, "concat/left", e+" & 'a'", "str:a")
			env.Cover("concat")
		}
		if mine() {
			c07Prog(env, "concat/right", "'a' & "+e, "str:a")
		}
		if mine() {
			c07Prog(env, "concat/both", e+" & "+e, "str:")
		}
	}
	// absent elements under the Permissive option
	for _, e := range []string{"Patient.photo", "Patient.maritalStatus", "Patient.maritalStatus.text", "Patient.generalPractitioner.display", "Patient.name[0].period.start"} {
		for _, p := range []struct{ key, tmpl string }{{"path", "%s"}, {"op+", "%s + 1"}, {"op=", "%s = 1"}, {"op<", "2 < %s"}, {"polarity-", "-(%s)"}, {"index", "(%s)[0]"}, {"is", "(%s) is Integer"},
			{"fn:not", "(%s).not()"}, {"fn:toString", "(%s).toString()"}, {"fn:first", "(%s).first()"}, {"fn:length", "(%s).length()"}, {"fn:abs", "(%s).abs()"}, {"fn:where", "(%s).where(true)"}, {"fn:upper", "(%s).upper()"}} {
			if mine() {
				c07Permissive(env, p.key, fmt.Sprintf(p.tmpl, e))
			}
		}
	}
	// the empty collection arriving through a variable that held a value in an earlier evaluation
	for _, op := range []string{"*", "/", "div", "mod", "+", "-", "<", "<=", ">", ">=", "=", "!="} {
		for _, o := range others[op] {
			if mine() {
				c07VarProg(env, "op"+op+"/left-var", "%v "+op+" "+o, o, "empty")
			}
			if mine() {
				c07VarProg(env, "op"+op+"/right-var", o+" "+op+" %v", o, "empty")
			}
		}
	}
	if mine() {
		c07VarProg(env, "polarity-", "-%v", "2", "empty")
	}
	if mine() {
		c07VarProg(env, "index/idx", "%multi[%v]", "1", "empty")
	}
	// functions
	for _, t := range readTable() {
		sp := specByName(t.Name)
		if sp != nil && !sp.Impl {
			// pinned as a placeholder: skipped as long as it still answers "not yet implemented" on its
			// specification receiver; once it does something else it is a function like the others
			in, eo := stdInputs()
			pr := fx.Eval(env, callSrc(t.Name, t.Min), in, buildCompileOpts("experimental"), eo)
			if pr.Kind == "cerror" || (pr.IsError() && strings.Contains(pr.Err.Error(), "not yet implemented")) {
				continue
			}
			env.Cover("former-placeholder-now-implemented")
		}
		if sp == nil && isPlaceholder(env, t) {
			continue
		}
		aggregate := sp != nil && sp.Aggregate
		for ar := t.Min; ar <= t.Max && ar <= 4; ar++ {
			args := []string{"1", "1", "1", "1"}
			recv := "%multi"
			if sp != nil {
				args = append(append([]string{}, sp.Args...), args...)
				recv = sp.Recv
			}
			// empty input
			if !aggregate && recv != "" {
				for _, e := range emptyForms {
					if mine() {
						c07Prog(env, fmt.Sprintf("fn:%s/%d/input", t.Name, ar), fmt.Sprintf("(%s).%s(%s)", e, t.Name, strings.Join(args[:ar], ", ")), "empty")
					}
				}
				if env.Shard == 0 && ar == t.Min {
					env.Cover("func-empty-input")
				}
			} else if env.Shard == 0 && ar == t.Min {
				env.Cover("func-empty-input")
			}
			// a variable as input / argument: a value first, then empty
			if !aggregate && recv != "" && !strings.Contains(recv, "$") {
				if mine() {
					c07VarProg(env, fmt.Sprintf("fn:%s/%d/input-var", t.Name, ar), fmt.Sprintf("%%v.%s(%s)", t.Name, strings.Join(args[:ar], ", ")), recv, "empty")
				}
			}
			for pos := 0; pos < ar; pos++ {
				single := sp == nil
				if sp != nil {
					for _, p := range sp.SingleArg {
						if p == pos {
							single = true
						}
					}
				}
				if !single || strings.Contains(args[pos], "$") {
					continue
				}
				a2 := append([]string{}, args[:ar]...)
				a2[pos] = "%v"
				call := t.Name + "(" + strings.Join(a2, ", ") + ")"
				if recv != "" {
					call = recv + "." + call
				}
				if mine() {
					c07VarProg(env, fmt.Sprintf("fn:%s/%d/arg%d-var", t.Name, ar, pos), call, args[pos], "empty-or-error")
				}
			}
			// empty argument at each position
			for pos := 0; pos < ar; pos++ {
				single := sp == nil
				if sp != nil {
					for _, p := range sp.SingleArg {
						if p == pos {
							single = true
						}
					}
				}
				for _, e := range emptyForms {
					a2 := append([]string{}, args[:ar]...)
					a2[pos] = e
					call := t.Name + "(" + strings.Join(a2, ", ") + ")"
					if recv != "" {
						call = recv + "." + call
					}
					if !mine() {
						continue
					}
					want := "total-only"
					if single {
						want = "empty-or-error"
					}
					c07Prog(env, fmt.Sprintf("fn:%s/%d/arg%d", t.Name, ar, pos), call, want)
					env.Cover("arg-empty")
				}
				// the same with receivers of every kind: whether the argument is looked at must not depend on the input's type
				if recv != "" && !strings.Contains(recv, "$") {
					for _, rc := range []string{"5", "1.5", "true", "'abc'", "'5'", "(5 'mg')", "@2020-01-01", "@2020-01-01T10:00:00Z", "@T10:30", "%fint", "%fdec", "%fstr", "%fqty", "%name"} {
						if rc == recv {
							continue
						}
						a2 := append([]string{}, args[:ar]...)
						a2[pos] = emptyForms[(pos+len(rc))%len(emptyForms)]
						if !mine() {
							continue
						}
						want := "total-only"
						if single {
							want = "empty-or-error"
						}
						c07Prog(env, fmt.Sprintf("fn:%s/%d/arg%d/other-receiver", t.Name, ar, pos), rc+"."+t.Name+"("+strings.Join(a2, ", ")+")", want)
						env.Cover("arg-empty-other-receiver")
					}
				}
			}
		}
	}
}

// c07VarProg: `src` mentions %v; it is evaluated with a well-typed value first and with the empty collection
// afterwards (the same source, hence - through fx.EvalK - also the same compiled expression).
func c07VarProg(env *core.Env, key, src, valueSrc, want string) {
	defer env.In("varprog", key, src, valueSrc, want)()
	in, eo := stdInputs()
	vr := fx.E(env, valueSrc)
	if !vr.IsValue() || len(vr.Raw) != 1 {
		env.Skip("argument-not-a-single-literal-value")
		return
	}
	env.Case()
	env.Cover("var-then-empty")
	first := fx.EvalK(env, "experimental", src, in, buildCompileOpts("experimental"), append(append([]fhirpath.EvaluateOption{}, eo...), evalopts.EnvVariable("v", vr.Raw[0])))
	if first.IsPanic() {
		env.Violatef(fx.PanicSig("C07", first), "`%s` with %%v = %s => %s", src, valueSrc, first.Short())
		return
	}
	r := fx.EvalK(env, "experimental", src, in, buildCompileOpts("experimental"), append(append([]fhirpath.EvaluateOption{}, eo...), evalopts.EnvVariable("v", system.Collection{})))
	if r.IsPanic() {
		env.Violatef(fx.PanicSig("C07", r), "`%s` with %%v = {} => %s", src, r.Short())
		return
	}
	switch want {
	case "empty":
		if !r.Empty() {
			kind := "value-instead-of-empty"
			if r.IsError() {
				kind = "error-instead-of-empty"
			}
			env.Violatef("C07/"+key+"/"+kind, "`%s` with %%v = {} (after %%v = %s gave %s): empty must propagate, observed %s", src, valueSrc, trunc(first.Short(), 60), trunc(r.Short(), 200))
		}
	case "empty-or-error":
		if r.IsValue() && len(r.Items) > 0 {
			env.Violatef("C07/"+key+"/fabricated-value", "`%s` with %%v = {} (after %%v = %s gave %s): an empty required argument must give empty or an error, observed %s", src, valueSrc, trunc(first.Short(), 60), trunc(r.Short(), 200))
		}
	}
}

func replayC07Var(env *core.Env, a []json.RawMessage) {
	var key, src, vs, want string
	json.Unmarshal(a[0], &key)
	json.Unmarshal(a[1], &src)
	json.Unmarshal(a[2], &vs)
	json.Unmarshal(a[3], &want)
	c07VarProg(env, key, src, vs, want)
}

// isPlaceholder: a table entry unknown to the specification list is treated as unimplemented
// if calling it with no arguments reports "not yet implemented".
func isPlaceholder(env *core.Env, t tableEntry) bool {
	in, eo := stdInputs()
	r := fx.Eval(env, "%multi."+t.Name+"()", in, buildCompileOpts("experimental"), eo)
	return r.IsError() && strings.Contains(r.Err.Error(), "not yet implemented")
}
