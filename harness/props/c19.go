package props

import (
	"errors"
	"encoding/json"
	"fmt"
	"strings"

	dtpb "github.com/google/fhir/go/proto/google/fhir/proto/r4/core/datatypes_go_proto"
	"github.com/verily-src/fhirpath-go/fhirpath"
	"github.com/verily-src/fhirpath-go/fhirpath/evalopts"
	"github.com/verily-src/fhirpath-go/internal/fhir"
	"github.com/verily-src/fhirpath-go/fhirpath/verifharness/core"
	"github.com/verily-src/fhirpath-go/fhirpath/verifharness/fx"
	"github.com/verily-src/fhirpath-go/fhirpath/verifharness/gen"
	"github.com/verily-src/fhirpath-go/internal/element/canonical"
	"github.com/verily-src/fhirpath-go/internal/element/reference"
	"github.com/verily-src/fhirpath-go/internal/resource"
	"google.golang.org/protobuf/proto"
	"google.golang.org/protobuf/reflect/protoreflect"
)

// C19 — reference and identity parsing and formatting are mutual inverses.

func init() {
	core.Register(&core.Property{
		ID:   "C19",
		Rule: "all 146 resource type names x ids/versions over the FHIR id alphabet (length 1..64, plus empty, 65 and illegal characters) x service base URLs {none, http/https, port, nested path, trailing slash} x forms {relative, versioned, absolute, fragment, '#', URN uuid/oid, canonical with |version and #fragment, ''} and byte-mutated neighbours: format->parse returns the components; parse->format->parse is a fixpoint (identical to the input without redundant slashes); rejected strings give errors, never a panic; strong (typed) and weak (uri) references naming one resource give equal LiteralInfo/Identity, reference.Is = true and the same FHIRPath `reference` string; weak references carrying Reference.type (consistent, inconsistent, absent; on REST URLs, URNs and fragments) parsed in sequence on one uri with the bare string re-parsed in between (what is parsed from a reference depends on that reference alone); Is is reflexive/symmetric/transitive on generated triples; canonical url|version#fragment splits and reassembles unchanged. fragment references read through the FHIRPath `reference` element; distinct_nontrivial = distinct (form, type, base-url class, id class, version present) cases",
		Assumptions: []string{"an absolute URL whose path does not match Type/id[/_history/v] may be accepted as a non-REST URI or rejected; it must never yield an identity"},
		Run:    runC19,
		Checks: map[string]func(*core.Env, []json.RawMessage){"uri": replayC19URI, "ref": replayC19Ref, "canon": replayC19Canon, "weak": replayC19Weak, "entry": func(env *core.Env, a []json.RawMessage) {
			var u string
			json.Unmarshal(a[0], &u)
			c19RefEntryPoints(env, u)
		}, "ctor": func(env *core.Env, a []json.RawMessage) {
			var tn, id, ver, base string
			json.Unmarshal(a[0], &tn)
			json.Unmarshal(a[1], &id)
			json.Unmarshal(a[2], &ver)
			json.Unmarshal(a[3], &base)
			c19Constructors(env, tn, id, ver, base)
		}, "fragread": func(env *core.Env, a []json.RawMessage) {
			var f string
			json.Unmarshal(a[0], &f)
			c19FragmentRead(env, f)
		}},
		Threshold: func(m *core.Merged) []string {
			var r []string
			for _, k := range []string{"form:relative", "form:versioned", "form:absolute", "form:fragment", "form:urn", "form:rejected", "form:empty", "strong-weak", "is-law", "canonical", "fhirpath-reference", "typed-constructor", "mutated", "weak-typed"} {
				if m.Cover[k] == 0 {
					r = append(r, "never observed: "+k)
				}
			}
			if m.Cover["types"] < 146 {
				r = append(r, fmt.Sprintf("only %d resource types exercised", m.Cover["types"]))
			}
			return r
		},
	})
}

func isFHIRID(s string) bool {
	if len(s) < 1 || len(s) > 64 {
		return false
	}
	for _, c := range s {
		if !(c >= 'A' && c <= 'Z' || c >= 'a' && c <= 'z' || c >= '0' && c <= '9' || c == '-' || c == '.') {
			return false
		}
	}
	return true
}

type c19Expect struct {
	Class   string // identity | fragment | nonrest | reject | reject-or-nonrest
	Type    string
	ID      string
	Version string
	Base    string
	Frag    string
}

// c19URI checks LiteralInfoFromURI / IdentityFrom* on one string against the model's expectation.
func c19URI(env *core.Env, uri string, exp c19Expect, canonicalForm bool) {
	defer env.In("uri", uri, exp, canonicalForm)()
	env.Case()
	var lit *reference.LiteralInfo
	var err error
	out := env.Guard("LiteralInfoFromURI "+uri, func() { lit, err = reference.LiteralInfoFromURI(uri) })
	env.Eval(1)
	cls := exp.Class
	if out.Panicked || out.Dead {
		env.Violatef("C19/panic@"+out.Site+"/"+core.NormMsg(out.PanicMsg), "LiteralInfoFromURI(%q) panicked: %s", uri, out.PanicMsg)
		return
	}
	switch cls {
	case "reject":
		if err == nil {
			env.Violatef("C19/parse/accepted-invalid", "LiteralInfoFromURI(%q) must be rejected, returned %q", uri, lit.URIString())
		}
		return
	case "reject-or-nonrest":
		if err == nil {
			if _, has := lit.Identity(); has {
				env.Violatef("C19/parse/identity-from-invalid", "LiteralInfoFromURI(%q) produced an identity from an invalid id/type", uri)
			}
		}
		return
	}
	if err != nil {
		env.Violatef("C19/parse/rejected-valid/"+cls, "LiteralInfoFromURI(%q) rejected a valid %s reference: %v", uri, cls, err)
		return
	}
	switch cls {
	case "identity":
		id, ok := lit.Identity()
		if !ok {
			env.Violatef("C19/parse/no-identity", "LiteralInfoFromURI(%q): no identity", uri)
			return
		}
		v, _ := id.VersionID()
		t, hasT := lit.Type()
		if string(id.Type()) != exp.Type || id.ID() != exp.ID || v != exp.Version || lit.ServiceBaseURL() != exp.Base || !hasT || string(t) != exp.Type {
			env.Violatef("C19/parse/wrong-components", "LiteralInfoFromURI(%q) = {type %s id %s version %q base %q}, expected {%s %s %q %q}", uri, id.Type(), id.ID(), v, lit.ServiceBaseURL(), exp.Type, exp.ID, exp.Version, exp.Base)
			return
		}
	case "fragment":
		f, ok := lit.FragmentID()
		if !ok || f != exp.Frag {
			env.Violatef("C19/parse/wrong-fragment", "LiteralInfoFromURI(%q): fragment %q ok=%v, expected %q", uri, f, ok, exp.Frag)
			return
		}
	case "nonrest":
		n, ok := lit.NonRESTURI()
		if !ok || n != uri {
			env.Violatef("C19/parse/wrong-nonrest", "LiteralInfoFromURI(%q): non-REST URI %q ok=%v", uri, n, ok)
			return
		}
		if _, has := lit.Identity(); has {
			env.Violatef("C19/parse/identity-from-urn", "LiteralInfoFromURI(%q) produced an identity", uri)
		}
		if t, has := lit.Type(); has {
			env.Violatef("C19/parse/type-from-urn", "LiteralInfoFromURI(%q) reports the resource type %q although the string names none", uri, t)
		}
	}
	if cls == "fragment" {
		if t, has := lit.Type(); has {
			env.Violatef("C19/parse/type-from-fragment", "LiteralInfoFromURI(%q) reports the resource type %q although the string names none", uri, t)
		}
	}
	// format and fixpoint
	var f string
	var lit2 *reference.LiteralInfo
	var err2 error
	out = env.Guard("URIString/reparse "+uri, func() {
		f = lit.URIString()
		lit2, err2 = reference.LiteralInfoFromURI(f)
	})
	env.Eval(2)
	if out.Panicked || out.Dead {
		env.Violatef("C19/panic@"+out.Site+"/format", "URIString/re-parse of %q panicked: %s", uri, out.PanicMsg)
		return
	}
	if canonicalForm && f != uri {
		env.Violatef("C19/format/not-identical/"+cls, "format(parse(%q)) = %q", uri, f)
	}
	if err2 != nil {
		env.Violatef("C19/format/own-output-rejected/"+cls, "parse(format(parse(%q))) fails on %q: %v", uri, f, err2)
		return
	}
	if f2 := lit2.URIString(); f2 != f {
		env.Violatef("C19/format/not-a-fixpoint/"+cls, "%q formats as %q which formats as %q", uri, f, f2)
	}
	if cls != "identity" {
		return
	}
	// the other parsers agree
	rel := exp.Type + "/" + exp.ID
	if exp.Version != "" {
		rel += "/_history/" + exp.Version
	}
	check := func(name string, fn func() (*resource.Identity, error), wantErr bool) {
		var id *resource.Identity
		var e error
		o := env.Guard(name+" "+uri, func() { id, e = fn() })
		env.Eval(1)
		if o.Panicked || o.Dead {
			env.Violatef("C19/panic@"+o.Site+"/"+name, "%s(%q) panicked: %s", name, uri, o.PanicMsg)
			return
		}
		if wantErr {
			if e == nil {
				env.Violatef("C19/"+name+"/accepted", "%s(%q) must fail", name, uri)
			}
			return
		}
		if e != nil || id == nil {
			env.Violatef("C19/"+name+"/rejected", "%s(%q): %v", name, uri, e)
			return
		}
		v, _ := id.VersionID()
		if string(id.Type()) != exp.Type || id.ID() != exp.ID || v != exp.Version {
			env.Violatef("C19/"+name+"/wrong-components", "%s(%q) = %s, expected %s", name, uri, id.String(), rel)
		}
		if id.String() != rel || id.PreferRelativeVersionedURIString() != rel {
			env.Violatef("C19/identity-format", "Identity formats as %q / %q, expected %q", id.String(), id.PreferRelativeVersionedURIString(), rel)
		}
	}
	check("IdentityFromURL", func() (*resource.Identity, error) { return reference.IdentityFromURL(uri) }, false)
	check("IdentityFromAbsoluteURL", func() (*resource.Identity, error) { return reference.IdentityFromAbsoluteURL(uri) }, exp.Base == "")
	if exp.Base == "" {
		check("IdentityFromRelativeURI", func() (*resource.Identity, error) { return reference.IdentityFromRelativeURI(uri) }, false)
	}
	check("NewIdentity", func() (*resource.Identity, error) { return resource.NewIdentity(exp.Type, exp.ID, exp.Version) }, false)
	if exp.Version == "" {
		check("NewIdentityFromURL", func() (*resource.Identity, error) { return resource.NewIdentityFromURL(uri) }, false)
	} else if exp.Base != "" {
		check("NewIdentityFromHistoryURL", func() (*resource.Identity, error) { return resource.NewIdentityFromHistoryURL(uri) }, false)
	}
	// re-basing: WithServiceBaseURL then format / parse
	beforeRebase := lit.URIString()
	defer func() {
		if now := lit.URIString(); now != beforeRebase {
			env.Violatef("C19/rebase/receiver-changed", "parse(%q) formatted as %q; after deriving re-based literals from it it formats as %q", uri, beforeRebase, now)
		}
	}()
	for _, nb := range []string{"https://other.example/fhir", "", "http://third.example/x"} {
		var l3 *reference.LiteralInfo
		var e3 error
		var s3 string
		o := env.Guard("WithServiceBaseURL "+uri, func() {
			l3, e3 = lit.WithServiceBaseURL(nb)
			if e3 == nil {
				s3 = l3.URIString()
			}
		})
		env.Eval(1)
		if o.Panicked || o.Dead {
			env.Violatef("C19/panic@"+o.Site+"/WithServiceBaseURL", "WithServiceBaseURL(%q) on %q panicked: %s", nb, uri, o.PanicMsg)
			continue
		}
		want := rel
		if nb != "" {
			want = nb + "/" + rel
		}
		if e3 != nil || s3 != want {
			env.Violatef("C19/rebase", "parse(%q).WithServiceBaseURL(%q) formats as %q (err %v), expected %q", uri, nb, s3, e3, want)
		}
	}
}

func replayC19URI(env *core.Env, a []json.RawMessage) {
	var uri string
	var exp c19Expect
	var cf bool
	json.Unmarshal(a[0], &uri)
	json.Unmarshal(a[1], &exp)
	json.Unmarshal(a[2], &cf)
	c19URI(env, uri, exp, cf)
}

// strongRef builds a typed reference through the oneof field of the given resource type (harness-side, by schema).
func strongRef(tn, id, version string) *dtpb.Reference {
	r := &dtpb.Reference{}
	m := r.ProtoReflect()
	od := m.Descriptor().Oneofs().ByName("reference")
	for i := 0; i < od.Fields().Len(); i++ {
		f := od.Fields().Get(i)
		n := string(f.Name())
		if !strings.HasSuffix(n, "_id") {
			continue
		}
		if snakeCamel(strings.TrimSuffix(n, "_id")) == tn {
			rid := &dtpb.ReferenceId{Value: id}
			if version != "" {
				rid.History = &dtpb.Id{Value: version}
			}
			m.Set(f, protoreflect.ValueOfMessage(rid.ProtoReflect()))
			return r
		}
	}
	return nil
}

func snakeCamel(s string) string {
	parts := strings.Split(s, "_")
	for i, p := range parts {
		if p != "" {
			parts[i] = strings.ToUpper(p[:1]) + p[1:]
		}
	}
	return strings.Join(parts, "")
}

// c19Ref: strong vs weak references naming the same resource.
func c19Ref(env *core.Env, tn, id, version string) {
	defer env.In("ref", tn, id, version)()
	env.Case()
	env.Cover("strong-weak")
	rel := tn + "/" + id
	if version != "" {
		rel += "/_history/" + version
	}
	strong := strongRef(tn, id, version)
	if strong == nil {
		env.Violatef("C19/harness/no-oneof-field", "no typed reference field for %s in the schema", tn)
		return
	}
	weak := &dtpb.Reference{Reference: &dtpb.Reference_Uri{Uri: &dtpb.String{Value: rel}}}
	abs := &dtpb.Reference{Reference: &dtpb.Reference_Uri{Uri: &dtpb.String{Value: "https://h.example/fhir/" + rel}}}
	other := strongRef(tn, id+"x", version)
	var ls, lw *reference.LiteralInfo
	var is, iw, ia *resource.Identity
	var e1, e2, e3, e4, e5 error
	var isSW, isWS, isSS, isSO, isSA bool
	out := env.Guard("LiteralInfoOf/IdentityOf/Is "+rel, func() {
		ls, e1 = reference.LiteralInfoOf(strong)
		lw, e2 = reference.LiteralInfoOf(weak)
		is, e3 = reference.IdentityOf(strong)
		iw, e4 = reference.IdentityOf(weak)
		ia, e5 = reference.IdentityOf(abs)
		isSW, isWS, isSS = reference.Is(strong, weak), reference.Is(weak, strong), reference.Is(strong, strong)
		isSO = reference.Is(strong, other)
		isSA = reference.Is(strong, abs)
	})
	env.Eval(8)
	if out.Panicked || out.Dead {
		env.Violatef("C19/panic@"+out.Site+"/strong-weak", "strong/weak reference %s panicked: %s", rel, out.PanicMsg)
		return
	}
	if e1 != nil || e2 != nil || e3 != nil || e4 != nil || e5 != nil {
		env.Violatef("C19/strong-weak/error", "%s: LiteralInfoOf(strong)=%v LiteralInfoOf(weak)=%v IdentityOf(strong)=%v IdentityOf(weak)=%v IdentityOf(abs)=%v", rel, e1, e2, e3, e4, e5)
		return
	}
	if ls.URIString() != rel || lw.URIString() != rel {
		env.Violatef("C19/strong-weak/format", "%s: strong formats as %q, weak as %q", rel, ls.URIString(), lw.URIString())
	}
	if !is.Equal(iw) || is.String() != rel || !is.Equal(ia) {
		env.Violatef("C19/strong-weak/identity-differs", "%s: IdentityOf(strong)=%s IdentityOf(weak)=%s IdentityOf(absolute)=%s", rel, is, iw, ia)
	}
	st, _ := ls.Type()
	wt, _ := lw.Type()
	if string(st) != tn || string(wt) != tn {
		env.Violatef("C19/strong-weak/type", "%s: types %q / %q", rel, st, wt)
	}
	if !isSW || !isWS || !isSS || !isSA {
		env.Violatef("C19/is/same-resource-not-same", "%s: Is(strong,weak)=%v Is(weak,strong)=%v Is(strong,strong)=%v Is(strong,absolute)=%v", rel, isSW, isWS, isSS, isSA)
	}
	if isSO {
		env.Violatef("C19/is/different-id-same", "%s: Is(strong, strong-with-other-id) = true", rel)
	}
	// FHIRPath `reference`
	env.Cover("fhirpath-reference")
	a := fx.Eval(env, "%r.reference", nil, nil, append(gen.EnvOpts(nil), evalopts.EnvVariable("r", strong)))
	b := fx.Eval(env, "%r.reference", nil, nil, append(gen.EnvOpts(nil), evalopts.EnvVariable("r", weak)))
	getStr := func(r fx.Res) (string, bool) {
		if !r.IsValue() || len(r.Raw) != 1 {
			return "", false
		}
		s, ok := r.Raw[0].(interface{ GetValue() string })
		if !ok {
			return "", false
		}
		return s.GetValue(), true
	}
	for _, ty := range []string{tn, "http://hl7.org/fhir/StructureDefinition/" + tn, "Group", "NotAType", ""} {
		st := proto.Clone(strong).(*dtpb.Reference)
		if ty != "" {
			st.Type = &dtpb.Uri{Value: ty}
		}
		rt := fx.Eval(env, "%r.reference", nil, nil, append(gen.EnvOpts(nil), evalopts.EnvVariable("r", st)))
		if s, ok := getStr(rt); !ok || s != rel {
			env.Violatef("C19/fhirpath-reference/strong-with-type", "%s: `reference` of the strong reference with type %q = %s", rel, ty, trunc(rt.Short(), 80))
		}
	}
	sa, ok1 := getStr(a)
	sb, ok2 := getStr(b)
	if !ok1 || !ok2 || sa != rel || sb != rel {
		env.Violatef("C19/fhirpath-reference", "%s: `reference` of the strong reference = %s, of the weak one = %s", rel, trunc(a.Short(), 80), trunc(b.Short(), 80))
	}
	// constructors
	env.Cover("typed-constructor")
	var typed *dtpb.Reference
	var te error
	out = env.Guard("reference.Typed "+rel, func() { typed, te = reference.Typed(resource.Type(tn), id) })
	env.Eval(1)
	if out.Panicked || out.Dead {
		env.Violatef("C19/panic@"+out.Site+"/Typed", "reference.Typed(%s,%s) panicked: %s", tn, id, out.PanicMsg)
		return
	}
	if te != nil {
		env.Violatef("C19/typed-constructor/error", "reference.Typed(%s, %s): %v", tn, id, te)
		return
	}
	if version == "" {
		var ti *resource.Identity
		var e error
		out = env.Guard("IdentityOf(Typed) "+rel, func() { ti, e = reference.IdentityOf(typed) })
		if out.Panicked || e != nil || ti == nil || ti.String() != rel {
			env.Violatef("C19/typed-constructor/wrong", "reference.Typed(%s, %s) has identity %v (err %v, panic %v)", tn, id, ti, e, out.PanicMsg)
		}
	}
}

func replayC19Ref(env *core.Env, a []json.RawMessage) {
	var tn, id, v string
	json.Unmarshal(a[0], &tn)
	json.Unmarshal(a[1], &id)
	json.Unmarshal(a[2], &v)
	c19Ref(env, tn, id, v)
}

func c19Canon(env *core.Env, url, version, fragment string) {
	defer env.In("canon", url, version, fragment)()
	env.Case()
	env.Cover("canonical")
	text := url
	if version != "" {
		text += "|" + version
	}
	if fragment != "" {
		text += "#" + fragment
	}
	var ci *resource.CanonicalIdentity
	var err error
	var built *dtpb.Canonical
	out := env.Guard("canonical "+text, func() {
		var opts []canonical.Option
		if version != "" {
			opts = append(opts, canonical.WithVersion(version))
		}
		if fragment != "" {
			opts = append(opts, canonical.WithFragment(fragment))
		}
		built = canonical.New(url, opts...)
		ci, err = canonical.IdentityFromReference(&dtpb.Canonical{Value: text})
	})
	env.Eval(2)
	if out.Panicked || out.Dead {
		env.Violatef("C19/panic@"+out.Site+"/canonical", "canonical %q panicked: %s", text, out.PanicMsg)
		return
	}
	if url == "" {
		if err == nil {
			env.Violatef("C19/canonical/accepted-without-url", "IdentityFromReference(%q) must fail", text)
		}
		return
	}
	if built.GetValue() != text {
		env.Violatef("C19/canonical/build", "canonical.New(%q, version %q, fragment %q) = %q", url, version, fragment, built.GetValue())
	}
	// the options in the other order, and an option given twice (the last one wins or both are equal): same text
	if version != "" && fragment != "" {
		for name, opts := range map[string][]canonical.Option{
			"fragment-first":   {canonical.WithFragment(fragment), canonical.WithVersion(version)},
			"version-repeated": {canonical.WithVersion(version), canonical.WithFragment(fragment), canonical.WithVersion(version)},
		} {
			var b2 *dtpb.Canonical
			o2 := env.Guard("canonical.New "+name, func() { b2 = canonical.New(url, opts...) })
			env.Eval(1)
			if o2.Panicked || o2.Dead {
				env.Violatef("C19/panic@"+o2.Site+"/canonical", "canonical.New(%q, %s) panicked: %s", url, name, o2.PanicMsg)
			} else if b2.GetValue() != text {
				env.Violatef("C19/canonical/build/"+name, "canonical.New(%q, options %s: version %q, fragment %q) = %q, expected %q", url, name, version, fragment, b2.GetValue(), text)
			}
		}
	}
	if err != nil {
		env.Violatef("C19/canonical/rejected", "IdentityFromReference(%q): %v", text, err)
		return
	}
	if ci.Url != url || ci.Version != version || ci.Fragment != fragment {
		env.Violatef("C19/canonical/split", "IdentityFromReference(%q) = {url %q version %q fragment %q}", text, ci.Url, ci.Version, ci.Fragment)
		return
	}
	if ci.String() != text {
		env.Violatef("C19/canonical/reassemble", "%q reassembles as %q", text, ci.String())
	}
}

func replayC19Canon(env *core.Env, a []json.RawMessage) {
	var u, v, f string
	json.Unmarshal(a[0], &u)
	json.Unmarshal(a[1], &v)
	json.Unmarshal(a[2], &f)
	c19Canon(env, u, v, f)
}

// c19FragmentRead: the FHIRPath `reference` element of a fragment reference reads back the literal that
// LiteralInfoOf formats, whichever oneof member (explicit fragment, or uri holding "#...") carries it.
func c19FragmentRead(env *core.Env, frag string) {
	defer env.In("fragread", frag)()
	env.Case()
	env.Cover("fhirpath-reference-fragment")
	want := "#" + frag
	forms := map[string]*dtpb.Reference{
		"fragment-member": {Reference: &dtpb.Reference_Fragment{Fragment: &dtpb.String{Value: frag}}},
		"uri-member":      {Reference: &dtpb.Reference_Uri{Uri: &dtpb.String{Value: want}}},
		"fragment-member-with-display": {Reference: &dtpb.Reference_Fragment{Fragment: &dtpb.String{Value: frag}}, Display: &dtpb.String{Value: "container"}},
	}
	for name, ref := range forms {
		var lit *reference.LiteralInfo
		var err error
		out := env.Guard("LiteralInfoOf fragment", func() { lit, err = reference.LiteralInfoOf(ref) })
		if out.Panicked || out.Dead {
			env.Violatef("C19/panic@"+out.Site+"/fragment", "LiteralInfoOf(%s %q) panicked: %s", name, want, out.PanicMsg)
			continue
		}
		if err != nil || lit == nil {
			continue // (whether a literal is accepted is decided by the parse checks)
		}
		p := gen.StdPatient()
		p.ManagingOrganization = ref
		for _, q := range []struct {
			src string
			in  []fhir.Resource
			eo  []fhirpath.EvaluateOption
		}{
			{"%r.reference", nil, []fhirpath.EvaluateOption{evalopts.EnvVariable("r", ref)}},
			{"Patient.managingOrganization.reference", []fhir.Resource{p}, nil},
			{"Patient.managingOrganization.children().where($this is string and $this.startsWith('#'))", []fhir.Resource{p}, nil},
		} {
			r := fx.Eval(env, q.src, q.in, nil, q.eo)
			got := ""
			ok := r.IsValue() && len(r.Raw) == 1
			if ok {
				s, isStr := r.Raw[0].(interface{ GetValue() string })
				ok = isStr
				if isStr {
					got = s.GetValue()
				}
			}
			if !ok || got != lit.URIString() || got != want {
				env.Violatef("C19/fhirpath-reference/fragment", "%s %q: LiteralInfoOf formats %q but `%s` = %s", name, want, lit.URIString(), q.src, trunc(r.Short(), 80))
			}
		}
	}
}

// c19Constructors: the formatting direction through every constructor, parsed back.
func c19Constructors(env *core.Env, tn, id, ver, base string) {
	defer env.In("ctor", tn, id, ver, base)()
	env.Case()
	env.Cover("constructors")
	rel := tn + "/" + id
	relv := rel
	if ver != "" {
		relv = rel + "/_history/" + ver
	}
	bad := func(sig, format string, a ...any) { env.Violatef("C19/constructors/"+sig, "%s: "+format, append([]any{relv}, a...)...) }
	out := env.Guard("constructors "+relv, func() {
		ident, err := resource.NewIdentity(tn, id, ver)
		if err != nil || ident == nil {
			bad("new-identity", "NewIdentity(%q, %q, %q): %v", tn, id, ver, err)
			return
		}
		plain, _ := resource.NewIdentity(tn, id, "")
		// components and formats
		gv, hasV := ident.VersionID()
		if string(ident.Type()) != tn || ident.ID() != id || gv != ver || hasV != (ver != "") {
			bad("components", "Type %q ID %q VersionID %q,%v", ident.Type(), ident.ID(), gv, hasV)
		}
		rv, okv := ident.RelativeVersionedURIString()
		rvu, okvu := ident.RelativeVersionedURI()
		if ident.RelativeURIString() != rel || ident.RelativeURI().GetValue() != rel || okv != (ver != "") || okvu != okv || (okv && (rv != relv || rvu.GetValue() != relv)) || (!okv && (rv != "" || rvu != nil)) ||
			ident.PreferRelativeVersionedURIString() != relv || ident.PreferRelativeVersionedURI().GetValue() != relv || ident.String() != relv {
			bad("format", "RelativeURIString %q RelativeVersionedURIString %q,%v PreferRelativeVersionedURIString %q String %q", ident.RelativeURIString(), rv, okv, ident.PreferRelativeVersionedURIString(), ident.String())
		}
		// derived identities; the original is not changed by deriving
		u := ident.Unversioned()
		w := ident.WithNewVersion("v2")
		wv, _ := w.VersionID()
		if _, has := u.VersionID(); has || !u.Equal(plain) || wv != "v2" || w.ID() != id || string(w.Type()) != tn || ident.String() != relv || !ident.Equal(ident) || (ver != "" && (ident.Equal(u) || u.Equal(ident))) || ident.Equal(w) {
			bad("derived", "Unversioned %s, WithNewVersion(v2) %s, original afterwards %s", u, w, ident)
		}
		if w2 := w.WithNewVersion(ver); !w2.Equal(ident) || w2.String() != relv {
			bad("derived", "WithNewVersion(v2).WithNewVersion(%q) = %s", ver, w2)
		}
		// derived identities format, parse and build references from their own components (the original has been formatted above)
		for _, d := range []struct {
			name string
			id   *resource.Identity
			want string
		}{{"Unversioned", u, rel}, {"WithNewVersion(v2)", w, rel + "/_history/v2"}, {"Unversioned.WithNewVersion(v3)", u.WithNewVersion("v3"), rel + "/_history/v3"}, {"WithNewVersion(v2).Unversioned", w.Unversioned(), rel}} {
			dv, dok := d.id.RelativeVersionedURIString()
			if d.id.String() != d.want || d.id.PreferRelativeVersionedURIString() != d.want || d.id.RelativeURIString() != rel || dok != (d.want != rel) || (dok && dv != d.want) {
				bad("derived-format", "%s of %s formats as %q / %q / %q,%v, expected %q", d.name, relv, d.id.String(), d.id.PreferRelativeVersionedURIString(), dv, dok, d.want)
			}
			if back, err := reference.IdentityFromURL(d.id.PreferRelativeVersionedURIString()); err != nil || !back.Equal(d.id) {
				bad("derived-format", "%s of %s: format then parse gives %s, %v", d.name, relv, back, err)
			}
			dref := reference.TypedFromIdentity(d.id)
			if got, err := reference.IdentityOf(dref); err != nil || !got.Equal(d.id) || !reference.Is(dref, reference.Weak(resource.Type(tn), d.want)) {
				bad("derived-format", "%s of %s: TypedFromIdentity names %s, %v", d.name, relv, got, err)
			}
		}
		if ident.String() != relv {
			bad("derived", "the original formats as %q after deriving from it", ident.String())
		}
		// parsed back by every parser
		urls := []string{relv}
		if base != "" {
			urls = append(urls, base+"/"+relv)
		}
		for _, url := range urls {
			if got, err := reference.IdentityFromURL(url); err != nil || !got.Equal(ident) {
				bad("parse-back/IdentityFromURL", "IdentityFromURL(%q) = %s, %v", url, got, err)
			}
			if url == relv {
				if got, err := reference.IdentityFromRelativeURI(url); err != nil || !got.Equal(ident) {
					bad("parse-back/IdentityFromRelativeURI", "IdentityFromRelativeURI(%q) = %s, %v", url, got, err)
				}
				if _, err := reference.IdentityFromAbsoluteURL(url); err == nil {
					bad("parse-back/IdentityFromAbsoluteURL", "IdentityFromAbsoluteURL(%q) accepts a relative reference", url)
				}
			} else {
				if got, err := reference.IdentityFromAbsoluteURL(url); err != nil || !got.Equal(ident) {
					bad("parse-back/IdentityFromAbsoluteURL", "IdentityFromAbsoluteURL(%q) = %s, %v", url, got, err)
				}
				if ver != "" {
					if got, err := resource.NewIdentityFromHistoryURL(url); err != nil || !got.Equal(ident) {
						bad("parse-back/NewIdentityFromHistoryURL", "NewIdentityFromHistoryURL(%q) = %s, %v", url, got, err)
					}
				}
			}
			if ver == "" {
				if got, err := resource.NewIdentityFromURL(url); err != nil || !got.Equal(ident) {
					bad("parse-back/NewIdentityFromURL", "NewIdentityFromURL(%q) = %s, %v", url, got, err)
				}
			}
		}
		// references built from the identity
		strong := reference.TypedFromIdentity(ident)
		if got, err := reference.IdentityOf(strong); err != nil || !got.Equal(ident) || strong.GetUri() != nil {
			bad("typed-from-identity", "IdentityOf(TypedFromIdentity(%s)) = %s, %v (uri member %v)", ident, got, err, strong.GetUri())
		}
		if lit, err := reference.LiteralInfoOf(strong); err != nil || lit.URIString() != relv || lit.PreferRelativeVersionedURIString() != relv {
			bad("typed-from-identity", "LiteralInfoOf(TypedFromIdentity(%s)) formats %v, %v", ident, lit, err)
		}
		weak := reference.Weak(resource.Type(tn), relv)
		if got, err := reference.IdentityOf(weak); err != nil || !got.Equal(ident) || weak.GetType().GetValue() != tn || weak.GetUri().GetValue() != relv {
			bad("weak", "IdentityOf(Weak(%s, %q)) = %s, %v; type %q uri %q", tn, relv, got, err, weak.GetType().GetValue(), weak.GetUri().GetValue())
		}
		if !reference.Is(weak, strong) || !reference.Is(strong, weak) {
			bad("weak", "Is(Weak, TypedFromIdentity) = %v / %v", reference.Is(weak, strong), reference.Is(strong, weak))
		}
		// the same through a resource
		res := resource.New(resource.Type(tn))
		setID := func(m protoreflect.Message, field, val string) {
			fd := m.Descriptor().Fields().ByName(protoreflect.Name(field))
			idm := m.Mutable(fd).Message()
			idm.Set(idm.Descriptor().Fields().ByName("value"), protoreflect.ValueOfString(val))
		}
		rm := res.ProtoReflect()
		if _, ok := resource.IdentityOf(res); ok {
			bad("identity-of-resource", "a resource without id has an identity")
		}
		if _, err := reference.WeakRelativeVersioned(res); !errors.Is(err, reference.ErrNoResourceID) {
			bad("weak-relative-versioned", "resource without id: %v", err)
		}
		setID(rm, "id", id)
		if ver != "" {
			meta := rm.Mutable(rm.Descriptor().Fields().ByName("meta")).Message()
			setID(meta, "version_id", ver)
		}
		if got, ok := resource.IdentityOf(res); !ok || !got.Equal(ident) {
			bad("identity-of-resource", "IdentityOf(resource) = %s, %v", got, ok)
		}
		if tr, err := reference.TypedFromResource(res); err != nil {
			bad("typed-from-resource", "TypedFromResource: %v", err)
		} else if got, err := reference.IdentityOf(tr); err != nil || !got.Equal(plain) {
			bad("typed-from-resource", "IdentityOf(TypedFromResource) = %s, %v", got, err)
		}
		wr, err := reference.WeakRelativeVersioned(res)
		switch {
		case ver == "" && !errors.Is(err, reference.ErrNoResourceVersion):
			bad("weak-relative-versioned", "resource without version: %v, %v", wr, err)
		case ver != "" && (err != nil || wr.GetUri().GetValue() != relv || wr.GetType().GetValue() != tn):
			bad("weak-relative-versioned", "WeakRelativeVersioned = uri %q type %q, %v", wr.GetUri().GetValue(), wr.GetType().GetValue(), err)
		}
		// logical references: same type + identifier is the same reference, another value is not
		l1 := reference.Logical(resource.Type(tn), "http://s", id)
		l2 := reference.LogicalFromIdentifier(resource.Type(tn), &dtpb.Identifier{System: &dtpb.Uri{Value: "http://s"}, Value: &dtpb.String{Value: id}})
		l3 := reference.Logical(resource.Type(tn), "http://s", id+"x")
		if l1.GetType().GetValue() != tn || l1.GetIdentifier().GetValue().GetValue() != id || l1.GetIdentifier().GetSystem().GetValue() != "http://s" || !reference.Is(l1, l2) || !reference.Is(l2, l1) || reference.Is(l1, l3) {
			bad("logical", "Logical = %v; Is(l1,l2) %v Is(l1,other) %v", l1, reference.Is(l1, l2), reference.Is(l1, l3))
		}
		// canonical resources
		cr, isCanon := res.(fhir.CanonicalResource)
		cref, cerr := reference.Canonical(resource.Type(tn), "http://c.example/"+rel)
		if isCanon != (cerr == nil) || (cerr == nil && (cref.GetUri().GetValue() != "http://c.example/"+rel || cref.GetType().GetValue() != tn)) || (cerr != nil && !errors.Is(cerr, reference.ErrNotCanonicalResource)) {
			bad("canonical-reference", "reference.Canonical on %s (canonical resource: %v) = %v, %v", tn, isCanon, cref, cerr)
		}
		if isCanon {
			env.Cover("canonical-resource")
			if _, err := canonical.FromResource(cr); !errors.Is(err, canonical.ErrNoCanonicalURL) {
				bad("canonical-from-resource", "resource without url: %v", err)
			}
			url := "http://c.example/" + rel
			setID(rm, "url", url)
			if ver != "" {
				setID(rm, "version", ver)
			}
			want := url
			if ver != "" {
				want = url + "|" + ver
			}
			c1, e1 := canonical.FromResource(cr)
			c2, e2 := canonical.VersionedFromResource(cr)
			c3, e3 := canonical.FragmentFromResource(cr)
			ci, e4 := canonical.IdentityOf(cr)
			if e1 != nil || e2 != nil || e3 != nil || e4 != nil || c1.GetValue() != url || c2.GetValue() != want || c3.GetValue() != url+"#"+id || ci.Url != url || ci.Version != ver || ci.Fragment != "" {
				bad("canonical-from-resource", "FromResource %q VersionedFromResource %q FragmentFromResource %q IdentityOf %+v (%v %v %v %v)", c1.GetValue(), c2.GetValue(), c3.GetValue(), ci, e1, e2, e3, e4)
			} else {
				for _, c := range []*dtpb.Canonical{c1, c2, c3} {
					back, err := canonical.IdentityFromReference(c)
					if err != nil || canonical.New(back.Url, canonical.WithVersion(back.Version), canonical.WithFragment(back.Fragment)).GetValue() != c.GetValue() {
						bad("canonical-from-resource", "%q does not split and reassemble: %+v, %v", c.GetValue(), back, err)
					}
				}
			}
		}
	})
	env.Eval(30)
	if out.Panicked || out.Dead {
		env.Violatef("C19/panic@"+out.Site+"/constructors", "constructors for %s panicked: %s", relv, out.PanicMsg)
	}
}

// c19RefEntryPoints: one string as Reference.reference (uri member), with no / a consistent / another
// Reference.type: LiteralInfoOf, IdentityOf and Is return a value or an error, never crash, and agree with
// LiteralInfoFromURI on whether the string is a literal at all (a type can only make an accepted string unacceptable).
// An accepted literal given another service base URL still formats to something that parses back to the same class.
func c19RefEntryPoints(env *core.Env, u string) {
	defer env.In("entry", u)()
	env.Case()
	env.Cover("reference-entry-points")
	var base *reference.LiteralInfo
	var baseErr error
	out := env.Guard("LiteralInfoFromURI "+u, func() { base, baseErr = reference.LiteralInfoFromURI(u) })
	if out.Panicked || out.Dead {
		env.Violatef("C19/panic@"+out.Site+"/entry", "LiteralInfoFromURI(%q) panicked: %s", u, out.PanicMsg)
		return
	}
	for _, ty := range []string{"", "Patient", "Observation", "Foo"} {
		ref := &dtpb.Reference{Reference: &dtpb.Reference_Uri{Uri: &dtpb.String{Value: u}}}
		if ty != "" {
			ref.Type = &dtpb.Uri{Value: ty}
		}
		var lit *reference.LiteralInfo
		var e1, e2 error
		var id *resource.Identity
		var is1, is2 bool
		out := env.Guard(fmt.Sprintf("LiteralInfoOf/IdentityOf/Is uri=%q type=%q", u, ty), func() {
			lit, e1 = reference.LiteralInfoOf(ref)
			id, e2 = reference.IdentityOf(ref)
			is1 = reference.Is(ref, ref)
			is2 = reference.Is(ref, &dtpb.Reference{Reference: &dtpb.Reference_Uri{Uri: &dtpb.String{Value: "Patient/zz9"}}})
		})
		env.Eval(4)
		if out.Panicked || out.Dead {
			env.Violatef("C19/panic@"+out.Site+"/entry", "Reference{reference: %q, type: %q}: %s panicked: %s", u, ty, out.Site, out.PanicMsg)
			continue
		}
		if baseErr != nil && e1 == nil {
			env.Violatef("C19/entry/type-makes-invalid-literal-valid", "LiteralInfoFromURI(%q) fails (%v) but LiteralInfoOf(Reference{reference: %q, type: %q}) succeeds: %s", u, baseErr, u, ty, lit.URIString())
		}
		if ty == "" && (baseErr == nil) != (e1 == nil) {
			env.Violatef("C19/entry/reference-and-string-disagree", "LiteralInfoFromURI(%q): %v; LiteralInfoOf(Reference{reference: %q}): %v", u, baseErr, u, e1)
		}
		if e1 == nil && lit.URIString() != base.URIString() {
			env.Violatef("C19/entry/reference-and-string-disagree", "Reference{reference: %q, type: %q} formats as %q, the bare string as %q", u, ty, lit.URIString(), base.URIString())
		}
		if ty == "" && e1 != nil && e2 == nil {
			env.Violatef("C19/entry/identity-of-an-invalid-literal", "Reference{reference: %q, type: %q}: LiteralInfoOf fails (%v) but IdentityOf gives %s", u, ty, e1, id)
		}
		if !is1 || (is2 && u != "Patient/zz9") {
			env.Violatef("C19/entry/is", "Reference{reference: %q, type: %q}: Is(r, r) = %v, Is(r, Patient/zz9) = %v", u, ty, is1, is2)
		}
	}
	if baseErr != nil || base == nil {
		return
	}
	_, isID := base.Identity()
	for _, nb := range []string{"https://other.example/fhir", "http://b.example", ""} {
		var l2 *reference.LiteralInfo
		var e error
		var s2 string
		out := env.Guard("WithServiceBaseURL "+u, func() {
			l2, e = base.WithServiceBaseURL(nb)
			if e == nil {
				s2 = l2.URIString()
			}
		})
		env.Eval(1)
		if out.Panicked || out.Dead {
			env.Violatef("C19/panic@"+out.Site+"/WithServiceBaseURL", "WithServiceBaseURL(%q) on %q panicked: %s", nb, u, out.PanicMsg)
			continue
		}
		if e != nil {
			continue
		}
		env.Cover("rebase-any-literal")
		if now := base.URIString(); now != u && !(isID && strings.Contains(u, "//") && now == strings.ReplaceAll(u, "//", "/")) {
			// (the literal parsed from u formats as u, except for redundant slashes; whatever it formatted as before, it still does)
			if lit0, err0 := reference.LiteralInfoFromURI(u); err0 == nil && lit0.URIString() != now {
				env.Violatef("C19/rebase/receiver-changed", "after parse(%q).WithServiceBaseURL(%q) the original literal formats as %q (a freshly parsed one as %q)", u, nb, now, lit0.URIString())
			}
		}
		if !isID && s2 != base.URIString() {
			// a fragment or a non-REST URI names the same thing whatever the server is
			env.Violatef("C19/rebase/non-rest-literal-changed", "parse(%q).WithServiceBaseURL(%q) formats as %q, expected the literal itself", u, nb, s2)
			continue
		}
		back, err := reference.LiteralInfoFromURI(s2)
		if err != nil || back.URIString() != s2 {
			env.Violatef("C19/rebase/not-parsable", "parse(%q).WithServiceBaseURL(%q) formats as %q, which parses to %v, %v", u, nb, s2, back, err)
		}
	}
}

func c19ID(r *core.Rng, n int) string {
	const al = "ABCDEFGHIJKLMNOPQRSTUVWXYZabcdefghijklmnopqrstuvwxyz0123456789-."
	b := make([]byte, n)
	for i := range b {
		b[i] = al[r.Intn(len(al))]
	}
	return string(b)
}

func runC19(env *core.Env) {
	rng := env.Rng("c19")
	types := gen.ResourceTypes()
	bases := []string{"", "http://h.example", "https://h.example:8080", "http://h.example/a/b/fhir", "https://fhir.example.org/r4",
		"https://healthcare.googleapis.com/v1/projects/my-proj/locations/us-central1/datasets/my_dataset/fhirStores/my_store/fhir", "http://h.example/base_1", "https://h.example/fhir.v4/r-4"}
	n := 0
	mine := func() bool { n++; return env.Mine(n) }
	idLens := []int{1, 2, 8, 36, 63, 64}
	for ti, md := range types {
		tn := string(md.Name())
		if env.Shard == 0 {
			env.Cover("types")
		}
		reps := env.Size(2, 12)
		for k := 0; k < reps; k++ {
			id := c19ID(rng, idLens[(ti+k)%len(idLens)])
			ver := ""
			if k%2 == 1 {
				ver = c19ID(rng, idLens[rng.Intn(len(idLens))])
			}
			base := bases[(ti+k)%len(bases)]
			rel := tn + "/" + id
			form := "form:relative"
			if ver != "" {
				rel += "/_history/" + ver
				form = "form:versioned"
			}
			uri := rel
			if base != "" {
				uri = base + "/" + rel
				form = "form:absolute"
			}
			if mine() {
				env.Cover(form)
				env.Distinct(fmt.Sprintf("%s|%s|%s|len%d|v%v", form, tn, base, len(id), ver != ""))
				c19URI(env, uri, c19Expect{Class: "identity", Type: tn, ID: id, Version: ver, Base: base}, true)
			}
			// redundant slashes: accepted, formatted canonically
			if base != "" && mine() {
				c19URI(env, base+"//"+rel, c19Expect{Class: "identity", Type: tn, ID: id, Version: ver, Base: base}, false)
			}
			if mine() {
				c19Ref(env, tn, id, ver)
			}
			if mine() {
				c19Constructors(env, tn, id, ver, base)
			}
			// invalid ids
			for _, bad := range []string{"", c19ID(rng, 65), "a_b", "a b", "é", "a/b"} {
				if !mine() {
					continue
				}
				env.Cover("form:rejected")
				exp := c19Expect{Class: "reject"}
				u := tn + "/" + bad
				if base != "" {
					u = base + "/" + u
					exp.Class = "reject-or-nonrest"
				}
				if bad == "a/b" {
					exp.Class = "reject-or-nonrest"
				}
				c19URI(env, u, exp, false)
			}
			// byte-mutated neighbours: whatever happens, no panic and no wrong identity
			mrng := rng.Fork("m") // (drawn by every worker alike)
			if mine() {
				env.Cover("mutated")
				m := mutate(uri, mrng)
				exp := c19Expect{Class: "reject-or-nonrest"}
				c19Mutated(env, m, exp)
			}
		}
	}
	// fragments, URNs, canonical-looking, empty
	for _, f := range []string{"a", "frag-1.2", c19ID(rng, 64)} {
		if mine() {
			env.Cover("form:fragment")
			c19URI(env, "#"+f, c19Expect{Class: "fragment", Frag: f}, true)
		}
	}
	if mine() {
		c19URI(env, "#", c19Expect{Class: "fragment", Frag: ""}, true)
	}
	for _, f := range []string{"", "a", "frag-1.2", "A.b-9"} {
		if mine() {
			c19FragmentRead(env, f)
		}
	}
	for _, bad := range []string{"#a b", "#" + c19ID(rng, 65), "#é"} {
		if mine() {
			c19URI(env, bad, c19Expect{Class: "reject"}, false)
		}
	}
	for _, u := range []string{"urn:uuid:53fefa32-fcbb-4ff8-8a92-55ee120877b7", "urn:oid:1.2.3.4.5", "http://other.example/not/a/resource", "mailto:x@example.org",
		// spellings a URL library would normalise: the reference string is kept as written
		"URN:UUID:53FEFA32-FCBB-4FF8-8A92-55EE120877B7", "Urn:oid:1.2.3.4.5", "urn:uuid:53FEFA32-fcbb-4ff8-8a92-55ee120877b7", "mailto:X@Example.ORG", "http://other.example/not/a/r%65source", "http://other.example/p%C3%A4th/x?q=a+b"} {
		if mine() {
			env.Cover("form:urn")
			c19URI(env, u, c19Expect{Class: "nonrest"}, true)
		}
	}
	for _, w := range []struct{ uri, typ string }{
		{"urn:uuid:53fefa32-fcbb-4ff8-8a92-55ee120877b7", ""}, {"urn:oid:1.2.3.4.5", ""}, {"http://other.example/not/a/resource", ""}, {"#a", ""}, {"#", ""},
		{"Patient/a1", "Patient"}, {"Observation/a1/_history/2", "Observation"}, {"http://h.example/fhir/Patient/a1", "Patient"}, {"https://h.example:8080/Group/g", "Group"},
		{"urn:uuid:" + fmt.Sprintf("%08x-0000-4000-8000-%012x", rng.Intn(1<<31), rng.Intn(1<<31)), ""}, {"Patient/" + c19ID(rng, 8), "Patient"},
	} {
		if mine() {
			c19Weak(env, w.uri, w.typ, w.typ == "")
		}
	}
	for _, u := range []string{"", "Patient", "Patient/", "/Patient/1", "Foo/1", "patient/1", "Patient/1/_history", "Patient/1/_history/", "Patient/1/_History/2", "Patient/1/2/3", "http://h/ValueSet/v|1.0", "Patient/1#frag", "http://h.example/fhir/Patient/123#", "urn:uuid:53fefa32-fcbb-4ff8-8a92-55ee120877b7#", "http://example.com/my-thing#", "Patient/123#", "http://h.example/fhir/Patient/123/_history/2#", "urn:oid:1.2.3#", "http://", "http:", "://x", "Patient/1|2", " Patient/1", "Patient/1 "} {
		if mine() {
			if u == "" {
				env.Cover("form:empty")
			}
			env.Cover("form:rejected")
			c19URI(env, u, c19Expect{Class: "reject"}, false)
		}
	}
	// every string, valid or not, as the uri member of a Reference with and without Reference.type, through every
	// entry point that takes a Reference; and every accepted literal re-based
	for _, u := range []string{"", "Patient", "Patient/", "/Patient/1", "Foo/1", "patient/1", "Patient/1/_history", "Patient/1/2/3", "http://", "://x", "Patient/1|2", " Patient/1", "#a b", "#é", "urn:uuid:53fefa32-fcbb-4ff8-8a92-55ee120877b7", "urn:oid:1.2.3",
		"http://other.example/not/a/resource", "#a", "#", "Patient/a1", "Observation/a1/_history/2", "https://h.example/fhir/Patient/a1", "mailto:x@example.org", "Patient/" + strings.Repeat("a", 65), "\x00", "%", "Patient/%41"} {
		if mine() {
			c19RefEntryPoints(env, u)
		}
	}
	// Is: reflexive / symmetric / transitive over a pool
	if mine() {
		c19IsLaws(env, rng)
	}
	// canonical
	for _, u := range []string{"http://example.org/fhir/ValueSet/v", "http://h/StructureDefinition/x-y_z", "urn:uuid:53fefa32-fcbb-4ff8-8a92-55ee120877b7", "ValueSet/abc", ""} {
		for _, v := range []string{"", "1.0.0", "2023-01", "v_1"} {
			for _, f := range []string{"", "frag", c19ID(rng, 64)} {
				if mine() {
					c19Canon(env, u, v, f)
				}
			}
		}
	}
	for _, text := range []string{"#x", "|1", "#", "|", "a|b|c", "a#b#c"} {
		if mine() {
			c19CanonRaw(env, text)
		}
	}
}

func c19Mutated(env *core.Env, uri string, exp c19Expect) {
	defer env.In("uri", uri, exp, false)()
	var lit *reference.LiteralInfo
	var err error
	out := env.Guard("LiteralInfoFromURI(mutated) "+uri, func() {
		lit, err = reference.LiteralInfoFromURI(uri)
		if err == nil {
			f := lit.URIString()
			l2, e2 := reference.LiteralInfoFromURI(f)
			if e2 == nil && l2.URIString() != f {
				panic("harness: not a fixpoint: " + f + " -> " + l2.URIString())
			}
			if e2 != nil {
				panic("harness: own output rejected: " + f)
			}
		}
	})
	env.Eval(1)
	env.Case()
	if out.Panicked {
		if strings.HasPrefix(out.PanicMsg, "harness: ") {
			env.Violatef("C19/format/mutated-"+strings.SplitN(strings.TrimPrefix(out.PanicMsg, "harness: "), ":", 2)[0], "mutated %q: %s", uri, out.PanicMsg)
		} else {
			env.Violatef("C19/panic@"+out.Site+"/"+core.NormMsg(out.PanicMsg), "LiteralInfoFromURI(%q) panicked: %s", uri, out.PanicMsg)
		}
	}
	// an accepted identity must be consistent with the text: Type/id are substrings in order
	if err == nil && !out.Panicked {
		if id, ok := lit.Identity(); ok {
			rel := id.String()
			if !strings.HasSuffix(uri, rel) || !isFHIRID(id.ID()) || gen.ResourceTypeByName(string(id.Type())) == nil {
				env.Violatef("C19/parse/mutated-wrong-identity", "LiteralInfoFromURI(%q) yields identity %s", uri, rel)
			}
		}
	}
}

// c19Weak: weak (uri) references carrying Reference.type. The information parsed from a reference is a function
// of that reference alone: the same uri is parsed with different types, in sequence, and bare before and after.
func c19Weak(env *core.Env, uri string, uriType string, nonrest bool) {
	defer env.In("weak", uri, uriType, nonrest)()
	env.Case()
	env.Cover("weak-typed")
	type obs struct {
		err            error
		typ            string
		hasT           bool
		str            string
		panicked, dead bool
	}
	parseRef := func(t string) obs {
		ref := &dtpb.Reference{Reference: &dtpb.Reference_Uri{Uri: &dtpb.String{Value: uri}}}
		if t != "" {
			ref.Type = &dtpb.Uri{Value: t}
		}
		var o obs
		out := env.Guard(fmt.Sprintf("LiteralInfoOf(uri=%q type=%q)", uri, t), func() {
			lit, err := reference.LiteralInfoOf(ref)
			o.err = err
			if err == nil {
				tt, has := lit.Type()
				o.typ, o.hasT, o.str = string(tt), has, lit.URIString()
			}
		})
		env.Eval(1)
		o.panicked, o.dead = out.Panicked, out.Dead
		if out.Panicked {
			env.Violatef("C19/panic@"+out.Site+"/LiteralInfoOf", "LiteralInfoOf(uri=%q type=%q) panicked: %s", uri, t, out.PanicMsg)
		}
		return o
	}
	parseBare := func() obs {
		var o obs
		out := env.Guard("LiteralInfoFromURI "+uri, func() {
			lit, err := reference.LiteralInfoFromURI(uri)
			o.err = err
			if err == nil {
				tt, has := lit.Type()
				o.typ, o.hasT, o.str = string(tt), has, lit.URIString()
			}
		})
		env.Eval(1)
		o.panicked, o.dead = out.Panicked, out.Dead
		return o
	}
	bare0 := parseBare()
	if bare0.panicked || bare0.dead || bare0.err != nil {
		return
	}
	for _, t := range []string{"Patient", "", "Observation", "Patient", "Group"} {
		o := parseRef(t)
		if o.panicked || o.dead {
			return
		}
		wantErr := uriType != "" && t != "" && t != uriType
		wantType := uriType
		if uriType == "" {
			wantType = t
		}
		d := fmt.Sprintf("LiteralInfoOf(uri=%q, type=%q)", uri, t)
		switch {
		case wantErr && o.err == nil:
			env.Violatef("C19/weak/inconsistent-type-accepted", "%s must fail (the uri names a %s), returned type %q", d, uriType, o.typ)
		case wantErr && !errors.Is(o.err, reference.ErrTypeInconsistent):
			env.Violatef("C19/weak/wrong-error", "%s: expected ErrTypeInconsistent, got %v", d, o.err)
		case !wantErr && o.err != nil:
			env.Violatef("C19/weak/rejected", "%s failed: %v", d, o.err)
		case !wantErr && (o.typ != wantType || o.hasT != (wantType != "") || o.str != bare0.str):
			env.Violatef("C19/weak/wrong-information", "%s = {type %q (present %v), uri %q}, expected {type %q, uri %q}", d, o.typ, o.hasT, o.str, wantType, bare0.str)
		}
		b := parseBare()
		if b.err != nil || b.typ != bare0.typ || b.hasT != bare0.hasT || b.str != bare0.str {
			env.Violatef("C19/parse/history-dependent", "LiteralInfoFromURI(%q) answered {type %q present %v, uri %q} at first and {type %q present %v, uri %q, err %v} after %s", uri, bare0.typ, bare0.hasT, bare0.str, b.typ, b.hasT, b.str, b.err, d)
			return
		}
	}
}

func replayC19Weak(env *core.Env, a []json.RawMessage) {
	var uri, ut string
	var nr bool
	json.Unmarshal(a[0], &uri)
	json.Unmarshal(a[1], &ut)
	json.Unmarshal(a[2], &nr)
	c19Weak(env, uri, ut, nr)
}

func c19CanonRaw(env *core.Env, text string) {
	defer env.In("canon", text, "", "")()
	out := env.Guard("canonical.IdentityFromReference "+text, func() { canonical.IdentityFromReference(&dtpb.Canonical{Value: text}) })
	env.Eval(1)
	env.Case()
	if out.Panicked || out.Dead {
		env.Violatef("C19/panic@"+out.Site+"/canonical", "canonical.IdentityFromReference(%q) panicked: %s", text, out.PanicMsg)
	}
}

func c19IsLaws(env *core.Env, rng *core.Rng) {
	defer env.In("ref", "Patient", "laws", "")()
	env.Case()
	ident := &dtpb.Identifier{System: &dtpb.Uri{Value: "http://s"}, Value: &dtpb.String{Value: "v"}}
	var pool []*dtpb.Reference
	for _, id := range []string{"a", "b"} {
		for _, ver := range []string{"", "1", "2"} {
			rel := "Patient/" + id
			if ver != "" {
				rel += "/_history/" + ver
			}
			pool = append(pool, strongRef("Patient", id, ver),
				&dtpb.Reference{Reference: &dtpb.Reference_Uri{Uri: &dtpb.String{Value: rel}}},
				&dtpb.Reference{Reference: &dtpb.Reference_Uri{Uri: &dtpb.String{Value: "http://h.example/fhir/" + rel}}},
				&dtpb.Reference{Reference: &dtpb.Reference_Uri{Uri: &dtpb.String{Value: "https://other.example:8443/base/r4/" + rel}}},
				&dtpb.Reference{Reference: &dtpb.Reference_Uri{Uri: &dtpb.String{Value: rel}}, Display: &dtpb.String{Value: "shown"}})
		}
	}
	pool = append(pool, strongRef("Observation", "a", ""), &dtpb.Reference{Identifier: ident}, &dtpb.Reference{Identifier: ident, Display: &dtpb.String{Value: "d"}},
		&dtpb.Reference{Reference: &dtpb.Reference_Fragment{Fragment: &dtpb.String{Value: "a"}}, Type: &dtpb.Uri{Value: "Patient"}},
		&dtpb.Reference{Reference: &dtpb.Reference_Fragment{Fragment: &dtpb.String{Value: "a"}}},
		&dtpb.Reference{Reference: &dtpb.Reference_Fragment{Fragment: &dtpb.String{Value: "a"}}, Type: &dtpb.Uri{Value: "Group"}},
		&dtpb.Reference{Reference: &dtpb.Reference_Uri{Uri: &dtpb.String{Value: "#a"}}, Type: &dtpb.Uri{Value: "Group"}},
		&dtpb.Reference{Reference: &dtpb.Reference_Uri{Uri: &dtpb.String{Value: "#a"}}},
		&dtpb.Reference{Reference: &dtpb.Reference_Uri{Uri: &dtpb.String{Value: "#b"}}, Type: &dtpb.Uri{Value: "Patient"}},
		strongRef("Group", "a", ""), &dtpb.Reference{Reference: &dtpb.Reference_Uri{Uri: &dtpb.String{Value: "Group/a"}}},
		&dtpb.Reference{Reference: &dtpb.Reference_Uri{Uri: &dtpb.String{Value: "urn:uuid:53fefa32-fcbb-4ff8-8a92-55ee120877b7"}}}, &dtpb.Reference{})
	n := len(pool)
	is := make([][]bool, n)
	for i := range pool {
		is[i] = make([]bool, n)
		for j := range pool {
			i, j := i, j
			out := env.Guard("reference.Is", func() { is[i][j] = reference.Is(pool[i], pool[j]) })
			env.Eval(1)
			if out.Panicked || out.Dead {
				env.Violatef("C19/panic@"+out.Site+"/Is", "reference.Is(%v, %v) panicked: %s", pool[i], pool[j], out.PanicMsg)
				return
			}
		}
	}
	env.Cover("is-law")
	for i := 0; i < n; i++ {
		if !is[i][i] {
			env.Violatef("C19/is/not-reflexive", "Is(x,x) false for %v", pool[i])
		}
		for j := 0; j < n; j++ {
			if is[i][j] != is[j][i] {
				env.Violatef("C19/is/not-symmetric", "Is(%v, %v)=%v but reversed %v", pool[i], pool[j], is[i][j], is[j][i])
			}
			for k := 0; k < n; k++ {
				if is[i][j] && is[j][k] && !is[i][k] {
					env.Violatef("C19/is/not-transitive", "Is(a,b) and Is(b,c) but not Is(a,c): a=%v b=%v c=%v", pool[i], pool[j], pool[k])
				}
			}
		}
	}
}
