package props

import (
	"encoding/json"
	"fmt"
	"strings"
	"time"

	"github.com/verily-src/fhirpath-go/fhirpath"
	"github.com/verily-src/fhirpath-go/fhirpath/evalopts"
	"github.com/verily-src/fhirpath-go/fhirpath/system"
	dtpb "github.com/google/fhir/go/proto/google/fhir/proto/r4/core/datatypes_go_proto"
	"github.com/verily-src/fhirpath-go/fhirpath/verifharness/core"
	"github.com/verily-src/fhirpath-go/fhirpath/verifharness/fx"
	"github.com/verily-src/fhirpath-go/fhirpath/verifharness/gen"
	"github.com/verily-src/fhirpath-go/fhirpath/verifharness/model"
	"github.com/verily-src/fhirpath-go/internal/fhir"
	"google.golang.org/protobuf/proto"
	"google.golang.org/protobuf/reflect/protoreflect"
)

// C12 — `is` and `as` agree with the FHIR and System type hierarchies.

func init() {
	core.Register(&core.Property{
		ID:   "C12",
		Rule: "every element node of generated resources of every R4 type (declared type from its schema position: descriptor kind, structure-definition URL, value-set binding, presence of modifierExtension) x every type specifier in {all resource names, all complex datatype names, all primitive names, Element, BackboneElement, Resource, DomainResource, System.* names} with and without namespace: `x is T` must equal declared(x) <: T in the R4 hierarchy and `x as T` must return x itself iff so; elements supplied as %env values (all specifiers) and reached by indexed paths (seeded specifier sample incl. all supertypes); choice wrappers looked through; System values/literals use System types; unknown names/namespaces must be rejected by Compile. computed values (39 forms x 30 elements) are System values whose is/as follow their type, conversion and operator results with their System type, selecting functions keep elements, nested resources through children(); distinct_nontrivial = distinct (declared type, specifier) pairs evaluated with a true expected answer or a same-family false answer",
		Assumptions: []string{"R4 hierarchy: primitives specialise per the statement; a datatype or nested component carrying modifierExtension is a BackboneElement; Bundle, Binary, Parameters derive directly from Resource; Age/Count/Distance/Duration/MoneyQuantity/SimpleQuantity derive from Quantity",
			"xhtml elements are only placed below Element (no specifier names the type itself); ReferenceId nodes are not typed by the model and are skipped"},
		Run:    runC12,
		Checks: map[string]func(*core.Env, []json.RawMessage){"resource": replayC12, "sys": replayC12Sys, "computed": func(env *core.Env, a []json.RawMessage) { c12Computed(env) }, "selection": func(env *core.Env, a []json.RawMessage) { c12Selection(env) }},
		Threshold: func(m *core.Merged) []string {
			var r []string
			for _, k := range []string{"is-true", "is-false", "as-identity", "as-empty", "kind:resource", "kind:datatype", "kind:primitive", "kind:code", "kind:backbone", "via-path", "via-choice-wrapper", "system-value", "invalid-specifier"} {
				if m.Cover[k] == 0 {
					r = append(r, "never observed: "+k)
				}
			}
			return r
		},
	})
}

var c12Specs []string

func c12AllSpecs() []string {
	if c12Specs != nil {
		return c12Specs
	}
	for _, n := range model.FHIRTypeNames() {
		c12Specs = append(c12Specs, n, "FHIR."+n)
	}
	for _, n := range model.SystemTypeNames() {
		c12Specs = append(c12Specs, "System."+n)
		if !model.IsFHIRTypeName(n) {
			c12Specs = append(c12Specs, n)
		}
	}
	return c12Specs
}

var c12Compiled = map[string]*fhirpath.Expression{}
var c12CompileErr = map[string]fx.Res{}

func c12Eval(env *core.Env, src string, in []fhir.Resource, eo ...fhirpath.EvaluateOption) fx.Res {
	if r, bad := c12CompileErr[src]; bad {
		return r
	}
	ex := c12Compiled[src]
	if ex == nil {
		var cr fx.Res
		ex, cr = fx.Compile(env, src)
		if ex == nil {
			c12CompileErr[src] = cr
			return cr
		}
		c12Compiled[src] = ex
	}
	return fx.Evaluate(env, ex, in, eo...)
}

func kindOfType(md protoreflect.MessageDescriptor, t model.TypeRef) string {
	switch {
	case gen.IsResource(md):
		return "resource"
	case gen.IsCodeWrapper(md):
		return "code"
	case gen.IsPrimitive(md):
		return "primitive"
	case t.Name == "BackboneElement" || t.Name == "Element":
		return "backbone"
	}
	return "datatype"
}

// c12Judge checks `expr is spec` / `expr as spec` for one element.
func c12Judge(env *core.Env, how, exprSrc string, in []fhir.Resource, eo []fhirpath.EvaluateOption, self proto.Message, fresh bool, declared model.TypeRef, kind, spec string) {
	target, valid := model.ResolveSpecifier(spec)
	if !valid {
		return
	}
	want := model.IsSubtype(declared, target)
	specSrc := strings.ReplaceAll(spec, ".", ".")
	ri := c12Eval(env, exprSrc+" is "+specSrc, in, eo...)
	cls := fmt.Sprintf("%s/%s", kind, relClass(declared, target, want))
	d := fmt.Sprintf("%s: `%s is %s` (declared type %s)", how, exprSrc, spec, declared)
	if ri.IsPanic() {
		env.Violatef(fx.PanicSig("C12", ri), "%s => %s", d, ri.Short())
		return
	}
	if ri.Kind == "cerror" {
		env.Violatef("C12/valid-specifier-rejected/"+spec, "%s: Compile rejects a valid type specifier: %s", d, ri.Short())
		return
	}
	if want {
		env.Cover("is-true")
		env.Distinct(declared.String() + "|" + spec)
	} else {
		env.Cover("is-false")
		if strings.Contains(cls, "sibling") || strings.Contains(cls, "other-namespace") {
			env.Distinct(declared.String() + "|" + spec)
		}
	}
	if ri.Bool3() != fmt.Sprint(want) {
		env.Violatef("C12/is/"+cls+"/want-"+fmt.Sprint(want), "%s: expected %v, observed %s", d, want, trunc(ri.Short(), 100))
	}
	ra := c12Eval(env, exprSrc+" as "+specSrc, in, eo...)
	if ra.IsPanic() {
		env.Violatef(fx.PanicSig("C12", ra), "%s (as) => %s", d, ra.Short())
		return
	}
	if want {
		env.Cover("as-identity")
		okID := ra.IsValue() && len(ra.Raw) == 1
		if okID {
			gm, isMsg := ra.Raw[0].(proto.Message)
			if !isMsg {
				okID = false
			} else if fresh {
				okID = proto.Equal(gm, self)
			} else {
				okID = gm == self
			}
		}
		if !okID {
			env.Violatef("C12/as/"+cls+"/not-the-element-itself", "%s: `as` must return the element itself, observed %s", d, trunc(ra.Short(), 120))
		}
	} else {
		env.Cover("as-empty")
		if !ra.Empty() {
			env.Violatef("C12/as/"+cls+"/not-empty", "%s: `as` must be empty, observed %s", d, trunc(ra.Short(), 120))
		}
	}
}

// relClass classifies the relation of the specifier to the declared type for finding signatures.
func relClass(declared, target model.TypeRef, want bool) string {
	switch {
	case declared == target:
		return "same-type"
	case want:
		return "supertype:" + target.Name
	case declared.NS != target.NS:
		return "other-namespace"
	case model.IsSubtype(target, declared):
		return "subtype"
	case target.Name == "Element" || target.Name == "BackboneElement" || target.Name == "Resource" || target.Name == "DomainResource":
		return "abstract:" + target.Name
	}
	return "sibling"
}

func c12Resource(env *core.Env, tn string, seed uint64, rich bool) {
	defer env.In("resource", tn, seed, rich)()
	res, _ := genResource(tn, seed, rich)
	tree, err := model.BuildTree(res)
	if err != nil {
		env.Skip("resource-not-marshallable")
		return
	}
	env.Case()
	in := []fhir.Resource{res}
	specs := c12AllSpecs()
	rng := core.NewRng(seed, "c12", tn)
	seenKinds := map[string]int{}
	for _, nd := range tree.All() {
		if nd.Synth != nil || nd.MD == nil {
			continue
		}
		declared, ok := model.DeclaredType(nd.MD)
		if !ok {
			env.Skip("untyped-node")
			continue
		}
		kind := kindOfType(nd.MD, declared)
		env.Cover("kind:" + kind)
		if declared.Name == "xhtml" {
			env.Cover("xhtml-element")
		}
		// each descriptor a bounded number of times per resource
		key := string(nd.MD.FullName())
		seenKinds[key]++
		if seenKinds[key] > env.Size(1, 2) {
			continue
		}
		// (1) as %x with every specifier
		eo := []fhirpath.EvaluateOption{evalopts.EnvVariable("x", nd.Msg)}
		for _, sp := range specs {
			c12Judge(env, "env", "%x", nil, eo, nd.Msg, false, declared, kind, sp)
		}
		// (2) through its indexed path, with all supertypes and a seeded sample of other specifiers
		if nd.Parent == nil || len(nd.PathTo()) > 6 {
			continue
		}
		skip := false
		for _, nm := range nd.PathTo() {
			if lexicallyOdd(nm) {
				skip = true
			}
		}
		if skip {
			continue
		}
		src := indexedPath(tn, nd)
		env.Cover("via-path")
		var sample []string
		for t := declared; ; {
			sample = append(sample, t.Name, "FHIR."+t.Name)
			p, ok := model.Parent(t)
			if !ok {
				break
			}
			t = p
		}
		for i := 0; i < 6; i++ {
			sample = append(sample, specs[rng.Intn(len(specs))])
		}
		sample = append(sample, "DomainResource", "BackboneElement", "Element", "Resource", "System.String", "String", "string")
		for _, sp := range sample {
			c12Judge(env, "path", src, in, nil, nd.Msg, nd.UnderFresh(), declared, kind, sp)
		}
		// (2b) reached through children() of its parent element instead of by name: the same element, the same type
		if nd.Parent != nil && nd.Parent.Msg != nil && !nd.Parent.UnderFresh() && (kind == "resource" || nd.ChoiceMsg != "") && nd.Parent.MD != nil && !gen.IsPrimitive(nd.Parent.MD) {
			env.Cover("via-children")
			peo := []fhirpath.EvaluateOption{evalopts.EnvVariable("p", nd.Parent.Msg)}
			rc := c12Eval(env, "%p.children().where($this is "+declared.Name+")", nil, peo...)
			found := false
			if rc.IsValue() {
				for _, it := range rc.Raw {
					if m, ok := it.(proto.Message); ok && (m == nd.Msg || (nd.UnderFresh() && proto.Equal(m, nd.Msg))) {
						found = true
					}
				}
			}
			if rc.IsPanic() {
				env.Violatef(fx.PanicSig("C12", rc), "`%%p.children().where($this is %s)` => %s", declared.Name, rc.Short())
			} else if !found {
				env.Violatef("C12/is/"+kind+"/via-children/not-found", "%s: `%%p.children().where($this is %s)` on its parent element (%s) does not contain the element (declared type %s): %s", src, declared.Name, nd.Parent.Msg.ProtoReflect().Descriptor().Name(), declared, trunc(rc.Short(), 120))
			}
		}
		// (3) the choice wrapper itself as %w: looked through
		if nd.ChoiceMsg != "" && nd.Parent != nil && !nd.Parent.UnderFresh() && !nd.UnderFresh() {
			if w := findWrapper(nd); w != nil {
				env.Cover("via-choice-wrapper")
				weo := []fhirpath.EvaluateOption{evalopts.EnvVariable("w", w)}
				for _, sp := range []string{declared.Name, "FHIR." + declared.Name, "Element", "Patient", "System.String", "string", "Quantity"} {
					c12Judge(env, "wrapper", "%w", nil, weo, nd.Msg, false, declared, kind, sp)
				}
			}
		}
	}
}

// findWrapper returns the choice wrapper message that holds nd.Msg in its parent element.
func findWrapper(nd *model.Node) proto.Message {
	pm := nd.Parent.Msg
	if pm == nil {
		return nil
	}
	var found proto.Message
	pr := pm.ProtoReflect()
	pr.Range(func(fd protoreflect.FieldDescriptor, v protoreflect.Value) bool {
		if fd.Message() == nil || !gen.IsChoice(fd.Message()) {
			return true
		}
		check := func(m protoreflect.Message) {
			od := m.Descriptor().Oneofs().Get(0)
			if wf := m.WhichOneof(od); wf != nil && m.Get(wf).Message().Interface() == nd.Msg {
				found = m.Interface()
			}
		}
		if fd.IsList() {
			l := v.List()
			for i := 0; i < l.Len(); i++ {
				check(l.Get(i).Message())
			}
		} else {
			check(v.Message())
		}
		return found == nil
	})
	return found
}

// indexedPath renders the path that selects exactly nd: each step indexed among its same-name siblings.
func indexedPath(root string, nd *model.Node) string {
	var steps []model.Step
	var chain []*model.Node
	for c := nd; c.Parent != nil; c = c.Parent {
		chain = append([]*model.Node{c}, chain...)
	}
	for _, c := range chain {
		sib := c.Parent.KidsNamed(c.Name)
		idx := 0
		for i, s := range sib {
			if s == c {
				idx = i
			}
		}
		steps = append(steps, model.Step{Kind: "name", Name: c.Name}, model.Step{Kind: "index", N: idx})
	}
	return model.RenderPath(root, steps)
}

func replayC12(env *core.Env, a []json.RawMessage) {
	var tn string
	var seed uint64
	var rich bool
	json.Unmarshal(a[0], &tn)
	json.Unmarshal(a[1], &seed)
	json.Unmarshal(a[2], &rich)
	c12Resource(env, tn, seed, rich)
}

// c12Sys: System values, literals, computed values; invalid specifiers.
func c12Sys(env *core.Env) {
	defer env.In("sys")()
	env.Case()
	in, eo := stdInputs()
	// fixed clock: two evaluations of the same program are compared below
	eo = append(eo, evalopts.OverrideTime(time.Date(2024, 2, 29, 13, 14, 15, 678000000, time.FixedZone("", 19800))))
	vals := []struct{ src, typ string }{
		{"1", "Integer"}, {"1.5", "Decimal"}, {"'a'", "String"}, {"true", "Boolean"}, {"@2020", "Date"}, {"@2020T", "DateTime"}, {"@T10", "Time"}, {"1 'mg'", "Quantity"},
		{"(1 + 1)", "Integer"}, {"'a'.length()", "Integer"}, {"(1 = 1)", "Boolean"}, {"'1'.toDecimal()", "Decimal"}, {"today()", "Date"}, {"now()", "DateTime"}, {"timeOfDay()", "Time"}, {"%multi.first()", "Integer"}, {"Patient.name.count()", "Integer"},
		// every conversion function yields its target type, whatever the spelling of the input
		{"'2020-01'.toDateTime()", "DateTime"}, {"'2020'.toDateTime()", "DateTime"}, {"'2020-01-02'.toDateTime()", "DateTime"}, {"'2020-01-02T10:00:00Z'.toDateTime()", "DateTime"}, {"@2020-01.toDateTime()", "DateTime"}, {"'2020-01'.toDate()", "Date"}, {"@2020-01-02T10:00:00Z.toDate()", "Date"},
		{"'10:00'.toTime()", "Time"}, {"'5 mg'.toQuantity()", "Quantity"}, {"5.toQuantity()", "Quantity"}, {"5.5.toQuantity('mg')", "Quantity"}, {"'1'.toInteger()", "Integer"}, {"true.toInteger()", "Integer"}, {"1.toDecimal()", "Decimal"}, {"true.toDecimal()", "Decimal"}, {"1.toString()", "String"}, {"@2020.toString()", "String"},
		{"(1 'mg').toString()", "String"}, {"'true'.toBoolean()", "Boolean"}, {"1.toBoolean()", "Boolean"}, {"1.0.toBoolean()", "Boolean"}, {"(@2020-01-31 + 1 month)", "Date"}, {"(@2020T + 1 year)", "DateTime"}, {"(@T10 + 1 hour)", "Time"}, {"(1 'mg' + 1 'mg')", "Quantity"}, {"(1 / 2)", "Decimal"}, {"(6 / 3)", "Decimal"}, {"(4 / 2)", "Decimal"}, {"(0 / 5)", "Decimal"}, {"(6.0 / 3)", "Decimal"}, {"(2 * 3)", "Integer"}, {"(2 * 3.0)", "Decimal"}, {"(2.5 + 2.5)", "Decimal"}, {"(5 - 5.0)", "Decimal"}, {"(1.5).round()", "Decimal"}, {"(7 div 7)", "Integer"}, {"(7.0 mod 7)", "Decimal"}, {"(4 div 2)", "Integer"}, {"(4.0 div 2)", "Integer"}, {"(5 mod 2)", "Integer"}, {"(5.5 mod 2)", "Decimal"}, {"('a' & 'b')", "String"}, {"(1 < 2)", "Boolean"},
	}
	for _, v := range vals {
		env.Cover("system-value")
		declared := model.TypeRef{NS: "System", Name: v.typ}
		for _, sp := range c12AllSpecs() {
			target, ok := model.ResolveSpecifier(sp)
			if !ok {
				continue
			}
			want := model.IsSubtype(declared, target)
			r := fx.Eval(env, v.src+" is "+sp, in, nil, eo)
			if r.IsPanic() {
				env.Violatef(fx.PanicSig("C12", r), "`%s is %s` => %s", v.src, sp, r.Short())
				continue
			}
			if r.Bool3() != fmt.Sprint(want) {
				env.Violatef("C12/is/system-value/"+relClass(declared, target, want)+"/want-"+fmt.Sprint(want), "`%s is %s` (a System.%s): expected %v, observed %s", v.src, sp, v.typ, want, trunc(r.Short(), 100))
			}
			ra := fx.Eval(env, v.src+" as "+sp, in, nil, eo)
			base := fx.Eval(env, v.src, in, nil, eo)
			if want {
				if !fx.Same(ra, base) {
					env.Violatef("C12/as/system-value/not-itself", "`%s as %s`: expected the value itself %s, observed %s", v.src, sp, trunc(base.Short(), 60), trunc(ra.Short(), 60))
				}
			} else if !ra.Empty() {
				env.Violatef("C12/as/system-value/not-empty", "`%s as %s`: expected empty, observed %s", v.src, sp, trunc(ra.Short(), 60))
			}
			if want {
				env.Distinct("System." + v.typ + "|" + sp)
			}
		}
	}
	// invalid names and namespaces must be rejected by Compile
	for _, sp := range []string{"Foo", "FHIR.Foo", "Bar.string", "System.Patient", "System.string", "FHIR.String", "FHIR.Integer", "patient", "humanName", "system.String", "fhir.string", "System.Foo", "A.B.C", "Strings", "FHIR.System.String"} {
		for _, op := range []string{"is", "as"} {
			env.Cover("invalid-specifier")
			// ... wherever the type expression stands: alone, as either operand, in brackets, in arguments and criteria
			for pi, tmpl := range []string{"1 OP SP", "true and (Patient.active OP SP)", "(Patient.active OP SP) and true", "1 + (Patient.multipleBirth OP SP)", "Patient.name[(1 OP SP).count()]", "Patient.name.where(use OP SP)", "iif(true, 1, 1 OP SP)",
				"1 = (1 OP SP)", "(1 OP SP) | 2", "2 | (1 OP SP)", "1 > (2 OP SP)", "'a' & (1 OP SP)", "true or (1 OP SP)", "false implies (1 OP SP)", "1 in (1 OP SP)", "Patient.name.select(given OP SP)", "-(1 OP SP)", "(1 OP SP).exists()", "Patient.OP(SP)", "true xor Patient.OP(SP)"} {
				src := strings.ReplaceAll(strings.ReplaceAll(tmpl, "OP", op), "SP", sp)
				_, cr := fx.Compile(env, src)
				if cr.IsPanic() {
					env.Violatef(fx.PanicSig("C12", cr), "Compile(`%s`) => %s", src, cr.Short())
				} else if cr.Kind != "cerror" {
					env.Violatef("C12/invalid-specifier-accepted/"+sp+fmt.Sprintf("/position-%d", pi), "Compile(`%s`) accepts an unknown type name or namespace", src)
				}
			}
		}
	}
}

func replayC12Sys(env *core.Env, a []json.RawMessage) { c12Sys(env) }

// c12Computed: a value computed from an element (by a function or an operator) is a System value: every
// `f(x) is T` / `f(x) as T` has the outcome it has when x is replaced by the System value it denotes.
func c12Computed(env *core.Env) {
	defer env.In("computed")()
	env.Case()
	type pair struct {
		name string
		elem proto.Message
		sys  system.Any // (the System value it denotes; documentation of the case list only)
	}
	var pairs []pair
	q := func(v, u string) *dtpb.Quantity {
		return &dtpb.Quantity{Value: &dtpb.Decimal{Value: v}, Unit: &dtpb.String{Value: u}, Code: &dtpb.Code{Value: u}, System: &dtpb.Uri{Value: "http://unitsofmeasure.org"}}
	}
	for _, v := range []int32{0, 5, -5, 1} {
		pairs = append(pairs, pair{fmt.Sprintf("integer(%d)", v), &dtpb.Integer{Value: v}, system.Integer(v)})
		if v >= 0 {
			pairs = append(pairs, pair{fmt.Sprintf("unsignedInt(%d)", v), &dtpb.UnsignedInt{Value: uint32(v)}, system.Integer(v)})
		}
		if v > 0 {
			pairs = append(pairs, pair{fmt.Sprintf("positiveInt(%d)", v), &dtpb.PositiveInt{Value: uint32(v)}, system.Integer(v)})
		}
	}
	for _, v := range []string{"0.0", "2.5", "-2.5", "4", "0"} {
		d, err := system.ParseDecimal(v)
		if err != nil {
			continue
		}
		pairs = append(pairs, pair{"decimal(" + v + ")", &dtpb.Decimal{Value: v}, d})
		if sq, err := system.ParseQuantity(v, "mg"); err == nil {
			pairs = append(pairs, pair{"Quantity(" + v + " mg)", q(v, "mg"), sq})
		}
	}
	for _, v := range []string{"", "abc", "12", "true"} {
		pairs = append(pairs, pair{"string(" + v + ")", &dtpb.String{Value: v}, system.String(v)}, pair{"code(" + v + ")", &dtpb.Code{Value: v}, system.String(v)})
	}
	for _, v := range []bool{true, false} {
		pairs = append(pairs, pair{fmt.Sprintf("boolean(%v)", v), &dtpb.Boolean{Value: v}, system.Boolean(v)})
	}
	forms := []string{"%x.abs()", "%x.ceiling()", "%x.floor()", "%x.round()", "%x.truncate()", "%x.sqrt()", "%x.power(1)", "%x.exp()", "-%x", "-(-%x)", "%x + 0", "%x * 1", "%x - 0", "%x / 1", "%x div 1", "%x mod 7",
		"%x.toInteger()", "%x.toDecimal()", "%x.toString()", "%x.toQuantity()", "%x.toBoolean()", "%x & ''", "%x + ''", "%x.upper()", "%x.lower()", "%x.substring(0)", "%x.replace('zz', 'y')", "%x.toChars()", "%x.length()", "%x.not()", "%x.not().not()", "%x and true", "%x or false",
		"%x.convertsToInteger()", "%x.value", "iif(true, %x).abs()", "%x.select($this.abs())", "(%x | %x).abs()", "%x.abs().abs()"}
	specs := []string{"Integer", "System.Integer", "Decimal", "System.Decimal", "Quantity", "System.Quantity", "FHIR.Quantity", "String", "System.String", "Boolean", "System.Boolean", "integer", "FHIR.integer", "decimal", "string", "code", "boolean", "positiveInt", "unsignedInt", "Element", "FHIR.Element"}
	for _, pr := range pairs {
		xe := evalopts.EnvVariable("x", pr.elem)
		for _, f := range forms {
			base := c12Eval(env, f, nil, xe)
			if base.IsPanic() {
				env.Violatef(fx.PanicSig("C12", base), "`%s` with %%x = FHIR %s => %s", f, pr.name, base.Short())
				continue
			}
			if !base.IsValue() || len(base.Raw) != 1 {
				continue // the form does not apply to this kind of value (or yields several items)
			}
			env.Cover("computed-from-element")
			fs := strings.ReplaceAll(f, "%x", "x")
			if _, isElem := base.Raw[0].(proto.Message); isElem && f == "%x.value" {
				continue // the value of a complex element (Quantity.value) is an element: navigation, not computation
			}
			if _, isElem := base.Raw[0].(proto.Message); isElem {
				env.Violatef("C12/computed-value/is-an-element/"+fs, "`%s` with %%x = FHIR %s yields the %T itself, not a System value", f, pr.name, base.Raw[0])
				continue
			}
			declared := model.TypeRef{NS: "System", Name: fx.Render(base.Raw[0]).K}
			// the primitive's own value is the System value of the element's type (decimal -> Decimal, code -> String, ...)
			if f == "%x.value" || f == "%x.value.value" {
				if want := fx.Render(pr.sys); declared.Name != want.K {
					env.Violatef("C12/computed-value/value-of-primitive/wrong-type", "`%s` with %%x = FHIR %s is a System.%s (%s), expected a System.%s", f, pr.name, declared.Name, trunc(base.Short(), 60), want.K)
				}
			}
			for _, sp := range specs {
				target, ok := model.ResolveSpecifier(sp)
				if !ok {
					continue
				}
				want := model.IsSubtype(declared, target)
				ri := c12Eval(env, "("+f+") is "+sp, nil, xe)
				ra := c12Eval(env, "("+f+") as "+sp, nil, xe)
				if ri.IsPanic() || ra.IsPanic() {
					env.Violatef(fx.PanicSig("C12", ri), "`(%s) is/as %s` with %%x = FHIR %s => %s / %s", f, sp, pr.name, ri.Short(), ra.Short())
					continue
				}
				if ri.Bool3() != fmt.Sprint(want) {
					env.Violatef("C12/computed-value/is/"+fs, "`(%s) is %s` with %%x = FHIR %s (the value is a %s): expected %v, observed %s", f, sp, pr.name, declared, want, trunc(ri.Short(), 80))
				}
				if want && !fx.Same(ra, base) {
					env.Violatef("C12/computed-value/as/"+fs, "`(%s) as %s` with %%x = FHIR %s (the value is a %s): expected the value itself, observed %s", f, sp, pr.name, declared, trunc(ra.Short(), 80))
				} else if !want && !ra.Empty() {
					env.Violatef("C12/computed-value/as/"+fs, "`(%s) as %s` with %%x = FHIR %s (the value is a %s): expected empty, observed %s", f, sp, pr.name, declared, trunc(ra.Short(), 80))
				}
			}
		}
	}
}

// c12Selection: functions that select items (first, last, tail, skip, take, where, select($this), distinct, exclude)
// return the items themselves: an element stays an element of its FHIR type, also when it occurs several times.
func c12Selection(env *core.Env) {
	defer env.In("selection")()
	env.Case()
	for _, el := range []proto.Message{&dtpb.String{Value: "Ann"}, &dtpb.Code{Value: "c"}, &dtpb.Integer{Value: 3}, &dtpb.Decimal{Value: "1.50"}, &dtpb.Boolean{Value: true}, &dtpb.Uri{Value: "http://u"}, &dtpb.Date{ValueUs: 1577836800000000, Timezone: "UTC", Precision: dtpb.Date_DAY},
		&dtpb.HumanName{Family: &dtpb.String{Value: "F"}}, &dtpb.Quantity{Value: &dtpb.Decimal{Value: "1"}, Unit: &dtpb.String{Value: "mg"}, Code: &dtpb.Code{Value: "mg"}}} {
		coll := system.Collection{el, proto.Clone(el), el, proto.Clone(el)}
		declared, ok := model.DeclaredType(el.ProtoReflect().Descriptor())
		if !ok {
			continue
		}
		eo := evalopts.EnvVariable("d", coll)
		for _, f := range []string{"%d.first()", "%d.last()", "%d.tail().first()", "%d.skip(1).first()", "%d.take(2).last()", "%d.where(true).first()", "%d.select($this).last()", "%d.distinct().first()", "%d.distinct().last()", "%d[1]", "%d.exclude({}).first()", "iif(true, %d).first()", "%d.distinct().tail().first() | %d.distinct().first()"} {
			r := c12Eval(env, f, nil, eo)
			if r.Kind == "cerror" {
				continue
			}
			env.Cover("selection-keeps-element")
			if r.IsPanic() {
				env.Violatef(fx.PanicSig("C12", r), "`%s` on four equal %s elements => %s", f, declared, r.Short())
				continue
			}
			if !r.IsValue() || len(r.Raw) != 1 {
				continue
			}
			if m, isElem := r.Raw[0].(proto.Message); !isElem || m.ProtoReflect().Descriptor() != el.ProtoReflect().Descriptor() {
				env.Violatef("C12/selection/not-the-element/"+strings.ReplaceAll(f, "%d", "d"), "`%s` on a collection holding a %s element four times yields %s, not an element of that type", f, declared, trunc(r.Short(), 80))
				continue
			}
			ri := c12Eval(env, "("+f+") is "+declared.Name, nil, eo)
			rs := c12Eval(env, "("+f+") is System.Any", nil, eo)
			if ri.Bool3() != "true" || rs.Bool3() != "false" {
				env.Violatef("C12/selection/type-lost/"+strings.ReplaceAll(f, "%d", "d"), "`(%s) is %s` = %s, `is System.Any` = %s for a collection of %s elements", f, declared.Name, trunc(ri.Short(), 40), trunc(rs.Short(), 40), declared)
			}
		}
	}
}

func runC12(env *core.Env) {
	n := 0
	n++
	if env.Mine(n + 2) {
		c12Selection(env)
	}
	if env.Mine(n) {
		c12Sys(env)
	}
	n++
	if env.Mine(n) {
		c12Computed(env)
	}
	types := gen.ResourceTypes()
	per := env.Size(1, 8)
	for k := 0; k < per; k++ {
		for _, md := range types {
			n++
			if env.Mine(n) {
				c12Resource(env, string(md.Name()), env.Seed*104729+uint64(k), k%2 == 1)
			}
		}
	}
}
