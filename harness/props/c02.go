package props

import (
	"encoding/json"
	"errors"
	"fmt"
	"math/big"
	"sort"
	"strings"

	basicpb "github.com/google/fhir/go/proto/google/fhir/proto/r4/core/resources/basic_go_proto"
	bcrpb "github.com/google/fhir/go/proto/google/fhir/proto/r4/core/resources/bundle_and_contained_resource_go_proto"
	dtpb "github.com/google/fhir/go/proto/google/fhir/proto/r4/core/datatypes_go_proto"
	"google.golang.org/protobuf/types/known/anypb"
	"github.com/verily-src/fhirpath-go/fhirpath"
	"github.com/verily-src/fhirpath-go/fhirpath/compopts"
	"github.com/verily-src/fhirpath-go/fhirpath/evalopts"
	"github.com/verily-src/fhirpath-go/fhirpath/system"
	"github.com/verily-src/fhirpath-go/fhirpath/verifharness/core"
	"github.com/verily-src/fhirpath-go/fhirpath/verifharness/fx"
	"github.com/verily-src/fhirpath-go/fhirpath/verifharness/gen"
	"github.com/verily-src/fhirpath-go/fhirpath/verifharness/model"
	"github.com/verily-src/fhirpath-go/internal/fhir"
	"google.golang.org/protobuf/proto"
	"google.golang.org/protobuf/reflect/protoreflect"
)

// C02 — path navigation returns exactly the elements of the FHIR JSON tree.

func init() {
	core.Register(&core.Property{
		ID:   "C02",
		Rule: "schema-driven resources of every R4 type (enumerated from ContainedResource); for each, every distinct element-name path of its jsonformat JSON tree and all prefixes is evaluated un-indexed and with index vectors (all-first, all-last, seeded random); results compared with the harness' own proto/JSON walk: count, order, node identity (proto.Equal under contained), primitive values vs JSON (strings exactly, numbers via big.Rat, temporal texts as instant+precision+offset); plus mismatching root types (=> empty), valid-but-absent names (=> empty) and non-existent names (=> ErrInvalidField). special-cased names tried on every other type, every resource type name as wrong root, the value step of Boolean / number primitives, a third of the paths compiled with Permissive first; distinct_nontrivial = distinct (resource type, element path) with a non-empty expected result that was compared",
		Assumptions: []string{
			"google/fhir jsonformat output defines the resource's FHIR JSON tree; proto descriptor annotations define the schema",
			"elements under `contained` are unpacked into fresh messages by design: identity replaced by proto.Equal there",
			"System DateTime/Time carry at most millisecond precision: fractions are compared to 3 digits",
			"collections whose items have different types are only navigated by names valid on every item type",
		},
		Run:    runC02,
		Checks: map[string]func(*core.Env, []json.RawMessage){"resource": replayC02, "mixed": replayC02Mixed, "codes": replayC02Codes, "refs": replayC02Refs, "dense": replayC02Dense},
		Threshold: func(m *core.Merged) []string {
			var r []string
			if m.Cover["types"] < 146 {
				r = append(r, fmt.Sprintf("only %d resource-type instances walked", m.Cover["types"]))
			}
			for _, k := range []string{"path-compared", "indexed-compared", "filtered-compared", "value-of-temporal", "mixed-type-container", "mixed-type-step", "code-value", "dense-resource", "invalid-name", "absent-name", "wrong-root", "choice-step", "contained-step", "typed-reference", "primitive-value", "temporal-value"} {
				if m.Cover[k] == 0 {
					r = append(r, "never observed: "+k)
				}
			}
			return r
		},
	})
}

// c02AnyReuse: a contained resource is read from the resource as it is at the time of the evaluation: when the caller
// replaces the content of the same Any message between two evaluations, the second one sees the new content.
func c02AnyReuse(env *core.Env) {
	defer env.In("anyreuse")()
	env.Case()
	mk := func(id, fam string) *bcrpb.ContainedResource {
		p := gen.StdPatient()
		p.Id = &dtpb.Id{Value: id}
		p.Name[0].Family = &dtpb.String{Value: fam}
		return &bcrpb.ContainedResource{OneofResource: &bcrpb.ContainedResource_Patient{Patient: p}}
	}
	b := &basicpb.Basic{Id: &dtpb.Id{Value: "outer"}}
	a, err := anypb.New(mk("c1", "First"))
	if err != nil {
		panic("harness: anypb.New: " + err.Error())
	}
	b.Contained = append(b.Contained, a)
	in := []fhir.Resource{b}
	srcs := []string{"Basic.contained.id", "Basic.contained.name.first().family", "Basic.contained.where(id = 'c2').exists()", "Basic.contained.children().first()", "Basic.contained.name.where(family = 'Second').exists()"}
	for round, c := range []struct{ id, fam string }{{"c1", "First"}, {"c2", "Second"}, {"c3", "Third"}, {"c1", "First"}} {
		if round > 0 {
			if err := a.MarshalFrom(mk(c.id, c.fam)); err != nil {
				panic("harness: MarshalFrom: " + err.Error())
			}
		}
		for _, src := range srcs {
			r := fx.Eval(env, src, in, nil, nil)
			env.Cover("contained-reread")
			if r.IsPanic() {
				env.Violatef(fx.PanicSig("C02", r), "`%s` => %s", src, r.Short())
				continue
			}
			ok := r.IsValue()
			if ok {
				switch {
				case strings.HasSuffix(src, "exists()"):
					ok = r.Bool3() == fmt.Sprint(c.id == "c2")
				case strings.Contains(src, "family"):
					ok = len(r.Raw) == 1 && protoText(r.Raw[0]) == c.fam
				case strings.Contains(src, "descendants"):
					ok = len(r.Raw) >= 1 && protoText(r.Raw[0]) == c.id
				default:
					ok = len(r.Raw) == 1 && protoText(r.Raw[0]) == c.id
				}
			}
			if !ok {
				env.Violatef("C02/contained/stale-after-any-replaced", "round %d: the contained Any now holds Patient %s/%s, `%s` => %s", round, c.id, c.fam, src, trunc(r.Short(), 160))
			}
		}
	}
}

func protoText(v any) string {
	switch x := v.(type) {
	case *dtpb.Id:
		return x.GetValue()
	case *dtpb.String:
		return x.GetValue()
	}
	return fmt.Sprintf("?%T", v)
}

func runC02(env *core.Env) {
	types := gen.ResourceTypes()
	if env.Shard == 5%env.NShards {
		c02AnyReuse(env)
	}
	per := env.Size(1, 40)
	n := 0
	for k := 0; k < per; k++ {
		for _, md := range types {
			n++
			if !env.Mine(n) {
				continue
			}
			rich := k%2 == 1
			c02Resource(env, string(md.Name()), env.Seed*1000+uint64(k), rich)
		}
	}
	// one dense resource per type: every element of the type, two levels deep, is present and navigated
	for _, md := range types {
		n++
		if env.Mine(n) {
			c02Dense(env, string(md.Name()), env.Seed)
		}
	}
	// a typed reference to every resource type
	for _, md := range types {
		n++
		if env.Mine(n) {
			c02Refs(env, string(md.Name()))
		}
	}
	// every value of every bound code element, in one process, in both orders
	for _, rev := range []bool{false, true} {
		n++
		if env.Mine(n) {
			c02Codes(env, rev)
		}
	}
	// Bundles / contained lists mixing resource types that share a backbone element name
	gnames, groups := backboneGroups()
	rng := env.Rng("mixed")
	rounds := env.Size(1, 12)
	for k := 0; k < rounds; k++ {
		for _, gname := range gnames {
			tl := groups[gname]
			cnt := 2 + rng.Intn(2)
			var tns []string
			start := rng.Intn(len(tl))
			for i := 0; i < cnt && i < len(tl); i++ {
				tns = append(tns, tl[(start+i*(1+rng.Intn(3)))%len(tl)])
			}
			vc := rng.Intn(3) == 0
			sd := env.Seed*1000 + uint64(k)*17 + rng.Next()%1000
			n++
			if env.Mine(n) {
				c02Mixed(env, gname, tns, sd, vc)
			}
		}
	}
}

func replayC02Mixed(env *core.Env, a []json.RawMessage) {
	var group string
	var tns []string
	var seed uint64
	var vc bool
	json.Unmarshal(a[0], &group)
	json.Unmarshal(a[1], &tns)
	json.Unmarshal(a[2], &seed)
	json.Unmarshal(a[3], &vc)
	c02Mixed(env, group, tns, seed, vc)
}

func replayC02(env *core.Env, a []json.RawMessage) {
	var tn string
	var seed uint64
	var rich bool
	json.Unmarshal(a[0], &tn)
	json.Unmarshal(a[1], &seed)
	json.Unmarshal(a[2], &rich)
	c02Resource(env, tn, seed, rich)
}

// genResource builds the deterministic resource for (type, seed, rich).
func genResource(tn string, seed uint64, rich bool) (fhir.Resource, *gen.ResGen) {
	md := gen.ResourceTypeByName(tn)
	g := gen.NewResGen(core.NewRng(seed, "res", tn), rich)
	return g.Resource(md), g
}

type pathCase struct {
	names []string
}

// validOnAll reports whether name is an element (JSON field name) of every node's message type.
func validOnAll(nodes []*model.Node, name string) bool {
	for _, n := range nodes {
		if n.MD == nil || !hasElement(n.MD, name) {
			return false
		}
	}
	return true
}

func hasElement(md protoreflect.MessageDescriptor, name string) bool {
	if gen.IsReference(md) && name == "reference" {
		return true
	}
	fs := md.Fields()
	for i := 0; i < fs.Len(); i++ {
		if fs.Get(i).JSONName() == name && fs.Get(i).Message() != nil {
			if gen.IsReference(md) && fs.Get(i).ContainingOneof() != nil {
				continue
			}
			return true
		}
	}
	return false
}

func sameTypes(nodes []*model.Node) bool {
	for _, n := range nodes {
		if n.MD != nodes[0].MD {
			return false
		}
	}
	return true
}

func c02Resource(env *core.Env, tn string, seed uint64, rich bool) {
	defer env.In("resource", tn, seed, rich)()
	res, _ := genResource(tn, seed, rich)
	c02Walk(env, tn, res, seed, 400)
}

// codeWrappers enumerates every value-set bound code message (enum valued) reachable from the resource types.
func codeWrappers() []protoreflect.MessageDescriptor {
	seen := map[protoreflect.FullName]bool{}
	var out []protoreflect.MessageDescriptor
	var walk func(md protoreflect.MessageDescriptor)
	walk = func(md protoreflect.MessageDescriptor) {
		if md == nil || seen[md.FullName()] || gen.IsAny(md) {
			return
		}
		seen[md.FullName()] = true
		if gen.IsCodeWrapper(md) {
			if vf := md.Fields().ByName("value"); vf != nil && vf.Kind() == protoreflect.EnumKind {
				out = append(out, md)
			}
			return
		}
		fs := md.Fields()
		for i := 0; i < fs.Len(); i++ {
			walk(fs.Get(i).Message())
		}
	}
	for _, md := range gen.ResourceTypes() {
		walk(md)
	}
	sort.Slice(out, func(i, j int) bool { return out[i].FullName() < out[j].FullName() })
	return out
}

// c02Codes: every value of every bound code element, all in one process and in two orders, must read as its
// FHIR code (fhir_original_code annotation, else the lower-kebab enum name) - also when another value set has a
// constant of the same name or number.
func c02Codes(env *core.Env, reverse bool) {
	defer env.In("codes", reverse)()
	ws := codeWrappers()
	if reverse {
		for i, j := 0, len(ws)-1; i < j; i, j = i+1, j-1 {
			ws[i], ws[j] = ws[j], ws[i]
		}
	}
	exStr, _ := fx.Compile(env, "%x.toString()")
	exEq, _ := fx.Compile(env, "%x = %c")
	if exStr == nil || exEq == nil {
		env.Skip("code-probe-does-not-compile")
		return
	}
	for _, md := range ws {
		vf := md.Fields().ByName("value")
		vals := vf.Enum().Values()
		for i := 0; i < vals.Len(); i++ {
			ev := vals.Get(i)
			if ev.Number() == 0 {
				continue
			}
			want := gen.OriginalCode(ev)
			m := gen.NewMessage(md)
			m.Set(vf, protoreflect.ValueOfEnum(ev.Number()))
			env.Case()
			env.Cover("code-value")
			r := fx.Evaluate(env, exStr, nil, evalopts.EnvVariable("x", m.Interface()))
			d := fmt.Sprintf("%s value %s", md.FullName(), ev.Name())
			if r.IsPanic() {
				env.Violatef(fx.PanicSig("C02", r), "%s: toString() => %s", d, r.Short())
				continue
			}
			if it, ok := r.Single(); !ok || it.K != "String" || it.T != want {
				env.Violatef("C02/code-element/wrong-code", "%s reads as %s, its FHIR code is %q", d, trunc(r.Short(), 80), want)
				continue
			}
			r2 := fx.Evaluate(env, exEq, nil, evalopts.EnvVariable("x", m.Interface()), evalopts.EnvVariable("c", system.String(want)))
			if r2.Bool3() != "true" {
				env.Violatef("C02/code-element/not-equal-to-its-code", "%s = %q is %s", d, want, trunc(r2.Short(), 80))
			}
			env.Distinct("code|" + string(md.FullName()) + "|" + string(ev.Name()))
		}
	}
}

// c02Refs: a typed (strong) reference to every one of the 146 resource types, with and without a version,
// walked like any other resource (the `reference` step must read back the jsonformat string).
func c02Refs(env *core.Env, tn string) {
	defer env.In("refs", tn)()
	b := &basicpb.Basic{Id: &dtpb.Id{Value: "r"}, Subject: strongRef(tn, "id-1", ""), Author: strongRef(tn, "A.b-2", "7")}
	if b.Subject == nil {
		env.Skip("no-typed-reference-member")
		return
	}
	b.Subject.Display = &dtpb.String{Value: "shown"}
	env.Cover("typed-reference-target")
	c02Walk(env, "Basic", b, 0, 400)
}

func c02Dense(env *core.Env, tn string, seed uint64) {
	defer env.In("dense", tn, seed)()
	g := gen.NewDenseResGen(core.NewRng(seed, "c02-dense", tn))
	res := g.Resource(gen.ResourceTypeByName(tn))
	env.Cover("dense-resource")
	c02Walk(env, tn, res, seed, 1200)
}

func replayC02Dense(env *core.Env, a []json.RawMessage) {
	var tn string
	var seed uint64
	json.Unmarshal(a[0], &tn)
	json.Unmarshal(a[1], &seed)
	c02Dense(env, tn, seed)
}

func replayC02Refs(env *core.Env, a []json.RawMessage) {
	var tn string
	json.Unmarshal(a[0], &tn)
	c02Refs(env, tn)
}

func replayC02Codes(env *core.Env, a []json.RawMessage) {
	var rev bool
	json.Unmarshal(a[0], &rev)
	c02Codes(env, rev)
}

// backboneGroups maps the JSON name of a backbone element (a message nested in its resource's message)
// to the resource types that have one of that name, for names shared by at least two types.
func backboneGroups() (names []string, groups map[string][]string) {
	groups = map[string][]string{}
	for _, md := range gen.ResourceTypes() {
		fs := md.Fields()
		for i := 0; i < fs.Len(); i++ {
			fd := fs.Get(i)
			if fd.Message() == nil || fd.Message().Parent() != protoreflect.Descriptor(md) || gen.IsPrimitive(fd.Message()) || gen.IsChoice(fd.Message()) || gen.IsCodeWrapper(fd.Message()) {
				continue
			}
			groups[fd.JSONName()] = append(groups[fd.JSONName()], string(md.Name()))
		}
	}
	for k, v := range groups {
		if len(v) < 2 {
			delete(groups, k)
			continue
		}
		names = append(names, k)
	}
	sort.Strings(names)
	return
}

// c02Mixed walks a Bundle (or a resource's `contained` list) whose entries are resources of different types
// that all have a backbone element of the same name: un-indexed steps then run over collections mixing
// different message types that share element names.
func c02Mixed(env *core.Env, group string, tns []string, seed uint64, viaContained bool) {
	defer env.In("mixed", group, tns, seed, viaContained)()
	res, tn, _ := buildMixed(group, tns, seed, viaContained)
	env.Cover("mixed-type-container")
	c02Walk(env, tn, res, seed, 2500)
}

// buildMixed builds the mixed-type container and also returns the member resources.
func buildMixed(group string, tns []string, seed uint64, viaContained bool) (fhir.Resource, string, []fhir.Resource) {
	var crs []*bcrpb.ContainedResource
	var members []fhir.Resource
	for i, tn := range tns {
		md := gen.ResourceTypeByName(tn)
		g := gen.NewResGen(core.NewRng(seed+uint64(i), "mixed", tn), false)
		g.NoContained = true
		r := g.Resource(md)
		rm := r.ProtoReflect()
		fs := md.Fields()
		for k := 0; k < fs.Len(); k++ {
			fd := fs.Get(k)
			if fd.JSONName() != group || fd.Message() == nil {
				continue
			}
			g.MaxDepth, g.Fill, g.Budget = 4, 80, 60
			if fd.IsList() {
				l := rm.Mutable(fd).List()
				for l.Len() < 2 {
					if v := g.Value(fd, 1); v != nil {
						l.Append(protoreflect.ValueOfMessage(v))
					} else {
						break
					}
				}
			} else if !rm.Has(fd) {
				if v := g.Value(fd, 1); v != nil {
					rm.Set(fd, protoreflect.ValueOfMessage(v))
				}
			}
		}
		cr := &bcrpb.ContainedResource{}
		cr.ProtoReflect().Set(gen.ContainedFieldFor(md), protoreflect.ValueOfMessage(rm))
		crs = append(crs, cr)
		members = append(members, r)
	}
	var res fhir.Resource
	tn := "Bundle"
	if viaContained {
		tn = "Basic"
		b := &basicpb.Basic{Id: &dtpb.Id{Value: "mixed"}}
		for _, cr := range crs {
			a, err := anypb.New(cr)
			if err != nil {
				panic("harness: anypb.New: " + err.Error())
			}
			b.Contained = append(b.Contained, a)
		}
		res = b
	} else {
		b := &bcrpb.Bundle{Id: &dtpb.Id{Value: "mixed"}}
		for _, cr := range crs {
			b.Entry = append(b.Entry, &bcrpb.Bundle_Entry{Resource: cr})
		}
		res = b
	}
	return res, tn, members
}

func c02Walk(env *core.Env, tn string, res fhir.Resource, seed uint64, maxPaths int) {
	tree, err := model.BuildTree(res)
	if err != nil {
		env.Skip("resource-not-marshallable")
		return
	}
	env.Cover("types")
	env.Case()
	in := []fhir.Resource{res}
	rng := core.NewRng(seed, "c02paths", tn)

	// Enumerate distinct name paths (breadth-first over the expected node sets).
	type entry struct {
		names []string
		nodes []*model.Node
	}
	queue := []entry{{nil, []*model.Node{tree}}}
	seenPaths := 0
	for len(queue) > 0 {
		cur := queue[0]
		queue = queue[1:]
		if len(cur.names) > 0 {
			c02ComparePath(env, tn, in, tree, cur.names, cur.nodes, rng)
			seenPaths++
		}
		if len(cur.names) >= 7 || seenPaths > maxPaths {
			continue
		}
		// child names in first-occurrence order across the node set
		seen := map[string]bool{}
		var names []string
		for _, n := range cur.nodes {
			for _, kn := range n.KidNames() {
				if !seen[kn] {
					seen[kn] = true
					names = append(names, kn)
				}
			}
		}
		for _, kn := range names {
			if !validOnAll(cur.nodes, kn) {
				env.Skip("mixed-type-collection-step")
				continue
			}
			var kids []*model.Node
			for _, n := range cur.nodes {
				kids = append(kids, n.KidsNamed(kn)...)
			}
			if !sameTypes(cur.nodes) {
				env.Cover("mixed-type-step")
			}
			nn := append(append([]string{}, cur.names...), kn)
			queue = append(queue, entry{nn, kids})
		}
		// names that are not elements / valid-but-absent, on a few node sets
		if sameTypes(cur.nodes) && len(cur.nodes) > 0 && cur.nodes[0].Synth == nil && (len(cur.names) == 0 || rng.Intn(6) == 0) {
			c02NameChecks(env, tn, in, cur.names, cur.nodes, rng)
		}
	}
	// wrong root type => empty
	other := "Observation"
	if tn == "Observation" {
		other = "Patient"
	}
	roots := []string{other, other + ".id", other + ".meta.lastUpdated"}
	// every other resource type name as root (names that are a prefix, suffix or part of this one included), and the
	// abstract / data type names
	for _, md := range gen.ResourceTypes() {
		if o := string(md.Name()); o != tn {
			roots = append(roots, o+".id")
			if strings.Contains(tn, o) || strings.Contains(o, tn) {
				roots = append(roots, o, o+".meta", o+".id.value", o+".text.status")
			}
		}
	}
	for _, p := range roots {
		r := fx.Eval(env, p, in, nil, nil)
		env.Cover("wrong-root")
		if !r.Empty() {
			if r.IsPanic() {
				env.Violatef(fx.PanicSig("C02", r), "`%s` on a %s => %s", p, tn, r.Short())
			} else {
				env.Violatef("C02/wrong-root-type/not-empty", "`%s` on a %s must be empty, got %s", p, tn, r.Short())
			}
		}
	}
}

func namesToSteps(names []string) []model.Step {
	var s []model.Step
	for _, n := range names {
		s = append(s, model.Step{Kind: "name", Name: n})
	}
	return s
}

// classify the route: does the path go through a choice wrapper not named ...ValueX, a contained resource, etc.
func routeInfo(nodes []*model.Node) (nonValueXChoice string, anyChoice, contained, synth bool) {
	for _, n := range nodes {
		for c := n; c != nil; c = c.Parent {
			if c.ChoiceMsg != "" {
				anyChoice = true
				if !strings.HasSuffix(c.ChoiceMsg, "ValueX") && nonValueXChoice == "" {
					nonValueXChoice = c.ChoiceMsg
				}
			}
			if c.Fresh {
				contained = true
			}
		}
		if n.Synth != nil {
			synth = true
		}
	}
	return
}

// unreachableName: element names that do not survive the snake/camel round trip of common case converters
// are a recorded finding class; the classifier here is purely lexical (digits or consecutive capitals, or a keyword).
func lexicallyOdd(name string) bool {
	// (element names with digits or runs of capitals - valueBase64Binary, carrierHRF - and the keyword `div`
	// used to be excluded while the repository could not reach them; since the repairs of section 10.2 they
	// are walked like every other name)
	return false
}

func c02ComparePath(env *core.Env, tn string, in []fhir.Resource, tree *model.Node, names []string, expect []*model.Node, rng *core.Rng) {
	steps := namesToSteps(names)
	src := model.RenderPath(tn, steps)
	// history: a third of the paths are first compiled and evaluated with other options (Permissive, which navigates
	// differently); the default compilation that follows is the one compared with the model
	if core.Hash64(src)%3 == 0 {
		env.Cover("other-options-first")
		if pr := fx.EvalK(env, "permissive", src, in, []fhirpath.CompileOption{compopts.Permissive()}, nil); pr.IsPanic() {
			env.Violatef(fx.PanicSig("C02", pr), "`%s` [Permissive] on %s => %s", src, tn, pr.Short())
		}
	}
	r := fx.Eval(env, src, in, nil, nil)
	env.Cover("path-compared")
	// the four keywords the grammar also admits as identifiers (as, contains, in, is) need no back-ticks as element names
	if plain := strings.ReplaceAll(src, "`", ""); plain != src {
		plainOK := true
		for _, nm := range names {
			if model.IdentSrc(nm) != nm && nm != "as" && nm != "contains" && nm != "in" && nm != "is" {
				plainOK = false
			}
		}
		if plainOK {
			env.Cover("keyword-element-plain-spelling")
			rp := fx.Eval(env, plain, in, nil, nil)
			if !fx.Same(rp, r) && !(rp.IsError() && r.IsError()) {
				env.Violatef("C02/navigation/keyword-element-plain-spelling", "`%s` on %s gives %s, the delimited spelling `%s` gives %s", plain, tn, trunc(rp.Short(), 120), src, trunc(r.Short(), 120))
			}
		}
	}
	if len(expect) > 0 {
		env.Distinct(tn + "|" + strings.Join(names, "."))
	}
	c02Judge(env, tn, src, in, tree, names, expect, r)
	env.SampleSpread(src, map[string]any{"type": tn, "path": src, "expected_count": len(expect), "observed": trunc(r.Short(), 200)})

	// indexed variants
	if len(expect) == 0 {
		return
	}
	for variant := 0; variant < 3; variant++ {
		var st []model.Step
		cur := []*model.Node{tree}
		for _, nm := range names {
			st = append(st, model.Step{Kind: "name", Name: nm})
			cur = model.Walk(cur, []model.Step{{Kind: "name", Name: nm}})
			if len(cur) == 0 {
				break
			}
			var idx int
			switch variant {
			case 0:
				idx = 0
			case 1:
				idx = len(cur) - 1
			default:
				idx = rng.Intn(len(cur) + 1) // may be one past the end
			}
			if variant == 2 && rng.Intn(3) == 0 {
				continue // leave this step un-indexed
			}
			st = append(st, model.Step{Kind: "index", N: idx})
			cur = model.Walk(cur, []model.Step{{Kind: "index", N: idx}})
		}
		isrc := model.RenderPath(tn, st)
		want := model.Walk([]*model.Node{tree}, st)
		ri := fx.Eval(env, isrc, in, nil, nil)
		env.Cover("indexed-compared")
		c02Judge(env, tn, isrc, in, tree, names, want, ri)
	}
	// one index only, after un-indexed steps (the index then counts over the elements of all parents, of which some lack the element)
	for variant := 0; variant < 3; variant++ {
		pos := len(names) - 1
		if variant == 2 {
			pos = rng.Intn(len(names))
		}
		var st []model.Step
		cur := []*model.Node{tree}
		for i, nm := range names {
			st = append(st, model.Step{Kind: "name", Name: nm})
			cur = model.Walk(cur, []model.Step{{Kind: "name", Name: nm}})
			if i == pos {
				idx := len(cur) - 1
				if variant >= 1 && len(cur) > 0 {
					idx = 1 + rng.Intn(len(cur))
				}
				if idx < 0 {
					idx = 0
				}
				st = append(st, model.Step{Kind: "index", N: idx})
				cur = model.Walk(cur, []model.Step{{Kind: "index", N: idx}})
			}
		}
		isrc := model.RenderPath(tn, st)
		want := model.Walk([]*model.Node{tree}, st)
		ri := fx.Eval(env, isrc, in, nil, nil)
		env.Cover("single-index-compared")
		c02Judge(env, tn, isrc, in, tree, names, want, ri)
	}
	// subsetting / filter steps of the walker's sub-language placed after a random prefix
	for k := 0; k < 2; k++ {
		cut := 1 + rng.Intn(len(names))
		pre := namesToSteps(names[:cut])
		cur := model.Walk([]*model.Node{tree}, pre)
		if len(cur) == 0 {
			continue
		}
		var extra model.Step
		switch rng.Intn(7) {
		case 0:
			extra = model.Step{Kind: "first"}
		case 1:
			extra = model.Step{Kind: "last"}
		case 2:
			extra = model.Step{Kind: "tail"}
		case 3:
			extra = model.Step{Kind: "skip", N: rng.Intn(len(cur)+2) - 1}
		case 4:
			extra = model.Step{Kind: "take", N: rng.Intn(len(cur)+2) - 1}
		case 5:
			// where(field.exists()) on a child present in some item
			if cur[0].IsPrim || cur[0].Synth != nil || !sameTypes(cur) {
				continue
			}
			kn := cur[rng.Intn(len(cur))].KidNames()
			if len(kn) == 0 {
				continue
			}
			f := kn[rng.Intn(len(kn))]
			if lexicallyOdd(f) {
				continue
			}
			extra = model.Step{Kind: "whereExists", Field: f}
		default:
			extra = model.Step{Kind: "extension", Lit: []string{"http://example.org/ext/a", "http://example.org/ext/b", "http://none"}[rng.Intn(3)]}
			if cur[0].Synth != nil {
				continue
			}
		}
		st := append(append([]model.Step{}, pre...), extra)
		st = append(st, namesToSteps(names[cut:])...)
		if extra.Kind == "extension" {
			st = st[:len(pre)+1] // what follows an extension step is a different path
		}
		fsrc := model.RenderPath(tn, st)
		want := model.Walk([]*model.Node{tree}, st)
		rf := fx.Eval(env, fsrc, in, nil, nil)
		env.Cover("filtered-compared")
		c02Judge(env, tn, fsrc, in, tree, names, want, rf)
	}
	// `.value` of date/time primitives renders the FHIR text of the JSON value
	if expect[0].IsPrim && expect[0].MD != nil && expect[0].JSON != nil && len(expect) == 1 {
		switch string(expect[0].MD.Name()) {
		case "Date", "DateTime", "Instant", "Time":
			kind := string(expect[0].MD.Name())
			if kind == "Instant" {
				kind = "DateTime"
			}
			vs := fx.Eval(env, src+".value", in, nil, nil)
			env.Cover("value-of-temporal")
			js, _ := expect[0].JSON.(string)
			jt, ok1 := model.ParseTemporal(kind, js)
			it, single := vs.Single()
			gt, ok2 := model.ParseTemporal(kind, it.T)
			nonVX, _, _, _ := routeOfNames(tree, names)
			if ok1 && nonVX == "" && (!single || it.K != "String" || !ok2 || !model.SameTemporal(jt, gt, 6)) {
				if vs.IsPanic() {
					env.Violatef(fx.PanicSig("C02", vs), "`%s.value` => %s", src, vs.Short())
				} else {
					env.Violatef("C02/value-of-temporal/"+string(expect[0].MD.Name()), "`%s.value` on %s: JSON %q, observed %s", src, tn, js, trunc(vs.Short(), 120))
				}
			}
		}
	}
}

func trunc(s string, n int) string {
	if len(s) > n {
		return s[:n] + "…"
	}
	return s
}

// routeOfNames collects route information over every prefix of the (un-indexed) name path, so that an
// indexed or filtered variant with an empty expectation is still attributed to the route it travels.
func routeOfNames(tree *model.Node, names []string) (nonVX string, anyChoice, contained, synth bool) {
	cur := []*model.Node{tree}
	for _, nm := range names {
		cur = model.Walk(cur, []model.Step{{Kind: "name", Name: nm}})
		a, b, c, d := routeInfo(cur)
		if nonVX == "" {
			nonVX = a
		}
		anyChoice, contained, synth = anyChoice || b, contained || c, synth || d
	}
	return
}

func c02Judge(env *core.Env, tn, src string, in []fhir.Resource, tree *model.Node, names []string, expect []*model.Node, r fx.Res) {
	nonVX, anyChoice, contained, synth := routeOfNames(tree, names)
	if anyChoice {
		env.Cover("choice-step")
	}
	if contained {
		env.Cover("contained-step")
	}
	if synth {
		env.Cover("typed-reference")
	}
	odd := ""
	for _, n := range names {
		if lexicallyOdd(n) {
			odd = n
		}
	}
	fail := func(kind, detail string) {
		switch {
		case odd != "" && r.IsError() && errors.Is(r.Err, fhirpath.ErrInvalidField):
			env.Violatef("C02/unreachable-element-name/"+odd, "`%s` on %s: element `%s` exists in the JSON tree (%d nodes) but navigation fails: %s", src, tn, odd, len(expect), r.Short())
		case odd == "div" && r.Kind == "cerror":
			env.Violatef("C02/unreachable-element-name/div", "`%s` on %s: keyword-named element cannot be compiled: %s", src, tn, r.Short())
		case nonVX != "":
			env.Violatef("C02/choice-wrapped/"+nonVX, "`%s` on %s: %s: %s; observed %s", src, tn, kind, detail, trunc(r.Short(), 300))
		default:
			if r.IsPanic() {
				env.Violatef(fx.PanicSig("C02", r), "`%s` on %s => %s", src, tn, r.Short())
				return
			}
			env.Violatef("C02/navigation/"+kind, "`%s` on %s: %s; expected %d node(s), observed %s", src, tn, detail, len(expect), trunc(r.Short(), 300))
		}
	}
	if !r.IsValue() {
		if len(expect) == 0 && r.IsError() && nonVX == "" {
			// an error on a path whose expectation is empty: only acceptable if an earlier step legitimately cannot be typed; the
			// statement demands empty for valid names, so this is a deviation.
			fail("error-instead-of-empty", "valid element path yields an error")
			return
		}
		fail("error-instead-of-value", "evaluation did not return a collection")
		return
	}
	if len(r.Raw) != len(expect) {
		fail("wrong-count", fmt.Sprintf("count %d != expected %d", len(r.Raw), len(expect)))
		return
	}
	for i, want := range expect {
		got := r.Raw[i]
		if want.Synth != nil {
			s, ok := got.(interface{ GetValue() string })
			if !ok || s.GetValue() != *want.Synth {
				fail("wrong-reference-string", fmt.Sprintf("item %d: want reference %q", i, *want.Synth))
				return
			}
			continue
		}
		gm, ok := got.(proto.Message)
		if !ok {
			fail("wrong-item-kind", fmt.Sprintf("item %d is %T, want element %s", i, got, want.MD.Name()))
			return
		}
		if want.UnderFresh() {
			if !proto.Equal(gm, want.Msg) {
				fail("wrong-node", fmt.Sprintf("item %d (under contained) is not structurally the expected %s", i, want.MD.Name()))
				return
			}
		} else if gm != want.Msg {
			fail("wrong-node", fmt.Sprintf("item %d is not the input's own node (want %s #%d, got %s)", i, want.MD.Name(), want.Index, fx.Render(got)))
			return
		}
		if want.IsPrim {
			c02PrimitiveValue(env, tn, src, want, got, fail)
		}
	}
	// the `value` step of Boolean and number primitives: one System value per element, equal to the JSON value
	// (false and 0 are values like any other)
	simple := len(expect) > 0
	for _, want := range expect {
		switch want.JSON.(type) {
		case bool, json.Number:
			if !want.IsPrim || want.Synth != nil {
				simple = false
			}
		default:
			simple = false
		}
	}
	if simple {
		rv := fx.Eval(env, src+".value", in, nil, nil)
		env.Cover("value-step")
		if rv.IsPanic() {
			env.Violatef(fx.PanicSig("C02", rv), "`%s.value` on %s => %s", src, tn, rv.Short())
			return
		}
		if !rv.IsValue() || len(rv.Items) != len(expect) {
			fail("value-step/wrong-count", fmt.Sprintf("`%s.value` gives %s for %d primitive element(s) with a value", src, trunc(rv.Short(), 120), len(expect)))
			return
		}
		for i, want := range expect {
			it := rv.Items[i]
			switch jv := want.JSON.(type) {
			case bool:
				if it.K != "Boolean" || it.T != fmt.Sprint(jv) {
					fail("value-step/wrong-value", fmt.Sprintf("`%s.value` item %d: JSON %v vs %s", src, i, jv, it))
				}
			case json.Number:
				jr, ok1 := new(big.Rat).SetString(jv.String())
				gr, ok2 := new(big.Rat).SetString(it.T)
				if !ok1 || !ok2 || jr.Cmp(gr) != 0 {
					fail("value-step/wrong-value", fmt.Sprintf("`%s.value` item %d: JSON number %s vs %s", src, i, jv, it))
				}
			}
		}
	}
}

// c02PrimitiveValue compares system.From(item) with the JSON value.
func c02PrimitiveValue(env *core.Env, tn, src string, want *model.Node, got any, fail func(kind, detail string)) {
	if want.JSON == nil {
		return // value-less primitive (extension only)
	}
	var sv system.Any
	var err error
	out := env.Guard("system.From "+src, func() { sv, err = system.From(got) })
	env.Eval(1)
	env.Cover("primitive-value")
	if out.Panicked || out.Dead {
		env.Violatef("C02/panic@"+out.Site+"/system.From", "system.From on result of `%s` panicked: %s", src, out.PanicMsg)
		return
	}
	if err != nil {
		fail("primitive-not-convertible", fmt.Sprintf("system.From(%s) error: %v", want.MD.Name(), err))
		return
	}
	it := fx.Render(sv)
	switch jv := want.JSON.(type) {
	case bool:
		if it.K != "Boolean" || it.T != fmt.Sprint(jv) {
			fail("wrong-primitive-value", fmt.Sprintf("JSON %v vs %s", jv, it))
		}
	case json.Number:
		jr, ok1 := new(big.Rat).SetString(jv.String())
		gr, ok2 := new(big.Rat).SetString(it.T)
		if !ok1 || !ok2 || (it.K != "Integer" && it.K != "Decimal") || jr.Cmp(gr) != 0 {
			fail("wrong-primitive-value", fmt.Sprintf("JSON number %s vs %s", jv, it))
		}
	case string:
		switch string(want.MD.Name()) {
		case "Date", "DateTime", "Instant", "Time":
			kind := string(want.MD.Name())
			if kind == "Instant" {
				kind = "DateTime"
			}
			env.Cover("temporal-value")
			jt, ok1 := model.ParseTemporal(kind, jv)
			gt, ok2 := model.ParseTemporal(kind, it.T)
			if !ok1 {
				env.Skip("json-temporal-unparsed")
				return
			}
			if it.K != kind || !ok2 || !model.SameTemporal(jt, gt, 3) {
				fail("wrong-temporal-value", fmt.Sprintf("JSON %q vs %s", jv, it))
			}
		default:
			if it.K != "String" || it.T != jv {
				fail("wrong-primitive-value", fmt.Sprintf("JSON %q vs %s", jv, it))
			}
		}
	}
}

// c02NameChecks: non-existent names => ErrInvalidField; valid-but-absent names => empty.
func c02NameChecks(env *core.Env, tn string, in []fhir.Resource, names []string, nodes []*model.Node, rng *core.Rng) {
	md := nodes[0].MD
	if md == nil {
		return
	}
	nonVX, _, _, _ := routeInfo(nodes)
	if nonVX != "" {
		return // downstream of a recorded choice defect; covered by that finding
	}
	for _, n := range names {
		if lexicallyOdd(n) {
			return // downstream of the recorded unreachable-name class
		}
	}
	base := model.RenderPath(tn, namesToSteps(names))
	bad := []string{"zzNotAField", "fooBar", "x9"}
	// elements of other types
	for _, cand := range []string{"birthDate", "valueQuantity", "given", "effective", "subject", "div", "coding", "family", "display", "type", "identifier", "system", "code", "unit", "text", "start", "end", "entry", "name", "status", "period", "meta", "versionId", "lastUpdated", "Observation", "Patient", "Location", "Resource", "Element", "Bundle"} {
		if !hasElement(md, cand) {
			bad = append(bad, cand)
		}
	}
	// names the navigation code treats specially for some type (reference of a Reference, value of a primitive,
	// resource of an entry, contained, url of an extension): on any other type they are unknown names like the rest
	alwaysBad := map[int]bool{}
	for _, cand := range []string{"reference", "value", "resource", "contained", "url", "resourceType", "fhir_comments"} {
		if !hasElement(md, cand) && !(cand == "value" && gen.IsPrimitive(md)) {
			alwaysBad[len(bad)] = true
			bad = append(bad, cand)
		}
	}
	// snake_case spelling of an existing multi-word field, and proto-only pseudo fields
	fs := md.Fields()
	for i := 0; i < fs.Len(); i++ {
		if strings.Contains(string(fs.Get(i).Name()), "_") && fs.Get(i).Message() != nil {
			bad = append(bad, string(fs.Get(i).Name()))
			break
		}
	}
	switch string(md.Name()) {
	case "Date", "DateTime", "Instant", "Time":
		bad = append(bad, "valueUs", "precision", "timezone")
	}
	// an existing element name in another letter case / with another word separator: still not an element
	must := map[int]bool{}
	for i := 0; i < fs.Len(); i++ {
		fd := fs.Get(i)
		jn := fd.JSONName()
		if fd.Message() == nil || lexicallyOdd(jn) || len(jn) < 2 || (gen.IsReference(md) && fd.ContainingOneof() != nil) {
			continue
		}
		variants := []string{strings.ToUpper(jn[:1]) + jn[1:], strings.ToUpper(jn)}
		if strings.Contains(string(fd.Name()), "_") {
			variants = append(variants, "`"+strings.ReplaceAll(string(fd.Name()), "_", "-")+"`", "`"+strings.ReplaceAll(string(fd.Name()), "_", " ")+"`")
		}
		for _, v := range variants {
			if v != jn && !hasElement(md, strings.Trim(v, "`")) {
				must[len(bad)] = true
				bad = append(bad, v)
			}
		}
		if len(must) >= 4 {
			break
		}
	}
	pick := map[int]bool{}
	for len(pick) < 4 && len(pick) < len(bad) {
		pick[rng.Intn(len(bad))] = true
	}
	for i, b := range bad {
		if !pick[i] && i > 1 && !must[i] && !alwaysBad[i] {
			continue
		}
		src := base + "." + b
		r := fx.Eval(env, src, in, nil, nil)
		env.Cover("invalid-name")
		switch {
		case r.IsPanic():
			env.Violatef(fx.PanicSig("C02", r), "`%s` => %s", src, r.Short())
		case r.Kind == "cerror":
			// the harness' own malformed identifier (e.g. keyword) — not an observation
			env.Skip("invalid-name-not-compilable")
		case r.IsValue():
			env.Violatef("C02/invalid-name/value-instead-of-ErrInvalidField", "`%s` on %s: `%s` is not an element of %s but evaluation returned %s", src, tn, b, md.Name(), trunc(r.Short(), 200))
		case !errors.Is(r.Err, fhirpath.ErrInvalidField):
			env.Violatef("C02/invalid-name/other-error", "`%s` on %s: error is not ErrInvalidField: %v", src, tn, r.Err)
		}
	}
	// valid but absent
	cnt := 0
	for i := 0; i < fs.Len() && cnt < 3; i++ {
		fd := fs.Get(i)
		if fd.Message() == nil || (gen.IsReference(md) && fd.ContainingOneof() != nil) {
			continue
		}
		nm := fd.JSONName()
		present := false
		for _, n := range nodes {
			if len(n.KidsNamed(nm)) > 0 {
				present = true
			}
		}
		if present || lexicallyOdd(nm) || rng.Intn(3) != 0 {
			continue
		}
		cnt++
		src := base + "." + model.IdentSrc(nm)
		r := fx.Eval(env, src, in, nil, nil)
		env.Cover("absent-name")
		if r.IsPanic() {
			env.Violatef(fx.PanicSig("C02", r), "`%s` => %s", src, r.Short())
		} else if !r.Empty() {
			env.Violatef("C02/absent-element/not-empty", "`%s` on %s: valid but absent element must yield empty, got %s", src, tn, trunc(r.Short(), 200))
		}
	}
}
