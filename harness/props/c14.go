package props

import (
	"encoding/json"
	"fmt"
	"math"
	"strings"

	"google.golang.org/protobuf/reflect/protoreflect"
	"unicode"
	"unicode/utf8"

	dtpb "github.com/google/fhir/go/proto/google/fhir/proto/r4/core/datatypes_go_proto"
	"github.com/verily-src/fhirpath-go/fhirpath"
	"github.com/verily-src/fhirpath-go/fhirpath/evalopts"
	"github.com/verily-src/fhirpath-go/fhirpath/system"
	"github.com/verily-src/fhirpath-go/fhirpath/verifharness/core"
	"github.com/verily-src/fhirpath-go/fhirpath/verifharness/fx"
	"github.com/verily-src/fhirpath-go/fhirpath/verifharness/gen"
	"github.com/verily-src/fhirpath-go/fhirpath/verifharness/model"
)

// C14 — string functions operate on characters and are mutually consistent.

func init() {
	core.Register(&core.Property{
		ID:   "C14",
		Rule: "strings over {a, B, é(2-byte), €(3-byte), 😀(4-byte), U+0301 combining, space, quote}: exhaustive up to length 4 (quick: 3 over 6 symbols) plus seeded random up to length 12; for each: length, toChars, upper, lower; substring for all start in [-2,len+2] x length in {omitted,-1..len+2, MaxInt32, MinInt32}; indexOf/startsWith/endsWith/contains/replace for all substrings, near-misses and ''; receivers as System strings, FHIR string/code/id/markdown/uri elements and literals; compared with a rune-based reference; all returned strings checked for valid UTF-8; the four laws of the statement. one character on either side of every UTF-8 length / lead-byte boundary (U+0080, U+07FF, U+0800, U+0FFF, U+1000, U+D7FF, U+E000, U+10000, U+40000, U+100000, U+10FFFD) alone and between others; xhtml carrier, U+FFFD / regex metacharacters / $-templates in the alphabets, the receiver read several times through one carrier; distinct_nontrivial = distinct (function, string, arguments) cases with a non-ASCII receiver or pattern",
		Assumptions: []string{"a negative substring length is not constrained beyond totality and UTF-8 validity; length 0 may be '' or empty",
			"upper/lower are compared with per-rune Unicode simple case mapping"},
		Run:    runC14,
		Checks: map[string]func(*core.Env, []json.RawMessage){"str": replayC14},
		Threshold: func(m *core.Merged) []string {
			var r []string
			for _, k := range []string{"length", "substring1", "substring2", "indexOf", "toChars", "startsWith", "endsWith", "contains", "replace", "upper", "lower", "law", "non-ascii", "carrier:fhir", "carrier:lit"} {
				if m.Cover[k] == 0 {
					r = append(r, "never observed: "+k)
				}
			}
			return r
		},
	})
}

// compiled expression cache (per worker process)
var c14Cache = map[string]*fhirpath.Expression{}

func c14Expr(env *core.Env, src string) *fhirpath.Expression {
	if ex, ok := c14Cache[src]; ok {
		return ex
	}
	ex, r := fx.Compile(env, src)
	if ex == nil {
		env.Violatef("C14/compile/"+src, "`%s` does not compile: %s", src, r.Short())
	}
	c14Cache[src] = ex
	return ex
}

func strCarrier(s, kind, name string) (string, fhirpath.EvaluateOption) {
	switch kind {
	case "coll":
		// a one-item collection of the caller's
		return "%" + name, evalopts.EnvVariable(name, system.Collection{system.String(s)})
	case "lit":
		return model.QuoteStr(s), nil
	case "litesc":
		// the literal with every non-ASCII character of the basic plane written as a \uXXXX escape
		var sb strings.Builder
		for _, r := range model.QuoteStr(s) {
			if r > 0x7e && r < 0xd800 || r >= 0xe000 && r <= 0xffff {
				fmt.Fprintf(&sb, "\\u%04x", r)
			} else {
				sb.WriteRune(r)
			}
		}
		return sb.String(), nil
	case "fhir":
		var v any
		switch len(s) % 6 {
		case 5:
			v = &dtpb.Xhtml{Value: s}
		case 0:
			v = &dtpb.String{Value: s}
		case 1:
			v = &dtpb.Code{Value: s}
		case 2:
			v = &dtpb.Markdown{Value: s}
		case 3:
			v = &dtpb.Uri{Value: s}
		default:
			v = &dtpb.Id{Value: s}
		}
		return "%" + name, evalopts.EnvVariable(name, v)
	}
	return "%" + name, evalopts.EnvVariable(name, system.String(s))
}

// c14Check: fn with receiver s, pattern/replacement t,u and integer arguments i,j.
// i,j use math.MinInt64 to denote "argument omitted".
func c14Check(env *core.Env, fn, s, t, u string, i, j int64, carrier string) {
	defer env.In("str", fn, s, t, u, i, j, carrier)()
	env.Case()
	rs := []rune(s)
	var eo []fhirpath.EvaluateOption
	recv, o := strCarrier(s, carrier, "s")
	if o != nil {
		eo = append(eo, o)
	}
	env.Cover("carrier:" + carrier)
	argT := "%t"
	if carrier == "lit" {
		argT = model.QuoteStr(t)
	} else if carrier == "litesc" {
		argT, _ = strCarrier(t, "litesc", "")
	} else {
		eo = append(eo, evalopts.EnvVariable("t", system.String(t)))
	}
	eo = append(eo, evalopts.EnvVariable("u", system.String(u)))
	intArg := func(v int64, name string) string {
		if v == math.MinInt32 {
			eo = append(eo, evalopts.EnvVariable(name, system.Integer(math.MinInt32)))
			return "%" + name
		}
		if v < 0 {
			return fmt.Sprintf("(%d)", v)
		}
		return fmt.Sprint(v)
	}
	var src string
	switch fn {
	case "length", "toChars", "upper", "lower":
		src = recv + "." + fn + "()"
	case "substring":
		if j == math.MinInt64 {
			src = fmt.Sprintf("%s.substring(%s)", recv, intArg(i, "i"))
		} else {
			src = fmt.Sprintf("%s.substring(%s, %s)", recv, intArg(i, "i"), intArg(j, "j"))
		}
	case "indexOf", "startsWith", "endsWith", "contains":
		src = fmt.Sprintf("%s.%s(%s)", recv, fn, argT)
	case "replace":
		src = fmt.Sprintf("%s.replace(%s, %%u)", recv, argT)
	case "law-split":
		src = fmt.Sprintf("%s.substring(0, %d) & %s.substring(%d)", recv, i, recv, i)
	case "law-this":
		// the receiver read several times through one carrier ($this, implicit $this): every function gets the string itself
		src = fmt.Sprintf("%s.select(substring(0, %d) & substring(%d) & '|' & upper() & '|' & $this & '|' & lower() & '|' & $this.length().toString() & '|' & replace('zq', 'y') & '|' & $this)", recv, i, i)
	case "law-chars":
		src = fmt.Sprintf("%s.toChars().count() = %s.length()", recv, recv)
	case "law-index":
		src = fmt.Sprintf("iif(%s.indexOf(%s) >= 0, %s.substring(%s.indexOf(%s)).startsWith(%s), %s.contains(%s).not())", recv, argT, recv, recv, argT, argT, recv, argT)
	case "law-contains":
		src = fmt.Sprintf("%s.contains(%s) = (%s.indexOf(%s) >= 0)", recv, argT, recv, argT)
	}
	var r fx.Res
	if carrier == "lit" || carrier == "litesc" {
		r = fx.Eval(env, src, nil, nil, eo)
	} else {
		ex := c14Expr(env, src)
		if ex == nil {
			return
		}
		r = fx.Evaluate(env, ex, nil, eo...)
	}
	nonASCII := !isASCII(s) || !isASCII(t)
	if nonASCII {
		env.Cover("non-ascii")
		env.Distinct(fmt.Sprintf("%s|%s|%s|%d|%d", fn, s, t, i, j))
	}
	cls := "ascii"
	if nonASCII {
		cls = "non-ascii"
	}
	desc := fmt.Sprintf("`%s` with s=%q t=%q u=%q", src, s, t, u)
	if r.IsPanic() {
		env.Violatef(fx.PanicSig("C14", r), "%s => %s", desc, r.Short())
		return
	}
	// UTF-8 validity of every returned string
	for _, it := range r.Items {
		if it.K == "String" && !utf8.ValidString(it.T) {
			env.Violatef("C14/"+fn+"/"+cls+"/invalid-utf8", "%s returned invalid UTF-8 %q", desc, it.T)
			return
		}
	}
	bad := func(kind, want string) {
		env.Violatef("C14/"+fn+"/"+cls+"/"+kind, "%s: expected %s, observed %s", desc, want, trunc(r.Short(), 160))
	}
	wantStr := func(w string) {
		it, ok := r.Single()
		if !ok || it.K != "String" || it.T != w {
			bad("wrong-string", fmt.Sprintf("String(%q)", w))
		}
	}
	wantInt := func(w int) {
		it, ok := r.Single()
		if !ok || it.K != "Integer" || it.T != fmt.Sprint(w) {
			bad("wrong-integer", fmt.Sprint(w))
		}
	}
	wantBool := func(w bool) {
		if r.Bool3() != fmt.Sprint(w) {
			bad("wrong-boolean", fmt.Sprint(w))
		}
	}
	cover := fn
	switch fn {
	case "length":
		wantInt(len(rs))
	case "toChars":
		if !r.IsValue() || len(r.Items) != len(rs) {
			bad("wrong-count", fmt.Sprintf("%d items", len(rs)))
			break
		}
		for k, it := range r.Items {
			if it.K != "String" || it.T != string(rs[k]) {
				bad("wrong-char", fmt.Sprintf("item %d = %q", k, string(rs[k])))
				break
			}
		}
	case "upper":
		wantStr(mapRunes(s, unicode.ToUpper))
	case "lower":
		wantStr(mapRunes(s, unicode.ToLower))
	case "substring":
		cover = "substring2"
		if j == math.MinInt64 {
			cover = "substring1"
		}
		if i < 0 || i >= int64(len(rs)) {
			if !r.Empty() {
				bad("out-of-range-start-not-empty", "{}")
			}
			break
		}
		switch {
		case j == math.MinInt64:
			wantStr(string(rs[i:]))
		case j < 0:
			// unconstrained beyond totality / UTF-8
		case j == 0:
			if !r.Empty() {
				wantStr("")
			}
		default:
			end := i + j
			if end > int64(len(rs)) {
				end = int64(len(rs))
			}
			wantStr(string(rs[i:end]))
		}
	case "indexOf":
		wantInt(runeIndex(s, t))
	case "startsWith":
		wantBool(strings.HasPrefix(s, t))
	case "endsWith":
		wantBool(strings.HasSuffix(s, t))
	case "contains":
		wantBool(strings.Contains(s, t))
	case "replace":
		wantStr(strings.ReplaceAll(s, t, u))
	case "law-split":
		cover = "law"
		wantStr(s)
	case "law-this":
		cover = "law"
		wantStr(s + "|" + mapRunes(s, unicode.ToUpper) + "|" + s + "|" + mapRunes(s, unicode.ToLower) + "|" + fmt.Sprint(len(rs)) + "|" + strings.ReplaceAll(s, "zq", "y") + "|" + s)
	case "law-chars", "law-index", "law-contains":
		cover = "law"
		wantBool(true)
	}
	env.Cover(cover)
	env.SampleSpread(src+s+t, map[string]any{"program": src, "s": s, "t": t, "observed": trunc(r.Short(), 100)})
}

func isASCII(s string) bool {
	for i := 0; i < len(s); i++ {
		if s[i] >= 0x80 {
			return false
		}
	}
	return true
}

func mapRunes(s string, f func(rune) rune) string {
	rs := []rune(s)
	for i, r := range rs {
		rs[i] = f(r)
	}
	return string(rs)
}

func runeIndex(s, t string) int {
	b := strings.Index(s, t)
	if b < 0 {
		return -1
	}
	return utf8.RuneCountInString(s[:b])
}

func replayC14(env *core.Env, a []json.RawMessage) {
	var fn, s, t, u, carrier string
	var i, j int64
	json.Unmarshal(a[0], &fn)
	json.Unmarshal(a[1], &s)
	json.Unmarshal(a[2], &t)
	json.Unmarshal(a[3], &u)
	json.Unmarshal(a[4], &i)
	json.Unmarshal(a[5], &j)
	json.Unmarshal(a[6], &carrier)
	c14Check(env, fn, s, t, u, i, j, carrier)
}

func c14Strings(env *core.Env) []string {
	alpha := []string{"a", "B", "é", "€", "😀", "́"}
	maxLen := env.Size(3, 4)
	out := []string{""}
	level := []string{""}
	for l := 1; l <= maxLen; l++ {
		var next []string
		for _, p := range level {
			for _, a := range alpha {
				next = append(next, p+a)
			}
		}
		out = append(out, next...)
		level = next
	}
	// one character on either side of every UTF-8 length / lead-byte boundary (0xC2, 0xDF | 0xE0, 0xE1, 0xED, 0xEE | 0xF0, 0xF1, 0xF3, 0xF4)
	edges := []string{"\u0080", "\u07FF", "\u0800", "\u0939", "\u0E01", "\u0FFF", "\u1000", "\uD7FF", "\uE000", "\U00010000", "\U0003FFFD", "\U00040000", "\U00100000", "\U0010FFFD"}
	for _, b := range edges {
		out = append(out, b, "a"+b, b+"a", b+b, "é"+b+"€")
	}
	rng := env.Rng("strings")
	wide := []string{"a", "b", "c", "Z", "0", " ", "'", "\"", "`", "\\", "/", "é", "ß", "€", "😀", "́", "İ", "ǆ", "\uFFFD", "$", "1", "{", "}", ".", "*", "(", "[", "^", "ı", "ſ", "K"}
	wide = append(wide, edges...)
	for k := 0; k < env.Size(120, 3000); k++ {
		n := 5 + rng.Intn(8)
		var b strings.Builder
		for x := 0; x < n; x++ {
			b.WriteString(wide[rng.Intn(len(wide))])
		}
		out = append(out, b.String())
	}
	return out
}

// c14Codes: string functions on bound code elements of every value set, all in one process: the receiver is the
// element's own FHIR code text, whichever other code elements (same message short name, same enum number) came before.
func c14Codes(env *core.Env, reverse bool) {
	defer env.In("codes", reverse)()
	env.Case()
	ws := codeWrappers()
	if reverse {
		for i, j := 0, len(ws)-1; i < j; i, j = i+1, j-1 {
			ws[i], ws[j] = ws[j], ws[i]
		}
	}
	exLen, exUp, exSub := c14Expr(env, "%x.length()"), c14Expr(env, "%x.upper()"), c14Expr(env, "%x.substring(1, 3) & '|' & %x.toChars().count().toString() & '|' & %x.indexOf('-').toString()")
	if exLen == nil || exUp == nil || exSub == nil {
		env.Skip("code-probe-does-not-compile")
		return
	}
	for wi, md := range ws {
		vf := md.Fields().ByName("value")
		vals := vf.Enum().Values()
		for i := 0; i < vals.Len(); i++ {
			ev := vals.Get(i)
			if ev.Number() == 0 || (env.Quick() && (wi+i)%3 != 0 && ev.Number() > 6) {
				continue
			}
			want := gen.OriginalCode(ev)
			m := gen.NewMessage(md)
			m.Set(vf, protoreflect.ValueOfEnum(ev.Number()))
			xo := evalopts.EnvVariable("x", m.Interface())
			d := fmt.Sprintf("%s value %s", md.FullName(), ev.Name())
			env.Cover("code-receiver")
			rs := []rune(want)
			sub := ""
			if len(rs) > 1 {
				sub = string(rs[1:minInt(len(rs), 4)])
			}
			for k, c := range []struct {
				ex   *fhirpath.Expression
				want fx.Item
			}{{exLen, fx.Item{K: "Integer", T: fmt.Sprint(len(rs))}}, {exUp, fx.Item{K: "String", T: strings.ToUpper(want)}}, {exSub, fx.Item{K: "String", T: fmt.Sprintf("%s|%d|%d", sub, len(rs), runeIndex(want, "-"))}}} {
				r := fx.Evaluate(env, c.ex, nil, xo)
				if r.IsPanic() {
					env.Violatef(fx.PanicSig("C14", r), "%s: `%s` => %s", d, c.ex.String(), r.Short())
					continue
				}
				if !r.IsValue() || (k == 2 && len(rs) <= 1) {
					continue // refusing the receiver is decided by the carrier sweep; substring past the end yields empty
				}
				if it, ok := r.Single(); !ok || it != c.want {
					env.Violatef("C14/code-receiver/wrong", "%s (code %q): `%s` => %s, expected %s", d, want, c.ex.String(), trunc(r.Short(), 80), c.want)
				}
			}
			env.Distinct("code|" + string(md.FullName()) + "|" + string(ev.Name()))
		}
	}
}

func runC14(env *core.Env) {
	if env.Shard == 6%env.NShards {
		c14Codes(env, false)
	}
	if env.Shard == 7%env.NShards {
		c14Codes(env, true)
	}
	strs := c14Strings(env)
	rng := env.Rng("args")
	for idx, s := range strs {
		sub := rng.Fork("s")
		if !env.Mine(idx) {
			continue
		}
		carrier := []string{"sys", "sys", "fhir", "lit", "litesc"}[sub.Intn(5)]
		rs := []rune(s)
		n := int64(len(rs))
		for _, fn := range []string{"length", "toChars", "upper", "lower", "law-chars"} {
			c14Check(env, fn, s, "", "", 0, 0, carrier)
		}
		for i := int64(-2); i <= n+2; i++ {
			c14Check(env, "substring", s, "", "", i, math.MinInt64, carrier)
			for j := int64(-1); j <= n+2; j++ {
				c14Check(env, "substring", s, "", "", i, j, carrier)
			}
			c14Check(env, "substring", s, "", "", i, math.MaxInt32, carrier)
			c14Check(env, "substring", s, "", "", i, math.MinInt32, carrier)
		}
		c14Check(env, "substring", s, "", "", math.MaxInt32, math.MinInt64, carrier)
		c14Check(env, "substring", s, "", "", math.MinInt32, math.MinInt64, carrier)
		c14Check(env, "substring", s, "", "", math.MaxInt32, math.MaxInt32, carrier)
		for k := int64(0); k <= n; k++ {
			c14Check(env, "law-split", s, "", "", k, 0, carrier)
		}
		if n > 0 {
			for _, k := range []int64{0, n / 2, n} {
				c14Check(env, "law-this", s, "", "", k, 0, []string{"coll", carrier}[int(k)%2])
			}
		}
		// patterns: all substrings (bounded), near-misses, ''
		pats := map[string]bool{"": true, "x": true, "é": true, "e": true, "́": true}
		for a := 0; a < len(rs); a++ {
			for b := a + 1; b <= len(rs) && b <= a+3; b++ {
				pats[string(rs[a:b])] = true
				if b-a == 1 && len(pats) < 30 {
					pats[string(rs[a:b])+"x"] = true
				}
			}
		}
		if len(rs) > 0 {
			pats[string(rs[len(rs)-1:])+string(rs[:1])] = true
		}
		var plist []string
		for p := range pats {
			plist = append(plist, p)
		}
		sortStrings(plist)
		for _, p := range plist {
			for _, fn := range []string{"indexOf", "startsWith", "endsWith", "contains", "law-index", "law-contains"} {
				if fn == "law-index" && s == "" {
					continue // substring(i) is out of range for the empty string: the law is vacuous
				}
				c14Check(env, fn, s, p, "", 0, 0, carrier)
			}
			c14Check(env, "replace", s, p, []string{"", "é", "zz", "$1", "$e", "${x}", "$$", "$", "\\1", "$0", "a$b"}[sub.Intn(11)], 0, 0, carrier)
		}
	}
}
