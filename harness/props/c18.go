package props

import (
	"encoding/json"
	"errors"
	"fmt"
	"math"
	"strings"

	dtpb "github.com/google/fhir/go/proto/google/fhir/proto/r4/core/datatypes_go_proto"
	bcrpb "github.com/google/fhir/go/proto/google/fhir/proto/r4/core/resources/bundle_and_contained_resource_go_proto"
	ppb "github.com/google/fhir/go/proto/google/fhir/proto/r4/core/resources/patient_go_proto"
	qpb "github.com/google/fhir/go/proto/google/fhir/proto/r4/core/resources/questionnaire_go_proto"
	encpb "github.com/google/fhir/go/proto/google/fhir/proto/r4/core/resources/encounter_go_proto"
	locpb "github.com/google/fhir/go/proto/google/fhir/proto/r4/core/resources/location_go_proto"
	orgpb "github.com/google/fhir/go/proto/google/fhir/proto/r4/core/resources/organization_go_proto"
	taskpb "github.com/google/fhir/go/proto/google/fhir/proto/r4/core/resources/task_go_proto"
	s3dt "github.com/google/fhir/go/proto/google/fhir/proto/stu3/datatypes_go_proto"
	s3res "github.com/google/fhir/go/proto/google/fhir/proto/stu3/resources_go_proto"
	"github.com/verily-src/fhirpath-go/fhirpath/compopts"
	"github.com/verily-src/fhirpath-go/fhirpath/system"
	"github.com/verily-src/fhirpath-go/fhirpath/patch"
	"github.com/verily-src/fhirpath-go/fhirpath/verifharness/core"
	"github.com/verily-src/fhirpath-go/fhirpath/verifharness/fx"
	"github.com/verily-src/fhirpath-go/fhirpath/verifharness/gen"
	"github.com/verily-src/fhirpath-go/fhirpath/verifharness/model"
	"github.com/verily-src/fhirpath-go/internal/fhir"
	"google.golang.org/protobuf/proto"
	"google.golang.org/protobuf/reflect/protoreflect"
	"google.golang.org/protobuf/types/known/anypb"
)

// C18 — FHIRPatch operations change exactly the targeted element, or nothing.

func init() {
	core.Register(&core.Property{
		ID:   "C18",
		Rule: "generated resources of every R4 type x element nodes of their FHIR tree x path forms {indexed, plain, first()/last(), where(field = lit), extension(url), tail/skip/take sub-slices, no-op trailing steps} x operations {add, insert, delete, replace, move} x values {right type, sibling type, other primitive type, wrong complex type, nil}; add also on primitive elements (id, extension, and the scalar proto fields value/precision/timezone that are not elements) x indexes [-1, len+1] ∪ {MinInt, MaxInt}; each call runs on a fresh clone; on success the resource must equal the result of the harness' own edit of a second clone (hence every other element unchanged); on error the deterministic bytes of the resource and of the value must be unchanged; delete of an absent element is a no-op success; Move reports ErrNotImplemented; sequences with inverse pairs return to the original. Add of Reference.reference on eight Reference forms; distinct_nontrivial = distinct (operation, path form, element class, value kind, outcome) tuples",
		Assumptions: []string{"an error on an operation the model considers valid is not a violation (the statement constrains successes and failures, not which calls succeed); every (operation, path form) pair must have been observed to succeed at least once, and so must fifteen fixed operations whose target lies in, or below, one of several parents (a refusal there makes the run inconclusive, not a violation)",
			"sibling-type values (code for an enum-bound code, integer for positiveInt, id for a reference) may be normalised by the library: on success only the frame (everything but the target) and non-emptiness of the target are checked"},
		Run:    runC18,
		Checks: map[string]func(*core.Env, []json.RawMessage){"patch": replayC18, "seq": replayC18Seq, "codes": replayC18Codes, "aliasing": replayC18Aliasing, "refadd": func(env *core.Env, a []json.RawMessage) { c18RefAdd(env) }, "optrange": func(env *core.Env, a []json.RawMessage) { c18OptionsAndRanges(env) }, "choice": func(env *core.Env, a []json.RawMessage) {
			var tn string
			json.Unmarshal(a[0], &tn)
			c18ChoiceMembers(env, tn)
		}},
		Threshold: func(m *core.Merged) []string {
			var r []string
			for _, op := range []string{"add", "insert", "delete", "replace"} {
				if m.Cover["success:"+op] == 0 {
					r = append(r, "operation never observed to succeed: "+op)
				}
				if m.Cover["error:"+op] == 0 {
					r = append(r, "operation never observed to fail: "+op)
				}
			}
			for _, f := range []string{"indexed", "plain", "first-last", "where", "extension", "subslice", "noop"} {
				if m.Cover["success-form:"+f] == 0 {
					r = append(r, "path form never observed to succeed: "+f)
				}
			}
			for _, k := range []string{"move", "delete-absent", "sequence", "class:choice", "class:code", "class:reference", "class:bundle-entry", "class:repeated", "class:scalar", "nil-value", "nil-resource", "wrong-type", "index-out-of-range", "duplicate-sibling", "code-patch", "aliasing"} {
				if m.Cover[k] == 0 {
					r = append(r, "never observed: "+k)
				}
			}
			for _, d := range c18MultiParentDescs {
				if m.Cover["multi-parent-success:"+d] == 0 {
					r = append(r, "operation across several parents never observed to succeed (it does on the pinned tree): "+d)
				}
			}
			return r
		},
	})
}

var c18MultiParentDescs = []string{"Delete(Patient.name.given[2])", "Delete(Patient.name.given.last())", "Delete(Patient.name.given.where($this = 'c'))", "Delete(Patient.name.given[1])", "Replace(Patient.name.given[3])", "Replace(Patient.name.given.last())",
	"Replace(Patient.name.given.where($this = 'c'))", "Insert(Patient.name.first().given, 1)", "Insert(Patient.name.take(1).given, 0)", "Insert(Patient.name.last().given, 2)", "Insert(Patient.name.skip(1).given, 0)", "Insert(Patient.name[1].given, 1)",
	"Insert(Patient.name.where(family = 'F2').given, 0)", "Add(Patient.name.first(), given)", "Add(Patient.name.last(), given)"}

type c18Case struct {
	TN     string `json:"tn"`
	Seed   uint64 `json:"seed"`
	Rich   bool   `json:"rich"`
	Node   int    `json:"node"`  // pre-order index of the target node
	Form   string `json:"form"`  // path form
	Op     string `json:"op"`    // add insert delete replace move
	Value  string `json:"value"` // right sibling wrong nil
	Index  int    `json:"index"` // insert index
	Field  string `json:"field"` // add: element name
	Totality bool `json:"totality"` // C01 stream 4: only judge panics
}

func elementDescriptor(fd protoreflect.FieldDescriptor) protoreflect.MessageDescriptor { return fd.Message() }

// wrapFor wraps value for storage in field fd (choice wrapper / ContainedResource / Any); ok=false if the type does not fit.
func wrapFor(fd protoreflect.FieldDescriptor, value proto.Message) (protoreflect.Message, bool) {
	md := fd.Message()
	vd := value.ProtoReflect().Descriptor()
	switch {
	case gen.IsChoice(md):
		w := newMsg(md)
		od := md.Oneofs().Get(0)
		for i := 0; i < od.Fields().Len(); i++ {
			f := od.Fields().Get(i)
			if f.Message() == vd {
				w.Set(f, protoreflect.ValueOfMessage(value.ProtoReflect()))
				return w, true
			}
		}
		return nil, false
	case gen.IsContained(md):
		f := gen.ContainedFieldFor(vd)
		if f == nil {
			return nil, false
		}
		cr := (&bcrpb.ContainedResource{}).ProtoReflect()
		cr.Set(f, protoreflect.ValueOfMessage(value.ProtoReflect()))
		return cr, true
	case gen.IsAny(md):
		f := gen.ContainedFieldFor(vd)
		if f == nil {
			return nil, false
		}
		cr := (&bcrpb.ContainedResource{}).ProtoReflect()
		cr.Set(f, protoreflect.ValueOfMessage(value.ProtoReflect()))
		a, err := anypb.New(cr.Interface())
		if err != nil {
			return nil, false
		}
		return a.ProtoReflect(), true
	}
	if md != vd {
		return nil, false
	}
	return value.ProtoReflect(), true
}

func newMsg(md protoreflect.MessageDescriptor) protoreflect.Message { return gen.NewMessage(md) }

// model edits on the expectation clone -------------------------------------------------

func modelDelete(nd *model.Node) bool {
	pm := nd.Parent.Msg.ProtoReflect()
	if nd.FD.IsList() {
		l := pm.Get(nd.FD).List()
		nl := pm.NewField(nd.FD).List()
		for i := 0; i < l.Len(); i++ {
			if i != nd.Pos {
				nl.Append(l.Get(i))
			}
		}
		if nl.Len() == 0 {
			pm.Clear(nd.FD)
		} else {
			pm.Set(nd.FD, protoreflect.ValueOfList(nl))
		}
		return true
	}
	pm.Clear(nd.FD)
	return true
}

func modelReplace(nd *model.Node, value proto.Message) bool {
	w, ok := wrapFor(nd.FD, value)
	if !ok {
		return false
	}
	pm := nd.Parent.Msg.ProtoReflect()
	if nd.FD.IsList() {
		pm.Mutable(nd.FD).List().Set(nd.Pos, protoreflect.ValueOfMessage(w))
		return true
	}
	pm.Set(nd.FD, protoreflect.ValueOfMessage(w))
	return true
}

func modelInsert(parent proto.Message, fd protoreflect.FieldDescriptor, value proto.Message, idx int) bool {
	w, ok := wrapFor(fd, value)
	if !ok || !fd.IsList() {
		return false
	}
	pm := parent.ProtoReflect()
	l := pm.Get(fd).List()
	if idx < 0 || idx > l.Len() {
		return false
	}
	nl := pm.NewField(fd).List()
	for i := 0; i < l.Len(); i++ {
		if i == idx {
			nl.Append(protoreflect.ValueOfMessage(w))
		}
		nl.Append(l.Get(i))
	}
	if idx == l.Len() {
		nl.Append(protoreflect.ValueOfMessage(w))
	}
	pm.Set(fd, protoreflect.ValueOfList(nl))
	return true
}

func modelAdd(parent proto.Message, fd protoreflect.FieldDescriptor, value proto.Message) bool {
	w, ok := wrapFor(fd, value)
	if !ok {
		return false
	}
	pm := parent.ProtoReflect()
	if fd.IsList() {
		pm.Mutable(fd).List().Append(protoreflect.ValueOfMessage(w))
		return true
	}
	if pm.Has(fd) {
		return false
	}
	pm.Set(fd, protoreflect.ValueOfMessage(w))
	return true
}

// -------------------------------------------------------------------------------------

func jsonOf(m proto.Message) string {
	b, err := model.MarshalJSON(m)
	if err != nil {
		return "MARSHAL-ERROR:" + err.Error()
	}
	return string(b)
}

// elemClass classifies the target element for coverage and signatures.
func elemClass(nd *model.Node) string {
	switch {
	case nd.UnderFresh():
		return "contained"
	case nd.ChoiceMsg != "":
		return "choice"
	case nd.MD != nil && gen.IsCodeWrapper(nd.MD):
		return "code"
	case nd.MD != nil && gen.IsReference(nd.MD):
		return "reference"
	case nd.IsResource:
		return "bundle-entry"
	case nd.FD != nil && nd.FD.IsList():
		return "repeated"
	}
	return "scalar"
}

// buildPath renders the path of the requested form selecting exactly nd (ok=false if the form does not apply).
func buildPath(tree *model.Node, nd *model.Node, form string) (string, bool) {
	tn := tree.Name
	idx := indexedPath(tn, nd)
	if nd.Parent == nil {
		return tn, form == "indexed"
	}
	parentPath := indexedPath(tn, nd.Parent)
	if nd.Parent.Parent == nil {
		parentPath = tn
	}
	sib := nd.Parent.KidsNamed(nd.Name)
	name := model.IdentSrc(nd.Name)
	switch form {
	case "indexed":
		return idx, true
	case "plain":
		steps := namesToSteps(nd.PathTo())
		got := model.Walk([]*model.Node{tree}, steps)
		if len(got) == 1 && got[0] == nd {
			return model.RenderPath(tn, steps), true
		}
		return "", false
	case "first-last":
		if sib[0] == nd {
			return parentPath + "." + name + ".first()", true
		}
		if sib[len(sib)-1] == nd {
			return parentPath + "." + name + ".last()", true
		}
		return "", false
	case "where":
		if nd.IsPrim || nd.Synth != nil {
			return "", false
		}
		for _, k := range nd.Kids {
			s, ok := k.JSON.(string)
			if !ok || !k.IsPrim || k.ChoiceMsg != "" || !isStringLike(k) || strings.ContainsAny(s, "\\") || lexicallyOdd(k.Name) || len(nd.KidsNamed(k.Name)) != 1 {
				continue
			}
			unique := true
			for _, o := range sib {
				if o == nd {
					continue
				}
				ks := o.KidsNamed(k.Name)
				if len(ks) != 1 {
					continue
				}
				if os, _ := ks[0].JSON.(string); os == s {
					unique = false
				}
			}
			if unique {
				return fmt.Sprintf("%s.%s.where(%s = %s)", parentPath, name, model.IdentSrc(k.Name), model.QuoteStr(s)), true
			}
		}
		return "", false
	case "extension":
		if nd.Name != "extension" || nd.MD == nil || nd.MD.FullName() != "google.fhir.r4.core.Extension" {
			return "", false
		}
		us := nd.KidsNamed("url")
		if len(us) != 1 {
			return "", false
		}
		u, _ := us[0].JSON.(string)
		for _, o := range sib {
			if o == nd {
				continue
			}
			if ou := o.KidsNamed("url"); len(ou) == 1 {
				if s, _ := ou[0].JSON.(string); s == u {
					return "", false
				}
			}
		}
		return fmt.Sprintf("%s.extension(%s)", parentPath, model.QuoteStr(u)), true
	case "subslice":
		if len(sib) < 2 {
			return "", false
		}
		pos := 0
		for i, s := range sib {
			if s == nd {
				pos = i
			}
		}
		switch {
		case pos == 1:
			return parentPath + "." + name + ".tail().first()", true
		case pos > 0:
			return fmt.Sprintf("%s.%s.skip(%d).first()", parentPath, name, pos), true
		default:
			return fmt.Sprintf("%s.%s.take(1)", parentPath, name), true
		}
	case "noop":
		return idx + ".where(true)", true
	}
	return "", false
}

// c18Run executes one patch case. It returns (applicable, succeeded).
func c18Run(env *core.Env, c c18Case) (bool, bool) {
	prop := "C18"
	if c.Totality {
		prop = "C01"
	}
	res0, _ := genResource(c.TN, c.Seed, c.Rich)
	work := proto.Clone(res0).(fhir.Resource)
	tree, err := model.BuildTree(work)
	if err != nil {
		env.Skip("resource-not-marshallable")
		return false, false
	}
	nodes := tree.All()
	if c.Node >= len(nodes) {
		return false, false
	}
	nd := nodes[c.Node]
	if nd.Synth != nil || nd.Msg == nil {
		return false, false
	}
	for _, nm := range nd.PathTo() {
		if lexicallyOdd(nm) {
			return false, false
		}
	}
	exp := proto.Clone(work).(fhir.Resource)
	expTree, err := model.BuildTree(exp)
	if err != nil {
		return false, false
	}
	xnd := expTree.All()[c.Node]
	rng := core.NewRng(c.Seed, "c18-value", c.TN, fmt.Sprint(c.Node), c.Op, c.Value)
	vg := gen.NewResGen(rng, false)
	vg.MaxDepth, vg.Budget = 2, 20

	var path string
	var ok bool
	var valid bool        // the harness' model considers the operation valid
	var frameOnly bool    // on success only check the frame
	var value proto.Message
	var modelValue proto.Message // for a sibling value whose normalised form is known (a valid code for a bound code element)
	var targetFD protoreflect.FieldDescriptor
	var targetParent *model.Node // node whose field is edited (for the frame check)
	mkValue := func(fd protoreflect.FieldDescriptor) {
		switch c.Value {
		case "right":
			if v := vg.Value(fd, 1); v != nil {
				value = unwrapValue(v)
			}
		case "sibling":
			value, modelValue = siblingValue(fd, rng)
			frameOnly = modelValue == nil
			if modelValue == invalidCodeMarker {
				// an element cannot hold a string that is not a code of its value set: not a valid operation
				modelValue, frameOnly = nil, false
			}
		case "wrong":
			// a type that fits no field but Patient.communication (open choices such as Extension.value accept most datatypes)
			value = &ppb.Patient_Communication{Preferred: &dtpb.Boolean{Value: true}}
			if fd.Message().FullName() == value.ProtoReflect().Descriptor().FullName() {
				value = &dtpb.HumanName{Family: &dtpb.String{Value: "wrong type"}}
			}
		case "cross":
			// a primitive datatype other than the target's: the library may normalise or reject it, never fail otherwise
			value = crossValue(fd.Message(), rng)
			frameOnly = true
		case "nil":
			value = nil
		}
	}
	cls := elemClass(nd)
	switch c.Op {
	case "delete":
		path, ok = buildPath(tree, nd, c.Form)
		if !ok || nd.Parent == nil {
			return false, false
		}
		valid = modelDelete(xnd)
		targetFD, targetParent = nd.FD, nd.Parent
	case "replace":
		path, ok = buildPath(tree, nd, c.Form)
		if !ok || nd.Parent == nil {
			return false, false
		}
		mkValue(nd.FD)
		targetFD, targetParent = nd.FD, nd.Parent
		if value != nil {
			if c.Value == "right" {
				// a right-type value for a choice element: same member type as the current value keeps the case simple
				valid = modelReplace(xnd, proto.Clone(value))
			} else if modelValue != nil {
				valid = modelReplace(xnd, proto.Clone(modelValue))
			} else {
				valid = false
			}
		}
	case "insert":
		// the path selects the whole list the node belongs to
		if nd.Parent == nil || nd.FD == nil || !nd.FD.IsList() {
			return false, false
		}
		pp, ok2 := buildPath(tree, nd.Parent, "indexed")
		if !ok2 {
			return false, false
		}
		if nd.Parent.Parent == nil {
			pp = tree.Name
		}
		path = pp + "." + model.IdentSrc(nd.Name)
		switch c.Form {
		case "noop":
			path += ".where(true)"
		case "indexed":
		case "element", "element-first":
			// the path selects one item of the list, not the list: there is nothing to insert into
			pos := 0
			for i, sib := range nd.Parent.KidsNamed(nd.Name) {
				if sib == nd {
					pos = i
				}
			}
			if c.Form == "element" {
				path += fmt.Sprintf("[%d]", pos)
			} else {
				path += ".first()"
			}
		default:
			return false, false
		}
		mkValue(nd.FD)
		targetFD, targetParent = nd.FD, nd.Parent
		if c.Form == "element" || c.Form == "element-first" {
			valid = false
		} else if value != nil && c.Value == "right" {
			valid = modelInsert(xnd.Parent.Msg, xnd.FD, proto.Clone(value), c.Index)
		} else if modelValue != nil {
			valid = modelInsert(xnd.Parent.Msg, xnd.FD, proto.Clone(modelValue), c.Index)
		}
	case "add":
		// the path selects the element nd; the named field of nd gains the value
		if nd.MD == nil {
			return false, false
		}
		path, ok = buildPath(tree, nd, c.Form)
		if !ok {
			return false, false
		}
		fd := fieldByJSONName(nd.MD, c.Field)
		if fd == nil {
			valid = false
			targetParent = nd
			if c.Value != "nil" {
				value = crossValue(nd.MD, rng)
			}
		} else {
			mkValue(fd)
			targetFD, targetParent = fd, nd
			if value != nil && c.Value == "right" {
				valid = modelAdd(xnd.Msg, fd, proto.Clone(value))
			} else if modelValue != nil {
				valid = modelAdd(xnd.Msg, fd, proto.Clone(modelValue))
			}
		}
	case "move":
		path, ok = buildPath(tree, nd, c.Form)
		if !ok {
			return false, false
		}
	}
	env.Case()
	before := protoBytes(work)
	valBefore := ""
	if value != nil {
		valBefore = protoBytes(value)
	}
	var perr error
	var vArg fhir.Base
	if value != nil {
		vArg = value
	}
	desc := fmt.Sprintf("%s(%s path=`%s` field=%q value=%s index=%d) on %s(seed %d) [%s element]", c.Op, c.Form, path, c.Field, c.Value, c.Index, c.TN, c.Seed, cls)
	out := env.Guard("patch."+desc, func() {
		switch c.Op {
		case "delete":
			perr = patch.Delete(work, path)
		case "replace":
			perr = patch.Replace(work, path, vArg)
		case "insert":
			perr = patch.Insert(work, path, vArg, c.Index)
		case "add":
			perr = patch.Add(work, path, c.Field, vArg, &patch.Options{})
		case "move":
			perr = patch.Move(work, path, c.Index, 0)
		}
	})
	env.Eval(1)
	if out.Panicked || out.Dead {
		if !out.Dead {
			env.Violatef(prop+"/panic@"+out.Site+"/"+core.NormMsg(out.PanicMsg), "%s panicked: %s", desc, out.PanicMsg)
		}
		return true, false
	}
	if c.Totality {
		env.Distinct(fmt.Sprintf("stream4|%s|%s|%s|%s|%v", c.Op, c.Form, cls, c.Value, perr == nil))
		return true, perr == nil
	}
	env.Cover("class:" + cls)
	if c.Value == "nil" && c.Op != "delete" && c.Op != "move" {
		env.Cover("nil-value")
	}
	if c.Value == "wrong" {
		env.Cover("wrong-type")
	}
	if nd.FD != nil && nd.FD.IsList() {
		for _, s := range nd.Parent.KidsNamed(nd.Name) {
			if s != nd && s.Msg != nil && proto.Equal(s.Msg, nd.Msg) {
				env.Cover("duplicate-sibling")
			}
		}
	}
	env.Distinct(fmt.Sprintf("%s|%s|%s|%s|%v", c.Op, c.Form, cls, c.Value, perr == nil))
	sigBase := fmt.Sprintf("C18/%s/%s/%s", c.Op, c.Form, cls)
	if c.Op == "move" {
		env.Cover("move")
		if !errors.Is(perr, patch.ErrNotImplemented) {
			env.Violatef("C18/move/not-ErrNotImplemented", "%s returned %v", desc, perr)
		}
		if protoBytes(work) != before {
			env.Violatef("C18/move/mutated", "%s changed the resource", desc)
		}
		return true, false
	}
	if perr != nil {
		env.Cover("error:" + c.Op)
		if c.Op == "insert" && (c.Index < 0 || c.Index > len(nd.Parent.KidsNamed(nd.Name))) {
			env.Cover("index-out-of-range")
		}
		if a := protoBytes(work); a != before {
			env.Violatef(sigBase+"/mutated-on-error", "%s returned error %q but the resource changed", desc, perr)
		}
		if value != nil && protoBytes(value) != valBefore {
			env.Violatef(sigBase+"/value-mutated-on-error", "%s returned error %q but the supplied value changed", desc, perr)
		}
		if valid {
			env.Cover("error-on-valid:" + c.Op + ":" + c.Form)
		}
		return true, false
	}
	// success
	if (nd.UnderFresh() || (c.Op == "add" && nd.Fresh)) && protoBytes(work) == before && (valid || frameOnly) {
		// elements under `contained` are unpacked into fresh messages: the patch was applied to a copy
		env.Violatef("C18/contained-target/success-without-effect", "%s returned nil but the resource is unchanged (the target lies inside a contained resource, which is unpacked into a copy)", desc)
		return true, true
	}
	env.Cover("success:" + c.Op)
	env.Cover("success-form:" + c.Form)
	got := jsonOf(work)
	switch {
	case valid:
		want := jsonOf(exp)
		if got != want || !proto.Equal(work, exp) {
			env.Violatef(sigBase+"/wrong-result", "%s succeeded but the resource is not what the operation produces on the JSON tree.\n expected: %s\n observed: %s", desc, trunc(diffHint(want, got), 600), "")
		}
	case frameOnly && targetFD != nil && targetParent != nil:
		// normalised sibling value: everything except the target field must be unchanged, the target must be present
		if !frameEqual(before, work, tree, targetParent, targetFD, res0) {
			env.Violatef(sigBase+"/frame-broken", "%s succeeded with a sibling-type value but elements other than the target changed", desc)
		}
	default:
		env.Violatef(sigBase+"/succeeded-on-invalid-operation/"+c.Value, "%s returned nil although the operation is not valid (model: wrong type, nil, populated scalar, bad index or unknown field); resource now: %s", desc, trunc(got, 300))
	}
	return true, true
}

func diffHint(want, got string) string {
	i := 0
	for i < len(want) && i < len(got) && want[i] == got[i] {
		i++
	}
	s := i - 60
	if s < 0 {
		s = 0
	}
	e1, e2 := i+120, i+120
	if e1 > len(want) {
		e1 = len(want)
	}
	if e2 > len(got) {
		e2 = len(got)
	}
	return fmt.Sprintf("…%s… VS …%s…", want[s:e1], got[s:e2])
}

// frameEqual: after the call, the resource with the target field cleared equals the original with the target field cleared.
func frameEqual(before string, work fhir.Resource, tree *model.Node, parent *model.Node, fd protoreflect.FieldDescriptor, res0 fhir.Resource) bool {
	a := proto.Clone(res0)
	b := proto.Clone(work)
	ta, err1 := model.BuildTree(a)
	if err1 != nil {
		return true
	}
	pa := ta.All()[parent.Index]
	pa.Msg.ProtoReflect().Clear(fd)
	// locate the same parent in b by structural path: index chain
	tb, err2 := model.BuildTree(b)
	if err2 != nil {
		return false
	}
	pb := locateLike(tb, parent)
	if pb == nil {
		return false
	}
	if !pb.Msg.ProtoReflect().Has(fd) {
		return false // the target must now be present
	}
	pb.Msg.ProtoReflect().Clear(fd)
	return proto.Equal(a, b)
}

// locateLike finds in tree t the node with the same (name, sibling position) chain as nd.
func locateLike(t *model.Node, nd *model.Node) *model.Node {
	var chain []*model.Node
	for c := nd; c.Parent != nil; c = c.Parent {
		chain = append([]*model.Node{c}, chain...)
	}
	cur := t
	for _, c := range chain {
		sibs := c.Parent.KidsNamed(c.Name)
		pos := 0
		for i, s := range sibs {
			if s == c {
				pos = i
			}
		}
		ks := cur.KidsNamed(c.Name)
		if pos >= len(ks) {
			return nil
		}
		cur = ks[pos]
	}
	return cur
}

func fieldByJSONName(md protoreflect.MessageDescriptor, name string) protoreflect.FieldDescriptor {
	fs := md.Fields()
	for i := 0; i < fs.Len(); i++ {
		if fs.Get(i).JSONName() == name && fs.Get(i).Message() != nil {
			if gen.IsReference(md) && fs.Get(i).ContainingOneof() != nil {
				continue
			}
			return fs.Get(i)
		}
	}
	return nil
}

// unwrapValue turns a generated field value (possibly a choice wrapper / ContainedResource / Any) into the element a caller would pass.
func unwrapValue(v protoreflect.Message) proto.Message {
	md := v.Descriptor()
	switch {
	case gen.IsChoice(md):
		if f := v.WhichOneof(md.Oneofs().Get(0)); f != nil {
			return v.Get(f).Message().Interface()
		}
	case gen.IsContained(md):
		if f := v.WhichOneof(md.Oneofs().Get(0)); f != nil {
			return v.Get(f).Message().Interface()
		}
	case gen.IsAny(md):
		cr := &bcrpb.ContainedResource{}
		if err := v.Interface().(*anypb.Any).UnmarshalTo(cr); err == nil {
			return unwrapValue(cr.ProtoReflect())
		}
	}
	return v.Interface()
}

// siblingValue: a value of a closely related type the library may normalise (code for enum codes, integer for positiveInt/unsignedInt, string for markdown…).
func siblingValue(fd protoreflect.FieldDescriptor, r *core.Rng) (proto.Message, proto.Message) {
	v, m := siblingValue2(fd, r)
	return v, m
}

// siblingValue2 also returns the element a valid code must be stored as (the bound code message holding the
// enum value whose FHIR code was supplied), when that is known.
func siblingValue2(fd protoreflect.FieldDescriptor, r *core.Rng) (proto.Message, proto.Message) {
	md := fd.Message()
	if gen.IsCodeWrapper(md) {
		vf := md.Fields().ByName("value")
		if vf != nil && vf.Kind() == protoreflect.EnumKind && vf.Enum().Values().Len() > 1 {
			ev := vf.Enum().Values().Get(1 + r.Intn(vf.Enum().Values().Len()-1))
			code := gen.OriginalCode(ev)
			if r.Intn(4) == 0 {
				// strings that are not codes of the value set, some of them one separator / one letter case away from one
				bad := []string{"not-a-valid-code", strings.ReplaceAll(code, "-", "_"), strings.ReplaceAll(code, "-", " "), strings.ReplaceAll(code, "-", "."), strings.ToUpper(code), code + "-", " " + code, strings.ToUpper(code[:1]) + code[1:]}
				pick := bad[r.Intn(len(bad))]
				isCode := false
				for i := 0; i < vf.Enum().Values().Len(); i++ {
					if gen.OriginalCode(vf.Enum().Values().Get(i)) == pick {
						isCode = true
					}
				}
				if !isCode {
					return &dtpb.Code{Value: pick}, invalidCodeMarker
				}
			}
			if ev.Number() == 0 {
				return &dtpb.Code{Value: code}, nil
			}
			// the same code must not belong to two values of the enum (aliases): then the stored value is not determined
			n := 0
			for i := 0; i < vf.Enum().Values().Len(); i++ {
				if gen.OriginalCode(vf.Enum().Values().Get(i)) == code {
					n++
				}
			}
			if n != 1 {
				return &dtpb.Code{Value: code}, nil
			}
			m := gen.NewMessage(md)
			m.Set(vf, protoreflect.ValueOfEnum(ev.Number()))
			return &dtpb.Code{Value: code}, m.Interface()
		}
		return &dtpb.Code{Value: "en"}, nil
	}
	return siblingValue1(fd, r), nil
}

// invalidCodeMarker stands for "this code is not in the value set": the operation must fail.
var invalidCodeMarker proto.Message = &dtpb.Code{Value: "\x00invalid"}

func siblingValue1(fd protoreflect.FieldDescriptor, r *core.Rng) proto.Message {
	md := fd.Message()
	switch {
	case md.Name() == "PositiveInt" || md.Name() == "UnsignedInt":
		return &dtpb.Integer{Value: []int32{1, 5, 0, -1}[r.Intn(4)]}
	case md.Name() == "Integer":
		return &dtpb.PositiveInt{Value: 3}
	case md.Name() == "String":
		return &dtpb.Markdown{Value: "md"}
	case md.Name() == "Markdown" || md.Name() == "Id" || md.Name() == "Code":
		return &dtpb.String{Value: "str"}
	case gen.IsReference(md):
		return &dtpb.Id{Value: "abc"}
	case md.Name() == "Quantity":
		return &dtpb.SimpleQuantity{Value: &dtpb.Decimal{Value: "1"}}
	}
	return &dtpb.String{Value: "sibling"}
}

// crossValue: a primitive of a type different from the field's.
func crossValue(md protoreflect.MessageDescriptor, r *core.Rng) proto.Message {
	pal := []proto.Message{
		&dtpb.Integer{Value: 0}, &dtpb.Integer{Value: 7}, &dtpb.Integer{Value: -1}, &dtpb.PositiveInt{Value: 2}, &dtpb.UnsignedInt{Value: 0},
		&dtpb.Boolean{Value: true}, &dtpb.Boolean{}, &dtpb.String{Value: "1"}, &dtpb.String{Value: "true"}, &dtpb.Code{Value: "male"}, &dtpb.Decimal{Value: "1.5"},
		&dtpb.Date{ValueUs: 1577836800000000, Timezone: "UTC", Precision: dtpb.Date_DAY}, &dtpb.DateTime{ValueUs: 1577836800000000, Timezone: "UTC", Precision: dtpb.DateTime_SECOND},
		&dtpb.Instant{ValueUs: 1577836800000000, Timezone: "Z", Precision: dtpb.Instant_SECOND}, &dtpb.Time{ValueUs: 3600000000, Precision: dtpb.Time_SECOND},
		&dtpb.Base64Binary{Value: []byte{1, 2}}, &dtpb.Uri{Value: "urn:x"}, &dtpb.Id{Value: "i1"}, &dtpb.Markdown{Value: "m"}, &dtpb.Canonical{Value: "http://c"}, &dtpb.Oid{Value: "urn:oid:1.2"},
		&dtpb.Uuid{Value: "urn:uuid:0"}, &dtpb.Url{Value: "http://u"}, &dtpb.Xhtml{Value: "<div/>"},
	}
	for k := 0; k < 8; k++ {
		v := pal[r.Intn(len(pal))]
		if md == nil || v.ProtoReflect().Descriptor().FullName() != md.FullName() {
			return v
		}
	}
	return &dtpb.Integer{Value: 1}
}

func replayC18(env *core.Env, a []json.RawMessage) {
	var c c18Case
	json.Unmarshal(a[0], &c)
	defer env.In("patch", c)()
	app, ok := c18Run(env, c)
	fmt.Printf("case %+v applicable=%v succeeded=%v\n", c, app, ok)
}

var c18Forms = []string{"indexed", "plain", "first-last", "where", "extension", "subslice", "noop"}

func c18Resource(env *core.Env, tn string, seed uint64, rich bool, totality bool, n *int) {
	res, _ := genResource(tn, seed, rich)
	tree, err := model.BuildTree(res)
	if err != nil {
		return
	}
	nodes := tree.All()
	rng := core.NewRng(seed, "c18-cases", tn)
	run := func(c c18Case) {
		*n++
		if !env.Mine(*n) {
			return
		}
		c.TN, c.Seed, c.Rich, c.Totality = tn, seed, rich, totality
		func() {
			defer env.In("patch", c)()
			c18Run(env, c)
		}()
	}
	// choose target nodes: a seeded subset, favouring list members, choices, codes, references
	var targets []int
	for i, nd := range nodes {
		if nd.Parent == nil || nd.Synth != nil || nd.Msg == nil || len(nd.PathTo()) > 5 {
			continue
		}
		w := 6
		switch elemClass(nd) {
		case "choice", "code", "reference", "bundle-entry", "contained":
			w = 2
		case "repeated":
			w = 3
		}
		if rng.Intn(w) == 0 {
			targets = append(targets, i)
		}
	}
	max := env.Size(10, 40)
	if len(targets) > max {
		targets = targets[:max]
	}
	// every special element class present in the resource is targeted at least once, whatever the draw was
	have := map[string]bool{}
	for _, ti := range targets {
		have[elemClass(nodes[ti])] = true
	}
	for i, nd := range nodes {
		if nd.Parent == nil || nd.Synth != nil || nd.Msg == nil || len(nd.PathTo()) > 5 {
			continue
		}
		switch cl := elemClass(nd); cl {
		case "choice", "code", "reference", "bundle-entry", "contained":
			if !have[cl] {
				have[cl] = true
				targets = append([]int{i}, targets...)
			}
		}
	}
	for _, ti := range targets {
		nd := nodes[ti]
		for _, form := range c18Forms {
			run(c18Case{Node: ti, Form: form, Op: "delete"})
			for _, vk := range []string{"right", "sibling", "wrong", "nil", "cross"} {
				if vk != "right" && rng.Intn(3) != 0 {
					continue
				}
				run(c18Case{Node: ti, Form: form, Op: "replace", Value: vk})
			}
		}
		if nd.IsPrim {
			run(c18Case{Node: ti, Form: "indexed", Op: "replace", Value: "cross"})
			if nd.MD != nil {
				// add on a primitive element: its element children (id, extension) and its scalar proto fields (not elements)
				for _, f := range []string{"value", "id", "extension", "valueUs", "precision", "timezone"} {
					run(c18Case{Node: ti, Form: "indexed", Op: "add", Field: f, Value: []string{"right", "cross", "wrong"}[rng.Intn(3)]})
				}
			}
		}
		run(c18Case{Node: ti, Form: "indexed", Op: "move", Index: rng.Intn(3)})
		if nd.FD != nil && nd.FD.IsList() {
			l := len(nd.Parent.KidsNamed(nd.Name))
			for _, idx := range []int{-1, 0, 1, l - 1, l, l + 1, math.MaxInt, math.MinInt} {
				run(c18Case{Node: ti, Form: []string{"indexed", "noop"}[rng.Intn(2)], Op: "insert", Value: "right", Index: idx})
			}
			for _, idx := range []int{0, 1, l} {
				run(c18Case{Node: ti, Form: []string{"element", "element-first"}[rng.Intn(2)], Op: "insert", Value: "right", Index: idx})
			}
			run(c18Case{Node: ti, Form: "indexed", Op: "insert", Value: "wrong", Index: 0})
			run(c18Case{Node: ti, Form: "indexed", Op: "insert", Value: "nil", Index: 0})
			run(c18Case{Node: ti, Form: "indexed", Op: "insert", Value: "sibling", Index: 0})
			run(c18Case{Node: ti, Form: "indexed", Op: "insert", Value: "cross", Index: 0})
		}
		if !nd.IsPrim && nd.MD != nil {
			// add: every kind of field — absent scalar, populated scalar, list, unknown, snake_case, capitalised
			fs := nd.MD.Fields()
			var names []string
			for i := 0; i < fs.Len(); i++ {
				if fs.Get(i).Message() != nil && !(gen.IsReference(nd.MD) && fs.Get(i).ContainingOneof() != nil) {
					names = append(names, fs.Get(i).JSONName())
				}
			}
			for k := 0; k < 5 && len(names) > 0; k++ {
				f := names[rng.Intn(len(names))]
				if lexicallyOdd(f) {
					continue
				}
				form := c18Forms[rng.Intn(len(c18Forms))]
				run(c18Case{Node: ti, Form: form, Op: "add", Field: f, Value: "right"})
				if rng.Intn(3) == 0 {
					run(c18Case{Node: ti, Form: "indexed", Op: "add", Field: f, Value: []string{"sibling", "wrong", "nil", "cross"}[rng.Intn(4)]})
				}
			}
			run(c18Case{Node: ti, Form: "indexed", Op: "add", Field: "noSuchField", Value: "right"})
			run(c18Case{Node: ti, Form: "indexed", Op: "add", Field: "birth_date", Value: "wrong"})
			run(c18Case{Node: ti, Form: "indexed", Op: "add", Field: "Id", Value: "wrong"})
		}
	}
}

// fixed cases: nil resource, absent targets, bad paths, non-element targets
func c18Fixed(env *core.Env, totality bool) {
	prop := "C18"
	if totality {
		prop = "C01"
	}
	defer env.In("patch", c18Case{TN: "fixed"})()
	c18ForeignValues(env, prop)
	c18ZeroScalars(env, prop)
	c18UnsetChoice(env, prop)
	if !totality {
		c18MultiParent(env)
	}
	p := func() fhir.Resource { return gen.StdPatient() }
	hn := &dtpb.HumanName{Family: &dtpb.String{Value: "New"}}
	type fc struct {
		name string
		f    func(r fhir.Resource) error
		nilR bool
		absent bool
	}
	var nilRes fhir.Resource
	var nilVal fhir.Base
	cases := []fc{
		{"Delete(nil resource)", func(r fhir.Resource) error { return patch.Delete(nilRes, "Patient.name") }, true, false},
		{"Replace(nil resource)", func(r fhir.Resource) error { return patch.Replace(nilRes, "Patient.name[0]", hn) }, true, false},
		{"Insert(nil resource)", func(r fhir.Resource) error { return patch.Insert(nilRes, "Patient.name", hn, 0) }, true, false},
		{"Add(nil resource)", func(r fhir.Resource) error { return patch.Add(nilRes, "Patient", "name", hn, &patch.Options{}) }, true, false},
		{"Move(nil resource)", func(r fhir.Resource) error { return patch.Move(nilRes, "Patient.name", 0, 1) }, true, false},
		{"Add(nil options)", func(r fhir.Resource) error { return patch.Add(r, "Patient", "name", hn, nil) }, false, false},
		{"Replace(nil value)", func(r fhir.Resource) error { return patch.Replace(r, "Patient.name[0]", nilVal) }, false, false},
		{"Insert(nil value)", func(r fhir.Resource) error { return patch.Insert(r, "Patient.name", nilVal, 0) }, false, false},
		{"Add(nil value)", func(r fhir.Resource) error { return patch.Add(r, "Patient", "name", nilVal, &patch.Options{}) }, false, false},
		{"Delete(absent element)", func(r fhir.Resource) error { return patch.Delete(r, "Patient.photo") }, false, true},
		{"Delete(absent nested element)", func(r fhir.Resource) error { return patch.Delete(r, "Patient.name[5].family") }, false, true},
		{"Delete(absent via where)", func(r fhir.Resource) error { return patch.Delete(r, "Patient.name.where(family = 'Nobody')") }, false, true},
		{"Delete(wrong root)", func(r fhir.Resource) error { return patch.Delete(r, "Observation.status") }, false, true},
		// paths that go on for several steps after a step that found nothing
		{"Delete(far below absent)", func(r fhir.Resource) error { return patch.Delete(r, "Patient.photo.data.extension.value") }, false, true},
		{"Delete(far below absent 2)", func(r fhir.Resource) error { return patch.Delete(r, "Patient.link.other.identifier.value.extension") }, false, true},
		{"Delete(far below wrong root)", func(r fhir.Resource) error { return patch.Delete(r, "Observation.code.coding.system") }, false, true},
		{"Delete(far below filtered)", func(r fhir.Resource) error { return patch.Delete(r, "Patient.name.where(family = 'Nobody').given.extension.value") }, false, true},
		{"Replace(far below absent)", func(r fhir.Resource) error { return patch.Replace(r, "Patient.photo.data.extension.value", hn) }, false, false},
		{"Insert(far below absent)", func(r fhir.Resource) error { return patch.Insert(r, "Patient.link.other.identifier.value.extension", hn, 0) }, false, false},
		{"Add(far below absent)", func(r fhir.Resource) error { return patch.Add(r, "Patient.photo.data.extension.value", "id", &dtpb.String{Value: "x"}, &patch.Options{}) }, false, false},
		{"Replace(far below wrong root)", func(r fhir.Resource) error { return patch.Replace(r, "Observation.code.coding.system", hn) }, false, false},
		{"Delete(non-element 1)", func(r fhir.Resource) error { return patch.Delete(r, "1") }, false, false},
		{"Delete(syntax error)", func(r fhir.Resource) error { return patch.Delete(r, "Patient.name[") }, false, false},
		{"Delete(multi)", func(r fhir.Resource) error { return patch.Delete(r, "Patient.name") }, false, false},
		{"Delete(root)", func(r fhir.Resource) error { return patch.Delete(r, "Patient") }, false, false},
		{"Delete(computed)", func(r fhir.Resource) error { return patch.Delete(r, "Patient.name.count()") }, false, false},
		{"Delete(primitive value)", func(r fhir.Resource) error { return patch.Delete(r, "Patient.name[0].family.value") }, false, false},
		{"Replace(root)", func(r fhir.Resource) error { return patch.Replace(r, "Patient", hn) }, false, false},
		{"Replace(literal)", func(r fhir.Resource) error { return patch.Replace(r, "'x'", hn) }, false, false},
		{"Replace(empty)", func(r fhir.Resource) error { return patch.Replace(r, "{}", hn) }, false, false},
		{"Insert(empty)", func(r fhir.Resource) error { return patch.Insert(r, "Patient.photo", hn, 0) }, false, false},
		{"Insert(literal)", func(r fhir.Resource) error { return patch.Insert(r, "1", hn, 0) }, false, false},
		{"Add(to multi)", func(r fhir.Resource) error { return patch.Add(r, "Patient.name", "given", &dtpb.String{Value: "g"}, &patch.Options{}) }, false, false},
		{"Add(to primitive)", func(r fhir.Resource) error { return patch.Add(r, "Patient.active", "value", &dtpb.String{Value: "g"}, &patch.Options{}) }, false, false},
		{"Add(to literal)", func(r fhir.Resource) error { return patch.Add(r, "1", "value", &dtpb.String{Value: "g"}, &patch.Options{}) }, false, false},
		{"Add(empty name)", func(r fhir.Resource) error { return patch.Add(r, "Patient", "", &dtpb.String{Value: "g"}, &patch.Options{}) }, false, false},
		{"Move(anything)", func(r fhir.Resource) error { return patch.Move(r, "Patient.name", 0, 1) }, false, false},
		// paths using constructs the compiler does not support, or that are not navigation at all: an error, never a crash
		{"Delete(equivalence)", func(r fhir.Resource) error { return patch.Delete(r, "1 ~ 1") }, false, false},
		{"Delete(where with ~)", func(r fhir.Resource) error { return patch.Delete(r, "Patient.name.where(family ~ 'smith')") }, false, false},
		{"Replace(where with !~)", func(r fhir.Resource) error { return patch.Replace(r, "Patient.name.where(family !~ 'x')", hn) }, false, false},
		{"Delete(union)", func(r fhir.Resource) error { return patch.Delete(r, "Patient.name[0] | Patient.name[1]") }, false, false},
		{"Delete(in)", func(r fhir.Resource) error { return patch.Delete(r, "Patient.name.where(family in ('a'))") }, false, false},
		{"Insert(contains)", func(r fhir.Resource) error { return patch.Insert(r, "Patient.name.where(given contains 'Ann')", hn, 0) }, false, false},
		{"Delete(unimplemented function)", func(r fhir.Resource) error { return patch.Delete(r, "Patient.name.trace('t')") }, false, false},
		{"Add(path with ~)", func(r fhir.Resource) error { return patch.Add(r, "Patient.where(id ~ 'p1')", "name", hn, &patch.Options{}) }, false, false},
		{"Delete(arithmetic)", func(r fhir.Resource) error { return patch.Delete(r, "Patient.name[0 + 0].family & 'x'") }, false, false},
		{"Delete(boolean)", func(r fhir.Resource) error { return patch.Delete(r, "Patient.active and true") }, false, false},
		// values of another FHIR version (message names coincide with R4 names, the types do not): refused like any wrong type
		{"Replace(extension value by an STU3 string)", func(r fhir.Resource) error {
			return patch.Replace(r, "Patient.extension[0].value", &s3dt.String{Value: "new"})
		}, false, false},
		{"Add(extension value, an STU3 string)", func(r fhir.Resource) error {
			return patch.Add(r, "Patient.extension[0]", "value", &s3dt.String{Value: "new"}, &patch.Options{})
		}, false, false},
		{"Replace(name by an STU3 HumanName)", func(r fhir.Resource) error { return patch.Replace(r, "Patient.name[0]", &s3dt.HumanName{}) }, false, false},
		{"Add(contained, an STU3 Patient)", func(r fhir.Resource) error { return patch.Add(r, "Patient", "contained", &s3res.Patient{}, &patch.Options{}) }, false, false},
		{"Insert(name, an STU3 HumanName)", func(r fhir.Resource) error { return patch.Insert(r, "Patient.name", &s3dt.HumanName{}, 0) }, false, false},
		{"Insert(children of one item)", func(r fhir.Resource) error { return patch.Insert(r, "Patient.name[0].children()", &dtpb.String{Value: "x"}, 2) }, false, false},
		{"Insert(children of one item, further)", func(r fhir.Resource) error { return patch.Insert(r, "Patient.name[0].children()", &dtpb.String{Value: "x"}, 3) }, false, false},
		{"Insert(descendants)", func(r fhir.Resource) error { return patch.Insert(r, "Patient.name[0].descendants()", &dtpb.String{Value: "x"}, 4) }, false, false},
		{"Insert(children of the resource)", func(r fhir.Resource) error { return patch.Insert(r, "Patient.children()", hn, 7) }, false, false},
		{"Insert(two lists)", func(r fhir.Resource) error { return patch.Insert(r, "Patient.name.given", &dtpb.String{Value: "x"}, 3) }, false, false},
		{"Replace(children of one item)", func(r fhir.Resource) error { return patch.Replace(r, "Patient.name[0].children()", &dtpb.String{Value: "x"}) }, false, false},
		{"Insert(children of a name with one given and two prefixes)", func(r fhir.Resource) error {
			p := &ppb.Patient{Name: []*dtpb.HumanName{{Given: []*dtpb.String{{Value: "g"}}, Prefix: []*dtpb.String{{Value: "p1"}, {Value: "p2"}}}}}
			e1 := patch.Insert(p, "Patient.name[0].children()", &dtpb.String{Value: "x"}, 2)
			e2 := patch.Insert(p, "Patient.name[0].children()", &dtpb.String{Value: "x"}, 3)
			e3 := patch.Insert(p, "Patient.name[0].descendants()", &dtpb.String{Value: "x"}, 3)
			e4 := patch.Insert(p, "Patient.name[0].children()", &dtpb.String{Value: "x"}, 1)
			for _, e := range []error{e1, e2, e3} {
				if e == nil {
					return nil
				}
			}
			_ = e4
			return e1
		}, false, false},
		{"Delete(malformed escape)", func(r fhir.Resource) error { return patch.Delete(r, "Patient.name.where(family = '\\u12')") }, false, true},
	}
	for _, c := range cases {
		r := p()
		before := protoBytes(r)
		var perr error
		out := env.Guard("patch."+c.name, func() { perr = c.f(r) })
		env.Eval(1)
		env.Case()
		if c.nilR {
			env.Cover("nil-resource")
		}
		if out.Panicked || out.Dead {
			if !out.Dead {
				env.Violatef(prop+"/panic@"+out.Site+"/"+core.NormMsg(out.PanicMsg), "patch.%s panicked: %s", c.name, out.PanicMsg)
			}
			continue
		}
		if totality {
			continue
		}
		if c.absent {
			env.Cover("delete-absent")
			if perr != nil {
				env.Violatef("C18/delete-absent/error", "patch.%s: deleting an absent element must succeed without change, got %v", c.name, perr)
			}
		}
		if strings.HasPrefix(c.name, "Move") && !errors.Is(perr, patch.ErrNotImplemented) {
			env.Violatef("C18/move/not-ErrNotImplemented", "patch.%s returned %v", c.name, perr)
		}
		if (perr != nil || c.absent) && protoBytes(r) != before {
			env.Violatef("C18/fixed/mutated", "patch.%s returned %v but the resource changed", c.name, perr)
		}
		if !c.absent && !strings.HasPrefix(c.name, "Move") && perr == nil && c.name != "Add(nil options)" {
			env.Violatef("C18/fixed/succeeded-on-invalid-operation", "patch.%s returned nil", c.name)
		}
	}
}

// c18UnsetChoice: targets that are choice wrappers present without a member (value[x] / deceased[x] / multipleBirth[x]
// built as an empty wrapper, or with a selected case holding no message): no operation crashes, and an operation that
// returns an error leaves the resource as it was.
func c18UnsetChoice(env *core.Env, prop string) {
	mk := func() *ppb.Patient {
		p := gen.StdPatient()
		p.Extension = append([]*dtpb.Extension{{Url: &dtpb.Uri{Value: "http://u/unset"}, Value: &dtpb.Extension_ValueX{}}, {Url: &dtpb.Uri{Value: "http://u/nilmember"}, Value: &dtpb.Extension_ValueX{Choice: &dtpb.Extension_ValueX_StringValue{}}}}, p.Extension...)
		p.Deceased = &ppb.Patient_DeceasedX{}
		p.MultipleBirth = &ppb.Patient_MultipleBirthX{Choice: &ppb.Patient_MultipleBirthX_Integer{}}
		return p
	}
	sv := &dtpb.String{Value: "new"}
	ops := []struct {
		name string
		f    func(r fhir.Resource) error
	}{
		{"Delete(extension[0].value, empty wrapper)", func(r fhir.Resource) error { return patch.Delete(r, "Patient.extension[0].value") }},
		{"Replace(extension[0].value, empty wrapper)", func(r fhir.Resource) error { return patch.Replace(r, "Patient.extension[0].value", sv) }},
		{"Add(extension[0].value, empty wrapper)", func(r fhir.Resource) error { return patch.Add(r, "Patient.extension[0]", "value", sv, &patch.Options{}) }},
		{"Insert(extension[0].value, empty wrapper)", func(r fhir.Resource) error { return patch.Insert(r, "Patient.extension[0].value", sv, 0) }},
		{"Delete(extension[1].value, nil member)", func(r fhir.Resource) error { return patch.Delete(r, "Patient.extension[1].value") }},
		{"Replace(extension[1].value, nil member)", func(r fhir.Resource) error { return patch.Replace(r, "Patient.extension[1].value", sv) }},
		{"Add(extension[1].value, nil member)", func(r fhir.Resource) error { return patch.Add(r, "Patient.extension[1]", "value", sv, &patch.Options{}) }},
		{"Delete(deceased, empty wrapper)", func(r fhir.Resource) error { return patch.Delete(r, "Patient.deceased") }},
		{"Replace(deceased, empty wrapper)", func(r fhir.Resource) error { return patch.Replace(r, "Patient.deceased", &dtpb.Boolean{Value: true}) }},
		{"Add(deceased, empty wrapper)", func(r fhir.Resource) error { return patch.Add(r, "Patient", "deceased", &dtpb.Boolean{Value: true}, &patch.Options{}) }},
		{"Delete(multipleBirth, nil member)", func(r fhir.Resource) error { return patch.Delete(r, "Patient.multipleBirth") }},
		{"Replace(multipleBirth, nil member)", func(r fhir.Resource) error { return patch.Replace(r, "Patient.multipleBirth", &dtpb.Integer{Value: 2}) }},
		{"Delete(extension.value, all)", func(r fhir.Resource) error { return patch.Delete(r, "Patient.extension.where(url = 'http://u/unset').value") }},
		{"Delete(children of the extension)", func(r fhir.Resource) error { return patch.Delete(r, "Patient.extension[0].children()") }},
	}
	for _, c := range ops {
		r := mk()
		before := protoBytes(r)
		var perr error
		out := env.Guard("patch."+c.name, func() { perr = c.f(r) })
		env.Eval(1)
		env.Case()
		env.Cover("unset-choice-target")
		if out.Panicked || out.Dead {
			if !out.Dead {
				env.Violatef(prop+"/panic@"+out.Site+"/"+core.NormMsg(out.PanicMsg), "patch.%s panicked: %s", c.name, out.PanicMsg)
			}
			continue
		}
		if prop == "C18" && perr != nil && protoBytes(r) != before {
			env.Violatef("C18/unset-choice/error-mutated", "patch.%s returned %v but the resource changed", c.name, perr)
		}
	}
}

// c18MultiParent: targets reached through a step that yields several parents (two names, each with given names), the
// selected element lying in a parent other than the first, or the parent being picked by first()/take(1)/last()/skip(1).
// A success must equal the hand-built expectation, an error must leave the resource as it was; that each of these
// operations can succeed at all is an observation threshold (see Threshold), not a verdict.
func c18MultiParent(env *core.Env) {
	mk := func() *ppb.Patient {
		return &ppb.Patient{Id: &dtpb.Id{Value: "m"}, Name: []*dtpb.HumanName{{Family: &dtpb.String{Value: "F1"}, Given: []*dtpb.String{{Value: "a"}, {Value: "b"}}}, {Family: &dtpb.String{Value: "F2"}, Given: []*dtpb.String{{Value: "c"}, {Value: "d"}}}}}
	}
	gv := func(vs ...string) []*dtpb.String {
		var out []*dtpb.String
		for _, v := range vs {
			out = append(out, &dtpb.String{Value: v})
		}
		return out
	}
	x := &dtpb.String{Value: "x"}
	type mc struct {
		key, desc string
		f         func(r *ppb.Patient) error
		g0, g1    []*dtpb.String
	}
	cases := []mc{
		{"delete", "Delete(Patient.name.given[2])", func(r *ppb.Patient) error { return patch.Delete(r, "Patient.name.given[2]") }, gv("a", "b"), gv("d")},
		{"delete", "Delete(Patient.name.given.last())", func(r *ppb.Patient) error { return patch.Delete(r, "Patient.name.given.last()") }, gv("a", "b"), gv("c")},
		{"delete", "Delete(Patient.name.given.where($this = 'c'))", func(r *ppb.Patient) error { return patch.Delete(r, "Patient.name.given.where($this = 'c')") }, gv("a", "b"), gv("d")},
		{"delete", "Delete(Patient.name.given[1])", func(r *ppb.Patient) error { return patch.Delete(r, "Patient.name.given[1]") }, gv("a"), gv("c", "d")},
		{"replace", "Replace(Patient.name.given[3])", func(r *ppb.Patient) error { return patch.Replace(r, "Patient.name.given[3]", x) }, gv("a", "b"), gv("c", "x")},
		{"replace", "Replace(Patient.name.given.last())", func(r *ppb.Patient) error { return patch.Replace(r, "Patient.name.given.last()", x) }, gv("a", "b"), gv("c", "x")},
		{"replace", "Replace(Patient.name.given.where($this = 'c'))", func(r *ppb.Patient) error { return patch.Replace(r, "Patient.name.given.where($this = 'c')", x) }, gv("a", "b"), gv("x", "d")},
		{"insert-first", "Insert(Patient.name.first().given, 1)", func(r *ppb.Patient) error { return patch.Insert(r, "Patient.name.first().given", x, 1) }, gv("a", "x", "b"), gv("c", "d")},
		{"insert-take", "Insert(Patient.name.take(1).given, 0)", func(r *ppb.Patient) error { return patch.Insert(r, "Patient.name.take(1).given", x, 0) }, gv("x", "a", "b"), gv("c", "d")},
		{"insert-last", "Insert(Patient.name.last().given, 2)", func(r *ppb.Patient) error { return patch.Insert(r, "Patient.name.last().given", x, 2) }, gv("a", "b"), gv("c", "d", "x")},
		{"insert-skip", "Insert(Patient.name.skip(1).given, 0)", func(r *ppb.Patient) error { return patch.Insert(r, "Patient.name.skip(1).given", x, 0) }, gv("a", "b"), gv("x", "c", "d")},
		{"insert-index", "Insert(Patient.name[1].given, 1)", func(r *ppb.Patient) error { return patch.Insert(r, "Patient.name[1].given", x, 1) }, gv("a", "b"), gv("c", "x", "d")},
		{"insert-where", "Insert(Patient.name.where(family = 'F2').given, 0)", func(r *ppb.Patient) error { return patch.Insert(r, "Patient.name.where(family = 'F2').given", x, 0) }, gv("a", "b"), gv("x", "c", "d")},
		{"add-first", "Add(Patient.name.first(), given)", func(r *ppb.Patient) error { return patch.Add(r, "Patient.name.first()", "given", x, &patch.Options{}) }, gv("a", "b", "x"), gv("c", "d")},
		{"add-last", "Add(Patient.name.last(), given)", func(r *ppb.Patient) error { return patch.Add(r, "Patient.name.last()", "given", x, &patch.Options{}) }, gv("a", "b"), gv("c", "d", "x")},
	}
	for _, c := range cases {
		r := mk()
		before := protoBytes(r)
		var perr error
		out := env.Guard("patch."+c.desc, func() { perr = c.f(r) })
		env.Eval(1)
		env.Case()
		if out.Panicked || out.Dead {
			if !out.Dead {
				env.Violatef("C18/panic@"+out.Site+"/"+core.NormMsg(out.PanicMsg), "patch.%s panicked: %s", c.desc, out.PanicMsg)
			}
			continue
		}
		if perr != nil {
			env.Cover("multi-parent-error:" + c.desc)
			if protoBytes(r) != before {
				env.Violatef("C18/multi-parent/mutated-on-error", "patch.%s returned %v but the resource changed", c.desc, perr)
			}
			continue
		}
		want := mk()
		want.Name[0].Given, want.Name[1].Given = c.g0, c.g1
		if !proto.Equal(r, want) {
			env.Violatef("C18/multi-parent/wrong-result", "patch.%s on a Patient with the names {F1: a b} {F2: c d} succeeded but the resource is now %s", c.desc, trunc(jsonOf(r), 300))
			continue
		}
		env.Cover("multi-parent-success:" + c.desc)
	}
}

// c18ZeroScalars: Add on a primitive element whose proto scalars hold their zero values (false, "", the epoch, no
// time zone, no precision), named after those scalars: an error that leaves the resource as it was, never a crash.
func c18ZeroScalars(env *core.Env, prop string) {
	mk := func() *ppb.Patient {
		return &ppb.Patient{Id: &dtpb.Id{Value: "z"}, Active: &dtpb.Boolean{}, BirthDate: &dtpb.Date{}, Gender: &ppb.Patient_GenderCode{}, Name: []*dtpb.HumanName{{Family: &dtpb.String{}, Given: []*dtpb.String{{}}}},
			MultipleBirth: &ppb.Patient_MultipleBirthX{Choice: &ppb.Patient_MultipleBirthX_Integer{Integer: &dtpb.Integer{}}}, Meta: &dtpb.Meta{LastUpdated: &dtpb.Instant{}}, Deceased: &ppb.Patient_DeceasedX{Choice: &ppb.Patient_DeceasedX_DateTime{DateTime: &dtpb.DateTime{}}}}
	}
	vals := []fhir.Base{&dtpb.String{Value: "x"}, &dtpb.Boolean{Value: true}, &dtpb.Integer{Value: 3}, &dtpb.Extension{Url: &dtpb.Uri{Value: "http://u"}}}
	for _, path := range []string{"Patient.active", "Patient.birthDate", "Patient.gender", "Patient.name[0].family", "Patient.name[0].given[0]", "Patient.multipleBirth", "Patient.meta.lastUpdated", "Patient.deceased", "Patient.id"} {
		for _, name := range []string{"value", "valueUs", "value_us", "timezone", "precision", "Value", "ValueUs"} {
			for vi, v := range vals {
				r := mk()
				before := protoBytes(r)
				var perr error
				out := env.Guard("patch.Add zero scalar", func() { perr = patch.Add(r, path, name, v, &patch.Options{}) })
				env.Eval(1)
				env.Cover("add-on-zero-scalar-primitive")
				if out.Panicked || out.Dead {
					if !out.Dead {
						env.Violatef(prop+"/panic@"+out.Site+"/"+core.NormMsg(out.PanicMsg), "patch.Add(%s, %q, value %d) on a Patient whose primitives hold zero values panicked: %s", path, name, vi, out.PanicMsg)
					}
					continue
				}
				if prop == "C18" && perr != nil && protoBytes(r) != before {
					env.Violatef("C18/fixed/mutated", "patch.Add(%s, %q) returned %v but the resource changed", path, name, perr)
				}
			}
		}
	}
}

// c18RefAdd: Add of the `reference` element of a Reference. The element is a scalar held in a oneof (typed id,
// fragment, uri): when any member is populated the element is populated, Add must fail and change nothing;
// when none is, a successful Add makes `reference` read back the supplied string.
func c18RefAdd(env *core.Env) {
	defer env.In("refadd")()
	env.Case()
	forms := []struct {
		name      string
		ref       *dtpb.Reference
		populated bool
	}{
		{"typed-id", &dtpb.Reference{Reference: &dtpb.Reference_OrganizationId{OrganizationId: &dtpb.ReferenceId{Value: "org1"}}}, true},
		{"typed-id-with-history", &dtpb.Reference{Reference: &dtpb.Reference_PatientId{PatientId: &dtpb.ReferenceId{Value: "p9", History: &dtpb.Id{Value: "2"}}}}, true},
		{"fragment", &dtpb.Reference{Reference: &dtpb.Reference_Fragment{Fragment: &dtpb.String{Value: "c1"}}}, true},
		{"absolute-uri", &dtpb.Reference{Reference: &dtpb.Reference_Uri{Uri: &dtpb.String{Value: "https://example.org/fhir/Organization/7"}}}, true},
		{"urn", &dtpb.Reference{Reference: &dtpb.Reference_Uri{Uri: &dtpb.String{Value: "urn:uuid:0d6ea7f5-2f0c-4d2f-8a4e-53a45b4a0e4b"}}}, true},
		{"typed-id-and-display", &dtpb.Reference{Reference: &dtpb.Reference_PractitionerId{PractitionerId: &dtpb.ReferenceId{Value: "pr"}}, Display: &dtpb.String{Value: "Dr"}}, true},
		{"display-only", &dtpb.Reference{Display: &dtpb.String{Value: "Org"}}, false},
		{"identifier-only", &dtpb.Reference{Identifier: &dtpb.Identifier{Value: &dtpb.String{Value: "id"}}}, false},
	}
	for _, f := range forms {
		for _, val := range []string{"Organization/2", "#c2", "https://example.org/fhir/Organization/8"} {
			p := gen.StdPatient()
			p.ManagingOrganization = proto.Clone(f.ref).(*dtpb.Reference)
			before := protoBytes(p)
			var perr error
			out := env.Guard("patch.Add(reference)", func() {
				perr = patch.Add(p, "Patient.managingOrganization", "reference", &dtpb.String{Value: val}, &patch.Options{})
			})
			env.Eval(1)
			env.Cover("add-reference-of-a-reference")
			if out.Panicked || out.Dead {
				if !out.Dead {
					env.Violatef("C18/panic@"+out.Site+"/"+core.NormMsg(out.PanicMsg), "patch.Add(reference) on a %s Reference panicked: %s", f.name, out.PanicMsg)
				}
				continue
			}
			changed := protoBytes(p) != before
			switch {
			case perr != nil && changed:
				env.Violatef("C18/add-reference/error-but-mutated", "Add(Patient.managingOrganization, reference, %q) on a %s Reference returned %v but the resource changed", val, f.name, perr)
			case perr == nil && f.populated:
				env.Violatef("C18/add-reference/populated-scalar-overwritten", "Add(Patient.managingOrganization, reference, %q) on a %s Reference (reference populated) returned nil; resource now %s", val, f.name, trunc(jsonOf(p), 200))
			case perr == nil:
				r := fx.Eval(env, "Patient.managingOrganization.reference", []fhir.Resource{p}, nil, nil)
				if it, ok := r.Single(); !ok || it.T != val {
					env.Violatef("C18/add-reference/not-the-added-value", "Add(Patient.managingOrganization, reference, %q) on a %s Reference returned nil, but `reference` now reads %s", val, f.name, trunc(r.Short(), 100))
				}
			}
		}
	}
}

// c18ChoiceMembers: a choice element takes a value of every type of its choice list. For each singular choice
// element at the top level of each resource type, and for Extension.value and Dosage.doseAndRate.dose/rate, add and
// replace are run once per member type: on success the wrapper holds exactly that value; and since the member
// types are alike as far as FHIRPatch is concerned, the operation succeeds for all of them or for none.
func c18ChoiceMembers(env *core.Env, tn string) {
	defer env.In("choice", tn)()
	env.Case()
	md := gen.ResourceTypeByName(tn)
	if md == nil {
		return
	}
	g := gen.NewResGen(core.NewRng(env.Seed, "c18-choice", tn), false)
	type site struct {
		build  func() (fhir.Resource, protoreflect.Message) // resource and the parent element in it
		path   string
		fd     protoreflect.FieldDescriptor
	}
	var sites []site
	fs := md.Fields()
	for i := 0; i < fs.Len(); i++ {
		fd := fs.Get(i)
		if fd.Message() != nil && gen.IsChoice(fd.Message()) && !fd.IsList() {
			sites = append(sites, site{func() (fhir.Resource, protoreflect.Message) {
				r := newMsg(md).Interface().(fhir.Resource)
				return r, r.ProtoReflect()
			}, tn, fd})
		}
	}
	// an extension on the resource itself (DomainResource.extension) and its value[x]
	if ef := fs.ByName("extension"); ef != nil {
		extMD := ef.Message()
		sites = append(sites, site{func() (fhir.Resource, protoreflect.Message) {
			r := newMsg(md).Interface().(fhir.Resource)
			e := newMsg(extMD)
			u := newMsg(extMD.Fields().ByName("url").Message())
			u.Set(u.Descriptor().Fields().ByName("value"), protoreflect.ValueOfString("http://u/x"))
			e.Set(extMD.Fields().ByName("url"), protoreflect.ValueOfMessage(u))
			r.ProtoReflect().Mutable(ef).List().Append(protoreflect.ValueOfMessage(e))
			return r, e
		}, tn + ".extension[0]", extMD.Fields().ByName("value")})
	}
	if tn == "MedicationRequest" {
		df := fs.ByName("dosage_instruction")
		dr := df.Message().Fields().ByName("dose_and_rate")
		for _, nm := range []protoreflect.Name{"dose", "rate"} {
			nm := nm
			sites = append(sites, site{func() (fhir.Resource, protoreflect.Message) {
				r := newMsg(md).Interface().(fhir.Resource)
				d := newMsg(df.Message())
				x := newMsg(dr.Message())
				idm := newMsg(dr.Message().Fields().ByName("id").Message())
				idm.Set(idm.Descriptor().Fields().ByName("value"), protoreflect.ValueOfString("dr1"))
				x.Set(dr.Message().Fields().ByName("id"), protoreflect.ValueOfMessage(idm))
				d.Mutable(dr).List().Append(protoreflect.ValueOfMessage(x))
				r.ProtoReflect().Mutable(df).List().Append(protoreflect.ValueOfMessage(d))
				return r, x
			}, tn + ".dosageInstruction[0].doseAndRate[0]", dr.Message().Fields().ByName(nm)})
		}
	}
	for _, st := range sites {
		od := st.fd.Message().Oneofs().Get(0)
		name := st.fd.JSONName()
		type outcome struct {
			member string
			ok     bool
			err    error
		}
		for _, op := range []string{"add", "replace"} {
			var outs []outcome
			for k := 0; k < od.Fields().Len(); k++ {
				mf := od.Fields().Get(k)
				if mf.Message() == nil {
					continue
				}
				val := g.ValueOf(mf.Message(), 3).Interface()
				r, parent := st.build()
				if op == "replace" {
					// start from another member of the list
					of := od.Fields().Get((k + 1) % od.Fields().Len())
					w := newMsg(st.fd.Message())
					w.Set(of, protoreflect.ValueOfMessage(g.ValueOf(of.Message(), 3)))
					parent.Set(st.fd, protoreflect.ValueOfMessage(w))
				}
				before := protoBytes(r)
				valBefore := protoBytes(val)
				var perr error
				out := env.Guard("patch."+op+" choice "+st.path+"."+name, func() {
					if op == "add" {
						perr = patch.Add(r, st.path, name, val.(fhir.Base), &patch.Options{})
					} else {
						perr = patch.Replace(r, st.path+"."+model.IdentSrc(name), val.(fhir.Base))
					}
				})
				env.Eval(1)
				env.Cover("choice-member")
				d := fmt.Sprintf("%s %s.%s with a %s", op, st.path, name, mf.Message().Name())
				if out.Panicked || out.Dead {
					if !out.Dead {
						env.Violatef("C18/panic@"+out.Site+"/"+core.NormMsg(out.PanicMsg), "%s panicked: %s", d, out.PanicMsg)
					}
					continue
				}
				if protoBytes(val) != valBefore {
					env.Violatef("C18/choice-member/value-modified", "%s: the supplied value was modified", d)
				}
				if perr != nil {
					if protoBytes(r) != before {
						env.Violatef("C18/choice-member/error-but-mutated", "%s returned %v but the resource changed", d, perr)
					}
					outs = append(outs, outcome{string(mf.Message().Name()), false, perr})
					continue
				}
				outs = append(outs, outcome{string(mf.Message().Name()), true, nil})
				// expectation: the same resource with the wrapper holding exactly val
				wantR, wantParent := st.build()
				w := newMsg(st.fd.Message())
				w.Set(mf, protoreflect.ValueOfMessage(proto.Clone(val).ProtoReflect()))
				wantParent.Set(st.fd, protoreflect.ValueOfMessage(w))
				if !proto.Equal(r, wantR) {
					env.Violatef("C18/choice-member/wrong-result/"+op, "%s returned nil; expected %s, observed %s", d, trunc(jsonOf(wantR), 240), trunc(jsonOf(r), 240))
				}
			}
			okN := 0
			for _, o := range outs {
				if o.ok {
					okN++
				}
			}
			if okN > 0 && okN < len(outs) {
				for _, o := range outs {
					if !o.ok {
						env.Violatef("C18/choice-member/one-member-type-refused/"+op+"/"+o.member, "%s %s.%s succeeds for %d of the %d types of the choice list but is refused for a %s: %v", op, st.path, name, okN, len(outs), o.member, o.err)
					}
				}
			}
			if okN > 0 {
				env.Distinct(fmt.Sprintf("choice|%s|%s|%s", op, tn, name))
			}
		}
	}
}

// c18OptionsAndRanges: (a) the compile options of a call are that call's: one path text used with two different
// custom functions selects two different elements; (b) an unsigned value that an integer element cannot hold is
// refused or stored exactly, never wrapped.
func c18OptionsAndRanges(env *core.Env) {
	defer env.In("optrange")()
	env.Case()
	env.Cover("options-and-ranges")
	pick := func(i int) func(in system.Collection) (system.Collection, error) {
		return func(in system.Collection) (system.Collection, error) {
			if i < len(in) {
				return system.Collection{in[i]}, nil
			}
			return system.Collection{}, nil
		}
	}
	mkp := func() *ppb.Patient {
		return &ppb.Patient{Name: []*dtpb.HumanName{{Given: []*dtpb.String{{Value: "g0"}, {Value: "g1"}, {Value: "g2"}}}}}
	}
	for round := 0; round < 2; round++ {
		for _, i := range []int{0, 2, 1, 0} {
			for _, op := range []string{"delete", "replace"} {
				p := mkp()
				var perr error
				out := env.Guard("patch with custom function", func() {
					if op == "delete" {
						perr = patch.Delete(p, "Patient.name[0].given.nth()", compopts.AddFunction("nth", pick(i)))
					} else {
						perr = patch.Replace(p, "Patient.name[0].given.nth()", &dtpb.String{Value: "new"}, compopts.AddFunction("nth", pick(i)))
					}
				})
				env.Eval(1)
				if out.Panicked || out.Dead {
					if !out.Dead {
						env.Violatef("C18/panic@"+out.Site+"/"+core.NormMsg(out.PanicMsg), "patch.%s with a custom function panicked: %s", op, out.PanicMsg)
					}
					continue
				}
				want := mkp()
				if perr == nil {
					if op == "delete" {
						want.Name[0].Given = append(want.Name[0].Given[:i:i], want.Name[0].Given[i+1:]...)
					} else {
						want.Name[0].Given[i] = &dtpb.String{Value: "new"}
					}
				}
				if !proto.Equal(p, want) {
					env.Violatef("C18/options/"+op+"/wrong-element", "patch.%s(`Patient.name[0].given.nth()`) with nth = item %d returned %v; expected %s, observed %s", op, i, perr, trunc(jsonOf(want), 200), trunc(jsonOf(p), 200))
				}
			}
		}
	}
	// (a2) a replacement that compares equal to the old value under FHIRPath `=` but is not the same element is a replacement all the same
	{
		ext := []*dtpb.Extension{{Url: &dtpb.Uri{Value: "http://u/x"}, Value: &dtpb.Extension_ValueX{Choice: &dtpb.Extension_ValueX_Boolean{Boolean: &dtpb.Boolean{Value: true}}}}}
		type rc struct {
			name string
			mk   func() fhir.Resource
			path string
			val  fhir.Base
		}
		for _, c := range []rc{
			{"date with an extension by the bare date", func() fhir.Resource {
				return &ppb.Patient{BirthDate: &dtpb.Date{ValueUs: 946684800000000, Timezone: "UTC", Precision: dtpb.Date_DAY, Extension: ext}}
			}, "Patient.birthDate", &dtpb.Date{ValueUs: 946684800000000, Timezone: "UTC", Precision: dtpb.Date_DAY}},
			{"bare string by the same text with an id", func() fhir.Resource { return mkp() }, "Patient.name[0].given[1]", &dtpb.String{Value: "g1", Id: &dtpb.String{Value: "gid"}}},
			{"boolean by the same boolean with an extension", func() fhir.Resource { return &ppb.Patient{Active: &dtpb.Boolean{Value: true}} }, "Patient.active", &dtpb.Boolean{Value: true, Extension: ext}},
			{"decimal 1.0 by 1.00", func() fhir.Resource {
				return &qpb.Questionnaire{Item: []*qpb.Questionnaire_Item{{LinkId: &dtpb.String{Value: "i"}, Initial: []*qpb.Questionnaire_Item_Initial{{Value: &qpb.Questionnaire_Item_Initial_ValueX{Choice: &qpb.Questionnaire_Item_Initial_ValueX_Decimal{Decimal: &dtpb.Decimal{Value: "1.0"}}}}}}}}
			}, "Questionnaire.item[0].initial[0].value", &dtpb.Decimal{Value: "1.00"}},
			{"name by an equal name with an id", func() fhir.Resource { return mkp() }, "Patient.name[0]", &dtpb.HumanName{Id: &dtpb.String{Value: "n1"}, Given: []*dtpb.String{{Value: "g0"}, {Value: "g1"}, {Value: "g2"}}}},
		} {
			r := c.mk()
			var perr error
			out := env.Guard("patch.Replace equal value", func() { perr = patch.Replace(r, c.path, c.val) })
			env.Eval(1)
			env.Cover("replace-by-equal-value")
			if out.Panicked || out.Dead {
				if !out.Dead {
					env.Violatef("C18/panic@"+out.Site+"/"+core.NormMsg(out.PanicMsg), "patch.Replace(%s) panicked: %s", c.name, out.PanicMsg)
				}
				continue
			}
			if perr != nil {
				continue
			}
			got := fx.Eval(env, c.path, []fhir.Resource{r}, nil, nil)
			if !got.IsValue() || len(got.Raw) != 1 {
				continue
			}
			if gm, ok := got.Raw[0].(proto.Message); !ok || !proto.Equal(gm, c.val) {
				env.Violatef("C18/replace/equal-value-not-written", "patch.Replace(`%s`) of a %s returned nil, but the element is still %s (expected %s)", c.path, c.name, trunc(fmt.Sprint(got.Raw[0]), 100), trunc(fmt.Sprint(c.val), 100))
			}
		}
	}
	// (a3) populated single elements whose FHIR name needs the `_value` spelling in the protos (class, for), and values whose
	// type shares only its short name with the element's type
	{
		enc := func() fhir.Resource {
			return &encpb.Encounter{ClassValue: &dtpb.Coding{Code: &dtpb.Code{Value: "AMB"}}, Location: []*encpb.Encounter_Location{{Location: &dtpb.Reference{Display: &dtpb.String{Value: "ward"}}}}}
		}
		type ac struct {
			name string
			mk   func() fhir.Resource
			f    func(r fhir.Resource) error
		}
		for _, c := range []ac{
			{"Add(Encounter, class, Coding) on a populated class", enc, func(r fhir.Resource) error {
				return patch.Add(r, "Encounter", "class", &dtpb.Coding{Code: &dtpb.Code{Value: "IMP"}}, &patch.Options{})
			}},
			{"Add(Task, for, Reference) on a populated for", func() fhir.Resource { return &taskpb.Task{ForValue: &dtpb.Reference{Display: &dtpb.String{Value: "a"}}} }, func(r fhir.Resource) error {
				return patch.Add(r, "Task", "for", &dtpb.Reference{Display: &dtpb.String{Value: "b"}}, &patch.Options{})
			}},
			{"Replace(Encounter.location[0], a Location resource)", enc, func(r fhir.Resource) error { return patch.Replace(r, "Encounter.location[0]", &locpb.Location{}) }},
			{"Insert(Encounter.location, a Location resource)", enc, func(r fhir.Resource) error { return patch.Insert(r, "Encounter.location", &locpb.Location{}, 0) }},
			{"Add(Encounter, location, a Location resource)", enc, func(r fhir.Resource) error { return patch.Add(r, "Encounter", "location", &locpb.Location{}, &patch.Options{}) }},
			{"Add(Patient, contact, an Organization contact)", func() fhir.Resource { return mkp() }, func(r fhir.Resource) error { return patch.Add(r, "Patient", "contact", &orgpb.Organization_Contact{}, &patch.Options{}) }},
		} {
			r := c.mk()
			before := protoBytes(r)
			var perr error
			out := env.Guard("patch."+c.name, func() { perr = c.f(r) })
			env.Eval(1)
			env.Cover("reserved-name-and-same-short-name")
			if out.Panicked || out.Dead {
				if !out.Dead {
					env.Violatef("C18/panic@"+out.Site+"/"+core.NormMsg(out.PanicMsg), "patch.%s panicked: %s", c.name, out.PanicMsg)
				}
				continue
			}
			if perr == nil {
				env.Violatef("C18/fixed/succeeded-on-invalid-operation", "patch.%s returned nil; resource now %s", c.name, trunc(jsonOf(r), 200))
			} else if protoBytes(r) != before {
				env.Violatef("C18/fixed/mutated", "patch.%s returned %v but the resource changed", c.name, perr)
			}
		}
	}
	// (b)
	for _, v := range []uint32{0, 7, 2147483647, 2147483648, 4294967295, 3000000000} {
		for _, mk := range []func() fhir.Base{func() fhir.Base { return &dtpb.UnsignedInt{Value: v} }, func() fhir.Base { return &dtpb.PositiveInt{Value: v} }} {
			val := mk()
			if _, isPos := val.(*dtpb.PositiveInt); isPos && v == 0 {
				continue
			}
			q := &qpb.Questionnaire{Item: []*qpb.Questionnaire_Item{{LinkId: &dtpb.String{Value: "i1"}, MaxLength: &dtpb.Integer{Value: 5}}, {LinkId: &dtpb.String{Value: "i2"}}}}
			for _, op := range []string{"replace", "add"} {
				r := proto.Clone(q).(*qpb.Questionnaire)
				before := protoBytes(r)
				var perr error
				out := env.Guard("patch integer element with unsigned value", func() {
					if op == "replace" {
						perr = patch.Replace(r, "Questionnaire.item[0].maxLength", val)
					} else {
						perr = patch.Add(r, "Questionnaire.item[1]", "maxLength", val, &patch.Options{})
					}
				})
				env.Eval(1)
				if out.Panicked || out.Dead {
					if !out.Dead {
						env.Violatef("C18/panic@"+out.Site+"/"+core.NormMsg(out.PanicMsg), "patch.%s of an integer element with %T(%d) panicked: %s", op, val, v, out.PanicMsg)
					}
					continue
				}
				if perr != nil {
					if protoBytes(r) != before {
						env.Violatef("C18/integer-range/error-but-mutated", "patch.%s maxLength := %T(%d) returned %v but the resource changed", op, val, v, perr)
					}
					continue
				}
				idx := map[string]int{"replace": 0, "add": 1}[op]
				if got := r.Item[idx].GetMaxLength(); got == nil || int64(got.GetValue()) != int64(v) {
					env.Violatef("C18/integer-range/wrong-value-stored", "patch.%s maxLength := %T(%d) returned nil; the element now holds %v", op, val, v, got)
				}
			}
		}
	}
}

// c18ForeignValues: values whose message name is an R4 name but whose type is not (another FHIR version), offered to
// targets held in a ContainedResource (Bundle entries, Parameters) or in value[x]: refused, nothing changed, no crash.
func c18ForeignValues(env *core.Env, prop string) {
	mkBundle := func() *bcrpb.Bundle {
		return &bcrpb.Bundle{Entry: []*bcrpb.Bundle_Entry{
			{Resource: &bcrpb.ContainedResource{OneofResource: &bcrpb.ContainedResource_Patient{Patient: &ppb.Patient{Id: &dtpb.Id{Value: "p1"}}}}},
			{FullUrl: &dtpb.Uri{Value: "urn:x"}},
		}}
	}
	mkPatient := func() *ppb.Patient {
		return &ppb.Patient{Id: &dtpb.Id{Value: "p"}, Extension: []*dtpb.Extension{{Url: &dtpb.Uri{Value: "http://u/empty"}}, {Url: &dtpb.Uri{Value: "http://u/full"}, Value: &dtpb.Extension_ValueX{Choice: &dtpb.Extension_ValueX_StringValue{StringValue: &dtpb.String{Value: "s"}}}}}}
	}
	type fc struct {
		name string
		mk   func() fhir.Resource
		f    func(r fhir.Resource) error
	}
	foreign := []fhir.Base{&s3res.Patient{}, &s3res.Observation{}, &s3dt.String{Value: "x"}, &s3dt.Quantity{}, &s3dt.HumanName{}, &s3dt.Boolean{Value: true}}
	var cases []fc
	for _, v := range foreign {
		v := v
		tn := string(v.ProtoReflect().Descriptor().FullName())
		cases = append(cases,
			fc{"Replace(Bundle.entry[0].resource, " + tn + ")", func() fhir.Resource { return mkBundle() }, func(r fhir.Resource) error { return patch.Replace(r, "Bundle.entry[0].resource", v) }},
			fc{"Add(Bundle.entry[1], resource, " + tn + ")", func() fhir.Resource { return mkBundle() }, func(r fhir.Resource) error { return patch.Add(r, "Bundle.entry[1]", "resource", v, &patch.Options{}) }},
			fc{"Add(Patient.extension[0], value, " + tn + ")", func() fhir.Resource { return mkPatient() }, func(r fhir.Resource) error { return patch.Add(r, "Patient.extension[0]", "value", v, &patch.Options{}) }},
			fc{"Replace(Patient.extension[1].value, " + tn + ")", func() fhir.Resource { return mkPatient() }, func(r fhir.Resource) error { return patch.Replace(r, "Patient.extension[1].value", v) }},
			fc{"Add(Patient, contained, " + tn + ")", func() fhir.Resource { return mkPatient() }, func(r fhir.Resource) error { return patch.Add(r, "Patient", "contained", v, &patch.Options{}) }},
			fc{"Insert(Bundle.entry, " + tn + ")", func() fhir.Resource { return mkBundle() }, func(r fhir.Resource) error { return patch.Insert(r, "Bundle.entry", v, 0) }},
		)
	}
	for _, c := range cases {
		r := c.mk()
		before := protoBytes(r)
		var perr error
		out := env.Guard("patch."+c.name, func() { perr = c.f(r) })
		env.Eval(1)
		env.Case()
		env.Cover("foreign-version-value")
		if out.Panicked || out.Dead {
			if !out.Dead {
				env.Violatef(prop+"/panic@"+out.Site+"/"+core.NormMsg(out.PanicMsg), "patch.%s panicked: %s", c.name, out.PanicMsg)
			}
			continue
		}
		if prop != "C18" {
			continue
		}
		if perr == nil {
			env.Violatef("C18/fixed/succeeded-on-invalid-operation", "patch.%s returned nil", c.name)
		} else if protoBytes(r) != before {
			env.Violatef("C18/fixed/mutated", "patch.%s returned %v but the resource changed", c.name, perr)
		}
	}
}

// c18Aliasing: the value handed to the operation, or a message shared by two elements, is the same Go object as
// something already in the resource. Only the targeted element changes; the supplied value is not modified.
func c18Aliasing(env *core.Env) {
	defer env.In("aliasing")()
	env.Case()
	env.Cover("aliasing")
	run := func(name string, r fhir.Resource, f func() error, want func() fhir.Resource) {
		var perr error
		out := env.Guard("patch."+name, func() { perr = f() })
		env.Eval(1)
		if out.Panicked || out.Dead {
			if !out.Dead {
				env.Violatef("C18/panic@"+out.Site+"/"+core.NormMsg(out.PanicMsg), "patch.%s panicked: %s", name, out.PanicMsg)
			}
			return
		}
		if perr != nil {
			return // refusing is allowed; then nothing may have changed (checked by the caller-specific want == before)
		}
		if w := want(); !proto.Equal(r, w) {
			env.Violatef("C18/aliasing/"+name, "patch.%s returned nil; expected %s, observed %s", name, trunc(jsonOf(w), 300), trunc(jsonOf(r), 300))
		}
	}
	// (1) replace an element by itself
	{
		p := gen.StdPatient()
		want := proto.Clone(p).(fhir.Resource)
		run("replace-by-itself", p, func() error { return patch.Replace(p, "Patient.name[0]", p.Name[0]) }, func() fhir.Resource { return want })
		p2 := gen.StdPatient()
		want2 := proto.Clone(p2).(fhir.Resource)
		run("replace-scalar-by-itself", p2, func() error { return patch.Replace(p2, "Patient.birthDate", p2.BirthDate) }, func() fhir.Resource { return want2 })
	}
	// (2) one message object held by two elements: replacing / deleting one leaves the other
	{
		p := gen.StdPatient()
		shared := &dtpb.Period{Start: &dtpb.DateTime{ValueUs: 1577836800000000, Timezone: "UTC", Precision: dtpb.DateTime_DAY}}
		p.Name[0].Period, p.Name[1].Period = shared, shared
		nv := &dtpb.Period{End: &dtpb.DateTime{ValueUs: 1609459200000000, Timezone: "UTC", Precision: dtpb.DateTime_DAY}}
		want := proto.Clone(p).(*ppb.Patient)
		want.Name[0].Period = proto.Clone(nv).(*dtpb.Period)
		run("replace-shared-message", p, func() error { return patch.Replace(p, "Patient.name[0].period", nv) }, func() fhir.Resource { return want })
		q := gen.StdPatient()
		sh := &dtpb.String{Value: "Shared"}
		q.Name[0].Given = []*dtpb.String{sh, {Value: "x"}}
		q.Name[1].Given = []*dtpb.String{sh}
		want3 := proto.Clone(q).(*ppb.Patient)
		want3.Name[0].Given[0] = &dtpb.String{Value: "Other"}
		run("replace-shared-list-item", q, func() error { return patch.Replace(q, "Patient.name[0].given[0]", &dtpb.String{Value: "Other"}) }, func() fhir.Resource { return want3 })
	}
	// (3) replace, then replace back with the object that was there before (kept by the caller)
	{
		p := gen.StdPatient()
		orig := proto.Clone(p).(fhir.Resource)
		old := p.Name[1]
		if err := patch.Replace(p, "Patient.name[1]", &dtpb.HumanName{Family: &dtpb.String{Value: "Temp"}}); err == nil {
			run("replace-back-with-kept-object", p, func() error { return patch.Replace(p, "Patient.name[1]", old) }, func() fhir.Resource { return orig })
		}
	}
	// (4) the supplied value is not modified and later changes of it do not reach into the resource's other elements
	{
		p := gen.StdPatient()
		v := &dtpb.HumanName{Family: &dtpb.String{Value: "V"}, Given: []*dtpb.String{{Value: "g"}}}
		vb := protoBytes(v)
		want := proto.Clone(p).(*ppb.Patient)
		want.Name = append(want.Name, proto.Clone(v).(*dtpb.HumanName))
		run("add-value-kept", p, func() error { return patch.Add(p, "Patient", "name", v, &patch.Options{}) }, func() fhir.Resource { return want })
		if protoBytes(v) != vb {
			env.Violatef("C18/aliasing/value-modified", "patch.Add modified the value it was given")
		}
	}
}

func replayC18Aliasing(env *core.Env, a []json.RawMessage) { c18Aliasing(env) }

// sequences with inverse pairs return to the original JSON
func c18Sequence(env *core.Env, tn string, seed uint64) {
	defer env.In("seq", tn, seed)()
	res0, _ := genResource(tn, seed, false)
	work := proto.Clone(res0).(fhir.Resource)
	tree, err := model.BuildTree(work)
	if err != nil {
		return
	}
	env.Case()
	orig := jsonOf(work)
	rng := core.NewRng(seed, "c18-seq", tn)
	steps := 0
	for _, nd := range tree.All() {
		if steps >= 5 || nd.Parent == nil || nd.Synth != nil || nd.UnderFresh() || nd.IsResource || nd.ChoiceMsg != "" || len(nd.PathTo()) > 4 || rng.Intn(4) != 0 {
			continue
		}
		bad := false
		for _, nm := range nd.PathTo() {
			if lexicallyOdd(nm) {
				bad = true
			}
		}
		if bad {
			continue
		}
		path := indexedPath(tree.Name, nd)
		old := proto.Clone(nd.Msg)
		vg := gen.NewResGen(rng.Fork("v"), false)
		vg.MaxDepth, vg.Budget = 2, 15
		nv := vg.ValueOf(nd.MD, 1)
		if nv == nil {
			continue
		}
		var e1, e2 error
		out := env.Guard("patch.sequence replace/replace-back "+path, func() {
			e1 = patch.Replace(work, path, nv.Interface())
			if e1 == nil {
				e2 = patch.Replace(work, path, old)
			}
		})
		env.Eval(2)
		if out.Panicked || out.Dead {
			if !out.Dead {
				env.Violatef("C18/panic@"+out.Site+"/sequence", "replace/replace-back at `%s` on %s panicked: %s", path, tn, out.PanicMsg)
			}
			return
		}
		if e1 != nil {
			continue
		}
		steps++
		env.Cover("sequence")
		if e2 != nil {
			env.Violatef("C18/sequence/replace-back-fails", "replace at `%s` on %s succeeded but replacing the original value back fails: %v", path, tn, e2)
			return
		}
		if now := jsonOf(work); now != orig {
			env.Violatef("C18/sequence/replace-back-not-original", "replace then replace-back at `%s` on %s does not return to the original: %s", path, tn, trunc(diffHint(orig, now), 400))
			return
		}
		// add then delete on a list field of this element's parent (append then delete the appended item)
		if nd.FD.IsList() && !nd.IsPrim {
			pp := indexedPath(tree.Name, nd.Parent)
			if nd.Parent.Parent == nil {
				pp = tree.Name
			}
			l := len(nd.Parent.KidsNamed(nd.Name))
			out := env.Guard("patch.sequence add/delete "+pp, func() {
				e1 = patch.Add(work, pp, nd.Name, proto.Clone(old), &patch.Options{})
				if e1 == nil {
					e2 = patch.Delete(work, fmt.Sprintf("%s.%s[%d]", pp, model.IdentSrc(nd.Name), l))
				}
			})
			env.Eval(2)
			if out.Panicked || out.Dead {
				if !out.Dead {
					env.Violatef("C18/panic@"+out.Site+"/sequence", "add/delete at `%s` on %s panicked: %s", pp, tn, out.PanicMsg)
				}
				return
			}
			if e1 == nil {
				if e2 != nil {
					env.Violatef("C18/sequence/delete-after-add-fails", "add to `%s.%s` on %s succeeded but deleting the appended item fails: %v", pp, nd.Name, tn, e2)
					return
				}
				if now := jsonOf(work); now != orig {
					env.Violatef("C18/sequence/add-delete-not-original", "add then delete at `%s.%s` on %s does not return to the original: %s", pp, nd.Name, tn, trunc(diffHint(orig, now), 400))
					return
				}
			}
		}
	}
}

func replayC18Seq(env *core.Env, a []json.RawMessage) {
	var tn string
	var seed uint64
	json.Unmarshal(a[0], &tn)
	json.Unmarshal(a[1], &seed)
	c18Sequence(env, tn, seed)
}

// c18Codes: a FHIR `code` value patched into every value-set bound top-level element of every resource type,
// for every code of its value set - all in one process, in two orders. On success the element must hold exactly
// the enum value whose FHIR code was supplied (the same code string means different values in different value sets).
func c18Codes(env *core.Env, reverse bool) {
	defer env.In("codes", reverse)()
	types := append([]protoreflect.MessageDescriptor{}, gen.ResourceTypes()...)
	if reverse {
		for i, j := 0, len(types)-1; i < j; i, j = i+1, j-1 {
			types[i], types[j] = types[j], types[i]
		}
	}
	for _, md := range types {
		fs := md.Fields()
		for i := 0; i < fs.Len(); i++ {
			fd := fs.Get(i)
			wm := fd.Message()
			if wm == nil || !gen.IsCodeWrapper(wm) || lexicallyOdd(fd.JSONName()) {
				continue
			}
			vf := wm.Fields().ByName("value")
			if vf == nil || vf.Kind() != protoreflect.EnumKind {
				continue
			}
			vals := vf.Enum().Values()
			for k := 1; k < vals.Len(); k++ {
				ev := vals.Get(k)
				code := gen.OriginalCode(ev)
				dup := 0
				for q := 0; q < vals.Len(); q++ {
					if gen.OriginalCode(vals.Get(q)) == code {
						dup++
					}
				}
				if dup != 1 || ev.Number() == 0 {
					continue
				}
				// strings one separator / letter case away from this code that are not codes of the value set: refused
				if strings.Contains(code, "-") {
					for _, bad := range []string{strings.ReplaceAll(code, "-", "_"), strings.ReplaceAll(code, "-", " "), strings.ReplaceAll(code, "-", "."), strings.ToUpper(code)} {
						isCode := false
						for q := 0; q < vals.Len(); q++ {
							if gen.OriginalCode(vals.Get(q)) == bad {
								isCode = true
							}
						}
						if isCode || fd.IsList() {
							continue
						}
						res := gen.NewMessage(md)
						res.Set(fs.ByName("id"), protoreflect.ValueOfMessage((&dtpb.Id{Value: "c"}).ProtoReflect()))
						r := res.Interface().(fhir.Resource)
						before := protoBytes(r)
						var perr error
						out := env.Guard("patch.Add near-miss code", func() {
							perr = patch.Add(r, string(md.Name()), fd.JSONName(), &dtpb.Code{Value: bad}, &patch.Options{})
						})
						env.Eval(1)
						env.Cover("code-patch-near-miss")
						if out.Panicked || out.Dead {
							continue
						}
						if perr == nil {
							env.Violatef("C18/code-patch/add/invalid-code-accepted", "patch.Add(%s, %q, code %q) returned nil although %q is not a code of the element's value set (the nearest code is %q); the element now holds %s", md.Name(), fd.JSONName(), bad, bad, code, trunc(jsonOf(r), 200))
						} else if protoBytes(r) != before {
							env.Violatef("C18/code-patch/add/mutated-on-error", "patch.Add(%s, %q, code %q) failed (%v) but changed the resource", md.Name(), fd.JSONName(), bad, perr)
						}
					}
				}
				for _, op := range []string{"add", "replace"} {
					res := gen.NewMessage(md)
					res.Set(fs.ByName("id"), protoreflect.ValueOfMessage((&dtpb.Id{Value: "c"}).ProtoReflect()))
					path := string(md.Name())
					if op == "replace" || fd.IsList() {
						// populated with another value first
						other := gen.NewMessage(wm)
						other.Set(vf, protoreflect.ValueOfEnum(vals.Get(1+(k%(vals.Len()-1))).Number()))
						if fd.IsList() {
							res.Mutable(fd).List().Append(protoreflect.ValueOfMessage(other))
						} else {
							res.Set(fd, protoreflect.ValueOfMessage(other))
						}
					}
					if op == "replace" {
						path += "." + model.IdentSrc(fd.JSONName())
						if fd.IsList() {
							path += "[0]"
						}
					} else if !fd.IsList() && op == "add" {
						res.Clear(fd)
					}
					r := res.Interface().(fhir.Resource)
					var perr error
					desc := fmt.Sprintf("patch.%s(%s, `%s`, %q, code %q)", op, md.Name(), path, fd.JSONName(), code)
					out := env.Guard(desc, func() {
						if op == "add" {
							perr = patch.Add(r, path, fd.JSONName(), &dtpb.Code{Value: code}, &patch.Options{})
						} else {
							perr = patch.Replace(r, path, &dtpb.Code{Value: code})
						}
					})
					env.Eval(1)
					env.Case()
					env.Cover("code-patch")
					if out.Panicked || out.Dead {
						if !out.Dead {
							env.Violatef("C18/panic@"+out.Site+"/"+core.NormMsg(out.PanicMsg), "%s panicked: %s", desc, out.PanicMsg)
						}
						continue
					}
					if perr != nil {
						env.Cover("code-patch-rejected")
						continue // a library may refuse a sibling type; then nothing may have changed (covered by the generated cases)
					}
					var got protoreflect.Message
					if fd.IsList() {
						l := res.Get(fd).List()
						idx := l.Len() - 1
						if op == "replace" {
							idx = 0
						}
						if idx < 0 {
							env.Violatef("C18/code-patch/"+op+"/no-element", "%s returned nil but the list is empty", desc)
							continue
						}
						got = l.Get(idx).Message()
					} else {
						if !res.Has(fd) {
							env.Violatef("C18/code-patch/"+op+"/no-element", "%s returned nil but the element is absent", desc)
							continue
						}
						got = res.Get(fd).Message()
					}
					if got.Get(vf).Enum() != ev.Number() {
						holds := fmt.Sprintf("the undefined enum number %d", got.Get(vf).Enum())
						if d := vals.ByNumber(got.Get(vf).Enum()); d != nil {
							holds = fmt.Sprintf("%s (%q)", d.Name(), gen.OriginalCode(d))
						}
						env.Violatef("C18/code-patch/"+op+"/wrong-code-stored", "%s returned nil but the element now holds %s instead of %s", desc, holds, ev.Name())
					}
					env.Distinct("code-patch|" + string(wm.FullName()) + "|" + string(ev.Name()) + "|" + op)
				}
			}
		}
	}
}

func replayC18Codes(env *core.Env, a []json.RawMessage) {
	var rev bool
	json.Unmarshal(a[0], &rev)
	c18Codes(env, rev)
}

func runC18(env *core.Env) {
	n := 0
	if env.Mine(n) {
		c18Fixed(env, false)
	}
	for _, rev := range []bool{false, true} {
		n++
		if env.Mine(n) {
			c18Codes(env, rev)
		}
	}
	n++
	if env.Mine(n) {
		c18Aliasing(env)
	}
	n++
	if env.Mine(n) {
		c18RefAdd(env)
	}
	n++
	if env.Mine(n) {
		c18OptionsAndRanges(env)
	}
	for _, md := range gen.ResourceTypes() {
		n++
		if env.Mine(n) {
			c18ChoiceMembers(env, string(md.Name()))
		}
	}
	types := gen.ResourceTypes()
	per := env.Size(1, 8)
	for k := 0; k < per; k++ {
		for _, md := range types {
			tn := string(md.Name())
			seed := env.Seed*15485863 + uint64(k)
			c18Resource(env, tn, seed, k%3 == 2, false, &n)
			n++
			if env.Mine(n) {
				c18Sequence(env, tn, seed+7)
			}
		}
	}
	// Bundles with entries of mixed types (bundle-entry targets)
	for k := 0; k < env.Size(6, 60); k++ {
		c18Resource(env, "Bundle", env.Seed*31+uint64(k), true, false, &n)
	}
}
