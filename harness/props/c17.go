package props

import (
	"fmt"
	"encoding/json"
	"errors"
	"strings"
	"time"

	dtpb "github.com/google/fhir/go/proto/google/fhir/proto/r4/core/datatypes_go_proto"
	bcrpb "github.com/google/fhir/go/proto/google/fhir/proto/r4/core/resources/bundle_and_contained_resource_go_proto"
	ppb "github.com/google/fhir/go/proto/google/fhir/proto/r4/core/resources/patient_go_proto"
	"github.com/verily-src/fhirpath-go/fhirpath"
	"github.com/verily-src/fhirpath-go/fhirpath/compopts"
	"github.com/verily-src/fhirpath-go/fhirpath/evalopts"
	"github.com/verily-src/fhirpath-go/fhirpath/system"
	"github.com/verily-src/fhirpath-go/fhirpath/verifharness/core"
	"github.com/verily-src/fhirpath-go/fhirpath/verifharness/fx"
	"github.com/verily-src/fhirpath-go/fhirpath/verifharness/gen"
	"github.com/verily-src/fhirpath-go/internal/fhir"
)

// C17 — environment variables and custom functions behave as declared.

func init() {
	core.Register(&core.Property{
		ID:         "C17",
		Exhaustive: true,
		Rule:       "exhaustive: every evaluate-option list of length 0..4 over {valid System value, valid FHIR element, valid collection, duplicate name, predefined names context/ucum, unsupported type, unsupported type nested in a collection, collection nested in a collection, nil, OverrideTime} in every order, and every compile-option list of length 0..3 (thorough: 4) over {well-typed function, typed-argument function, wrong first parameter, wrong results, variadic, zero-argument, existing built-in name, duplicate custom name, non-function, WithExperimentalFuncs, Permissive} in every order; with an instrumented custom function that counts its invocations and records what it received; programs referencing each variable at the root, inside function arguments and inside where/select criteria, and repeatedly around filters / sub-setting of the same variable; nested and repeated invocations of the instrumented function. every Evaluate* entry point, reused option objects, interface-typed parameters, %-prefixed names, unknown variables and failing functions on the non-deciding side, option errors independent of the source text, every table name refused by AddFunction; distinct_nontrivial = distinct option lists containing at least one failing option or two interacting options",
		Assumptions: []string{"when several options fail, the returned error must match at least one of the failing options' sentinel errors",
			"variadic custom functions are outside the 'fixed parameter list' contract: only totality is required"},
		Run:    runC17,
		Checks: map[string]func(*core.Env, []json.RawMessage){"evalopts": replayC17Eval, "compopts": replayC17Comp, "contract": replayC17Contract, "kinds": replayC17Kinds},
		Threshold: func(m *core.Merged) []string {
			var r []string
			for _, k := range []string{"evalopts-ok", "evalopts-failing", "ErrExistingConstant", "ErrUnsupportedType", "compopts-ok", "compopts-failing", "nothing-evaluated", "custom-called", "context-identity", "unknown-variable", "spliced", "in-criteria"} {
				if m.Cover[k] == 0 {
					r = append(r, "never observed: "+k)
				}
			}
			return r
		},
	})
}

var c17Name = &dtpb.HumanName{Family: &dtpb.String{Value: "Env"}}
var c17Coll = system.Collection{system.Integer(1), system.String("x"), c17Name}

// evaluate-option kinds
var c17EvalKinds = []string{"sys", "elem", "coll", "dup", "predef-context", "predef-ucum", "unsupported", "nested-unsupported", "nested-collection", "unsupported-first", "nil", "time", "empty-collection", "nil-collection", "percent-context", "percent-a"}

func c17EvalOpt(kind string) fhirpath.EvaluateOption {
	switch kind {
	case "sys":
		return evalopts.EnvVariable("a", system.Integer(5))
	case "elem":
		return evalopts.EnvVariable("b", c17Name)
	case "coll":
		return evalopts.EnvVariable("c", c17Coll)
	case "dup":
		return evalopts.EnvVariable("a", system.Integer(6))
	case "predef-context":
		return evalopts.EnvVariable("context", system.Integer(1))
	case "predef-ucum":
		return evalopts.EnvVariable("ucum", system.String("x"))
	case "unsupported":
		return evalopts.EnvVariable("u", 42)
	case "nested-unsupported":
		return evalopts.EnvVariable("n", system.Collection{system.Integer(1), system.Collection{system.String("ok"), "raw go string"}})
	case "unsupported-first":
		// the offending items are not the last ones of the collection
		return evalopts.EnvVariable("uf", system.Collection{"raw go string", nil, 42, system.Integer(1), system.String("ok")})
	case "nested-collection":
		// collections are flat: a collection holding a collection (of valid items) is not "a collection of those"
		return evalopts.EnvVariable("nc", system.Collection{system.Integer(1), system.Collection{system.String("ok")}})
	case "nil":
		return evalopts.EnvVariable("z", nil)
	case "percent-context":
		// a name is a name: "%context" (with the sign) is not the predefined variable, and does not replace it
		return evalopts.EnvVariable("%context", system.Integer(99))
	case "percent-a":
		return evalopts.EnvVariable("%a", system.Integer(77))
	case "empty-collection":
		return evalopts.EnvVariable("ec", system.Collection{})
	case "nil-collection":
		// a collection nobody appended to: still a collection, with no items
		var none system.Collection
		return evalopts.EnvVariable("nilc", none)
	case "time":
		return evalopts.OverrideTime(time.Date(2020, 1, 2, 3, 4, 5, 0, time.UTC))
	}
	return nil
}

var errProbe = errors.New("c17 probe error")

type c17Probe struct {
	calls  int
	inputs []system.Collection
	args   [][]any
}

func (p *c17Probe) f1(in system.Collection) (system.Collection, error) {
	p.calls++
	p.inputs = append(p.inputs, in)
	return in, nil
}
func (p *c17Probe) f2(in system.Collection, s system.String) (system.Collection, error) {
	p.calls++
	p.inputs = append(p.inputs, in)
	p.args = append(p.args, []any{s})
	return system.Collection{s, c17Name}, nil
}
func (p *c17Probe) f3(in system.Collection, a system.Integer, b system.String) (system.Collection, error) {
	p.calls++
	p.inputs = append(p.inputs, in)
	p.args = append(p.args, []any{a, b})
	return system.Collection{a, b}, nil
}
func (p *c17Probe) ferr(in system.Collection) (system.Collection, error) {
	p.calls++
	return nil, errProbe
}

func c17EvalList(env *core.Env, kinds []string) {
	defer env.In("evalopts", kinds)()
	env.Case()
	var eo []fhirpath.EvaluateOption
	seenA := 0
	expExisting, expUnsupported := false, false
	has := map[string]bool{}
	for _, k := range kinds {
		eo = append(eo, c17EvalOpt(k))
		has[k] = true
		switch k {
		case "sys", "dup":
			seenA++
			if seenA > 1 {
				expExisting = true
			}
		case "predef-context", "predef-ucum":
			expExisting = true
		case "unsupported", "nested-unsupported", "nested-collection", "unsupported-first", "nil":
			expUnsupported = true
		}
	}
	// repeating the same valid option also collides
	count := map[string]int{}
	for _, k := range kinds {
		count[k]++
	}
	for _, k := range []string{"elem", "coll", "empty-collection", "nil-collection", "percent-context", "percent-a"} {
		if count[k] > 1 {
			expExisting = true
		}
	}
	failing := expExisting || expUnsupported
	probe := &c17Probe{}
	in := []fhir.Resource{gen.StdPatient()}
	ex, cr := fx.Compile(env, "probe().count() + 1", compopts.AddFunction("probe", probe.f1))
	if ex == nil {
		env.Violatef("C17/harness-program-rejected", "probe program does not compile: %s", cr.Short())
		return
	}
	r := fx.Evaluate(env, ex, in, eo...)
	list := strings.Join(kinds, ",")
	if failing || len(kinds) >= 2 {
		env.Distinct("eval|" + list)
	}
	if r.IsPanic() {
		env.Violatef(fx.PanicSig("C17", r), "evaluate options [%s] => %s", list, r.Short())
		return
	}
	if failing {
		env.Cover("evalopts-failing")
		if !r.IsError() {
			env.Violatef("C17/evalopts/failing-option-ignored/"+failClass(expExisting, expUnsupported), "evaluate options [%s]: an option fails but Evaluate returned %s", list, trunc(r.Short(), 100))
			return
		}
		okE := expExisting && errors.Is(r.Err, fhirpath.ErrExistingConstant)
		okU := expUnsupported && errors.Is(r.Err, fhirpath.ErrUnsupportedType)
		if expExisting {
			env.Cover("ErrExistingConstant")
		}
		if expUnsupported {
			env.Cover("ErrUnsupportedType")
		}
		if !okE && !okU {
			env.Violatef("C17/evalopts/wrong-error/"+failClass(expExisting, expUnsupported), "evaluate options [%s]: error %q matches none of the expected sentinels", list, r.Err)
		} else if (expExisting && !okE) || (expUnsupported && !okU) {
			// every failing option is reported with its own error, whatever else fails in the same call
			env.Violatef("C17/evalopts/one-failure-hides-another", "evaluate options [%s]: a name collides (ErrExistingConstant: %v) and a value is unsupported (ErrUnsupportedType: %v), but the error %q identifies only one of them", list, okE, okU, r.Err)
		}
		env.Cover("nothing-evaluated")
		if probe.calls != 0 {
			env.Violatef("C17/evalopts/evaluated-despite-option-error", "evaluate options [%s]: the expression was evaluated (%d custom-function calls) although an option failed", list, probe.calls)
		}
		return
	}
	env.Cover("evalopts-ok")
	if !r.IsValue() {
		env.Violatef("C17/evalopts/valid-options-rejected", "evaluate options [%s]: all valid, but Evaluate returned %s", list, trunc(r.Short(), 120))
		return
	}
	// the variables evaluate to exactly the supplied values, at every reference position
	check := func(src string, want system.Collection, what string) {
		rr := fx.Eval(env, src, in, nil, eo)
		if rr.IsPanic() {
			env.Violatef(fx.PanicSig("C17", rr), "`%s` => %s", src, rr.Short())
			return
		}
		if !rr.IsValue() {
			env.Violatef("C17/variable/"+what+"/error", "`%s` with options [%s] => %s", src, list, trunc(rr.Short(), 120))
			return
		}
		if ok, why := sameItems(rr.Raw, want); !ok {
			env.Violatef("C17/variable/"+what+"/wrong-value", "`%s` with options [%s]: %s (observed %s)", src, list, why, trunc(rr.Short(), 120))
		}
	}
	if has["percent-context"] || has["percent-a"] {
		env.Cover("percent-prefixed-name")
		check("%context.count()", system.Collection{system.Integer(int32(len(in)))}, "context-after-percent-name")
		if rr := fx.Eval(env, "%context", in, nil, eo); rr.IsValue() && len(rr.Raw) == len(in) {
			for i := range in {
				if rr.Raw[i] != any(in[i]) {
					env.Violatef("C17/context/not-the-input-collection", "with a variable named \"%%context\" supplied, `%%context` is no longer the input collection: %s", trunc(rr.Short(), 100))
					break
				}
			}
		}
	}
	if has["percent-a"] && has["sys"] && !has["dup"] {
		check("%a", system.Collection{system.Integer(5)}, "percent-name-does-not-replace")
	}
	if has["sys"] && !has["dup"] {
		check("%a", system.Collection{system.Integer(5)}, "root")
		check("iif(true, %a)", system.Collection{system.Integer(5)}, "function-argument")
		check("%context.select(%a)", system.Collection{system.Integer(5)}, "select-criterion")
		check("%context.where(%a = 5).count()", system.Collection{system.Integer(1)}, "where-criterion")
		env.Cover("in-criteria")
	}
	for k, v := range map[string]string{"empty-collection": "%ec", "nil-collection": "%nilc"} {
		if has[k] && count[k] == 1 {
			env.Cover("variable-bound-to-no-items")
			check(v, system.Collection{}, k)
			check(v+".count()", system.Collection{system.Integer(0)}, k)
			check("iif("+v+".empty(), 1, 2)", system.Collection{system.Integer(1)}, k)
			check("%context.select("+v+").count()", system.Collection{system.Integer(0)}, k)
			check("%context.where("+v+".exists()).count()", system.Collection{system.Integer(0)}, k)
		}
	}
	if has["elem"] {
		check("%b", system.Collection{c17Name}, "root")
		check("%b.family", system.Collection{c17Name.Family}, "root")
		check("Patient.name.select(%b).first()", system.Collection{c17Name}, "select-criterion")
	}
	if has["coll"] {
		env.Cover("spliced")
		check("%c", c17Coll, "collection-spliced")
		check("%c.count()", system.Collection{system.Integer(3)}, "collection-spliced")
		check("%c[2]", system.Collection{c17Name}, "collection-spliced")
		check("%context.select(%c).count()", system.Collection{system.Integer(3)}, "select-criterion")
		// referenced again after having been filtered / sub-set / projected: still the supplied value
		check("%c.where($this is System.String).count() + %c.count()", system.Collection{system.Integer(4)}, "referenced-twice")
		check("%c.where($this is System.String)", system.Collection{system.String("x")}, "filtered")
		check("%c", c17Coll, "after-filtering")
		check("%c.tail().where($this is System.String).count() + %c.skip(1).count() + %c.take(1).count()", system.Collection{system.Integer(4)}, "referenced-twice")
		check("%c.select($this).exists($this is System.Integer) and %c.first() = 1", system.Collection{system.Boolean(true)}, "referenced-twice")
		check("%c", c17Coll, "after-filtering")
		env.Cover("variable-referenced-twice")
		if len(c17Coll) != 3 || c17Coll[0] != system.Integer(1) || c17Coll[1] != system.String("x") || c17Coll[2] != any(c17Name) {
			env.Violatef("C17/variable/supplied-collection-modified", "the collection supplied as %%c was modified by evaluation: now %s", fx.Render(c17Coll).T)
			c17Coll = system.Collection{system.Integer(1), system.String("x"), c17Name}
		}
	}
	if !failing {
		check("%context.where(false).count() + %context.count() + %context.where(true).count()", system.Collection{system.Integer(2)}, "context-referenced-twice")
	}
}

func failClass(e, u bool) string {
	switch {
	case e && u:
		return "existing+unsupported"
	case e:
		return "existing"
	}
	return "unsupported"
}

func replayC17Eval(env *core.Env, a []json.RawMessage) {
	var kinds []string
	json.Unmarshal(a[0], &kinds)
	c17EvalList(env, kinds)
}

// compile-option kinds
var c17CompKinds = []string{"fn-good", "fn-typed", "fn-bad-first", "fn-bad-results", "fn-variadic", "fn-zero-arg", "fn-builtin-name", "fn-dup-name", "not-a-func", "experimental", "permissive", "fn-bad-errtype", "fn-bad-3results", "fn-bad-first-ptr", "fn-bad-result-type", "fn-any-param", "fn-iface-param"}

// c17Err is a concrete error type: a function returning it instead of the `error` interface has a bad signature.
type c17Err struct{}

func (*c17Err) Error() string { return "c17Err" }

func c17CompOpt(kind string, p *c17Probe) (fhirpath.CompileOption, bool) {
	switch kind {
	case "fn-good":
		return compopts.AddFunction("good", p.f1), false
	case "fn-typed":
		return compopts.AddFunction("typed", p.f2), false
	case "fn-bad-first":
		return compopts.AddFunction("badfirst", func(i int) (system.Collection, error) { p.calls++; return nil, nil }), true
	case "fn-bad-results":
		return compopts.AddFunction("badres", func(in system.Collection) system.Collection { p.calls++; return in }), true
	case "fn-variadic":
		return compopts.AddFunction("vari", func(in system.Collection, a ...any) (system.Collection, error) { p.calls++; return in, nil }), false
	case "fn-zero-arg":
		return compopts.AddFunction("zero", func() (system.Collection, error) { p.calls++; return nil, nil }), true
	case "fn-builtin-name":
		return compopts.AddFunction("where", p.f1), true
	case "fn-dup-name":
		return compopts.AddFunction("good", p.f1), false // fails only when "good" is registered twice
	case "not-a-func":
		return compopts.AddFunction("nf", 42), true
	case "fn-any-param":
		// parameters of interface type are parameters like any other (the argument must implement them)
		return compopts.AddFunction("anyp", func(in system.Collection, a any) (system.Collection, error) { p.calls++; return in, nil }), false
	case "fn-iface-param":
		return compopts.AddFunction("ifacep", func(in system.Collection, a interface{ GetValue() string }) (system.Collection, error) {
			p.calls++
			return system.Collection{system.String(a.GetValue())}, nil
		}), false
	case "fn-bad-errtype":
		return compopts.AddFunction("baderr", func(in system.Collection) (system.Collection, *c17Err) { p.calls++; return in, nil }), true
	case "fn-bad-3results":
		return compopts.AddFunction("bad3", func(in system.Collection) (system.Collection, error, int) { p.calls++; return in, nil, 0 }), true
	case "fn-bad-first-ptr":
		return compopts.AddFunction("badptr", func(in *system.Collection) (system.Collection, error) { p.calls++; return nil, nil }), true
	case "fn-bad-result-type":
		return compopts.AddFunction("badrt", func(in system.Collection) ([]any, error) { p.calls++; return nil, nil }), true
	case "experimental":
		return compopts.WithExperimentalFuncs(), false
	case "permissive":
		return compopts.Permissive(), false
	}
	return nil, false
}

func c17CompList(env *core.Env, kinds []string) {
	defer env.In("compopts", kinds)()
	env.Case()
	p := &c17Probe{}
	var co []fhirpath.CompileOption
	failing := false
	goods := 0
	has := map[string]int{}
	for _, k := range kinds {
		o, bad := c17CompOpt(k, p)
		co = append(co, o)
		has[k]++
		if bad {
			failing = true
		}
		if k == "fn-good" || k == "fn-dup-name" {
			goods++
		}
	}
	if goods > 1 || has["fn-typed"] > 1 || has["fn-variadic"] > 1 || has["fn-any-param"] > 1 || has["fn-iface-param"] > 1 {
		failing = true // the same custom name registered twice
	}
	list := strings.Join(kinds, ",")
	if failing || len(kinds) >= 2 {
		env.Distinct("comp|" + list)
	}
	in := []fhir.Resource{gen.StdPatient()}
	src := "Patient.name.count()"
	if goods >= 1 {
		src = "Patient.name.good().count()"
	}
	ex, cr := fx.Compile(env, src, co...)
	if cr.IsPanic() {
		env.Violatef(fx.PanicSig("C17", cr), "compile options [%s] => %s", list, cr.Short())
		return
	}
	if failing {
		env.Cover("compopts-failing")
		if ex != nil {
			env.Violatef("C17/compopts/failing-option-ignored", "compile options [%s]: an option fails but Compile succeeded", list)
		}
		if p.calls != 0 {
			env.Violatef("C17/compopts/function-called-during-compile", "compile options [%s]: a custom function was invoked during Compile", list)
		}
		// the error is the option's, whatever the source text is (well-formed, malformed, empty)
		if ex == nil && cr.Err != nil {
			for _, other := range []string{"Patient.name.(", "1 +", "", "Patient.nosuchfunction()", "'unterminated"} {
				_, cr2 := fx.Compile(env, other, co...)
				env.Cover("option-error-with-other-source")
				if cr2.IsPanic() {
					env.Violatef(fx.PanicSig("C17", cr2), "compile options [%s], source %q => %s", list, other, cr2.Short())
				} else if cr2.Err == nil || cr2.Err.Error() != cr.Err.Error() {
					env.Violatef("C17/compopts/option-error-replaced", "compile options [%s]: with source %q Compile reports %q; with source %q it reports %v (a failing option is reported whatever the source is)", list, src, cr.Err, other, cr2.Err)
					break
				}
			}
		}
		return
	}
	env.Cover("compopts-ok")
	if ex == nil {
		env.Violatef("C17/compopts/valid-options-rejected", "compile options [%s]: all valid, but Compile failed: %s", list, cr.Short())
		return
	}
	r := fx.Evaluate(env, ex, in)
	if r.IsPanic() {
		env.Violatef(fx.PanicSig("C17", r), "compile options [%s], `%s` => %s", list, src, r.Short())
		return
	}
	if it, ok := r.Single(); !ok || it.T != "2" {
		env.Violatef("C17/compopts/wrong-result", "compile options [%s], `%s` => %s (expected 2)", list, src, trunc(r.Short(), 100))
	}
	if goods >= 1 && p.calls != 1 {
		env.Violatef("C17/custom/call-count", "compile options [%s], `%s`: custom function called %d times (expected 1)", list, src, p.calls)
	}
	// functions with interface-typed parameters are callable
	if has["fn-any-param"] == 1 {
		before := p.calls
		ra := fx.Eval(env, "Patient.name.anyp(1).count() + Patient.name.anyp('x').count()", in, co, nil)
		if it, ok := ra.Single(); !ok || it.T != "4" || p.calls != before+2 {
			env.Violatef("C17/custom/interface-parameter", "compile options [%s]: a function with an `any` parameter: `…anyp(1).count() + …anyp('x').count()` => %s after %d call(s) (expected 4 after 2)", list, trunc(ra.Short(), 100), p.calls-before)
		}
	}
	if has["fn-iface-param"] == 1 {
		ra := fx.Eval(env, "Patient.ifacep(name.first().family)", in, co, nil)
		rb := fx.Eval(env, "Patient.name.first().family.toString()", in, co, nil)
		if !ra.IsValue() || !fx.Same(ra, rb) {
			env.Violatef("C17/custom/interface-parameter", "compile options [%s]: a function with an interface{GetValue() string} parameter called with a FHIR string => %s (expected %s)", list, trunc(ra.Short(), 100), trunc(rb.Short(), 60))
		}
	}
	// built-in `join` resolves only with WithExperimentalFuncs
	_, jr := fx.Compile(env, "Patient.name.given.join(',')", co...)
	if (jr.Kind != "cerror") != (has["experimental"] > 0) {
		env.Violatef("C17/compopts/experimental-visibility", "compile options [%s]: `join` compiles=%v", list, jr.Kind != "cerror")
	}
}

func replayC17Comp(env *core.Env, a []json.RawMessage) {
	var kinds []string
	json.Unmarshal(a[0], &kinds)
	c17CompList(env, kinds)
}

// c17Contract: fixed checks of %context / %ucum / unknown variables / custom-function invocation contract.
func c17Contract(env *core.Env) {
	defer env.In("contract")()
	env.Case()
	pat := gen.StdPatient()
	pat2 := gen.StdPatient()
	in := []fhir.Resource{pat, pat2}
	// %context is the input collection (identity, order), wherever it is referenced
	for _, src := range []string{"%context", "Patient.name.select(%context)", "iif(true, %context)", "Patient.name.first().select(%context)"} {
		r := fx.Eval(env, src, in, nil, nil)
		env.Cover("context-identity")
		want := system.Collection{pat, pat2}
		if src == "Patient.name.select(%context)" {
			want = system.Collection{pat, pat2, pat, pat2, pat, pat2, pat, pat2}
		}
		if !r.IsValue() {
			env.Violatef("C17/context/error", "`%s` => %s", src, trunc(r.Short(), 120))
			continue
		}
		if ok, why := sameItems(r.Raw, want); !ok {
			env.Violatef("C17/context/not-the-input-collection", "`%s`: %s", src, why)
		}
	}
	r := fx.Eval(env, "%ucum", in, nil, nil)
	if it, ok := r.Single(); !ok || it.K != "String" || it.T != "http://unitsofmeasure.org" {
		env.Violatef("C17/ucum", "`%%ucum` => %s", trunc(r.Short(), 100))
	}
	// unknown variable: evaluation error (at the root, in arguments, in criteria)
	for _, src := range []string{"%nosuch", "iif(true, %nosuch)", "Patient.name.where(%nosuch = 1)", "Patient.name.select(%nosuch)", "%nosuch.count()",
		// reached for some items only
		"Patient.name.select(iif(use = 'official', %nosuch, family))", "Patient.name.select(iif(use.exists(), family, %nosuch))", "Patient.name.where(iif(use.exists(), %nosuch = 1, true))",
		"Patient.name.exists(iif(use.exists(), true, %nosuch = 1))", "Patient.name.all(iif(use.exists(), true, %nosuch = 1))", "Patient.name.given.select(iif($this = 'Bée', %nosuch, $this))",
		// as the operand that does not decide a Boolean operator
		"false and %nosuch", "%nosuch and false", "true or %nosuch", "%nosuch or true", "false implies %nosuch", "%nosuch implies true", "true xor %nosuch", "(1 = 2) and (%nosuch = 1)", "(1 = 1) or %nosuch.exists()",
		"Patient.name.where(given = 'Nobody' and family = %nosuch)", "Patient.name.where(family.exists() or %nosuch)", "Patient.name.all(family.empty() implies %nosuch)", "{} and %nosuch", "1 + %nosuch", "{} = %nosuch", "{} + %nosuch"} {
		rr := fx.Eval(env, src, in, nil, nil)
		env.Cover("unknown-variable")
		if rr.IsPanic() {
			env.Violatef(fx.PanicSig("C17", rr), "`%s` => %s", src, rr.Short())
		} else if rr.Kind != "error" {
			env.Violatef("C17/unknown-variable/not-an-evaluation-error", "`%s` must be an evaluation error, observed %s", src, trunc(rr.Short(), 100))
		}
	}
	// every evaluation entry point takes the same options: variables are visible, failing options are reported, nothing is evaluated then
	{
		probe := &c17Probe{}
		in := []fhir.Resource{gen.StdPatient()}
		optS, optB, optI, optC := evalopts.EnvVariable("vs", system.String("txt")), evalopts.EnvVariable("vb", system.Boolean(true)), evalopts.EnvVariable("vi", system.Integer(41)), evalopts.EnvVariable("vc", &dtpb.Canonical{Value: "http://c|1"})
		bad := evalopts.EnvVariable("bad", 42)
		dupe := evalopts.EnvVariable("context", system.Integer(1))
		co := compopts.AddFunction("probe", probe.f1)
		type entry struct {
			name, src, want string
			call            func(ex *fhirpath.Expression, o ...fhirpath.EvaluateOption) (string, error)
		}
		entries := []entry{
			{"EvaluateAsString", "Patient.probe().select(%vs)", "txt", func(ex *fhirpath.Expression, o ...fhirpath.EvaluateOption) (string, error) { return ex.EvaluateAsString(in, o...) }},
			{"EvaluateAsBool", "Patient.probe().select(%vb)", "true", func(ex *fhirpath.Expression, o ...fhirpath.EvaluateOption) (string, error) {
				b, err := ex.EvaluateAsBool(in, o...)
				return fmt.Sprint(b), err
			}},
			{"EvaluateAsInt32", "Patient.probe().select(%vi + 1)", "42", func(ex *fhirpath.Expression, o ...fhirpath.EvaluateOption) (string, error) {
				i, err := ex.EvaluateAsInt32(in, o...)
				return fmt.Sprint(i), err
			}},
			{"EvaluateAsCanonical", "Patient.probe().select(%vc)", "http://c|1", func(ex *fhirpath.Expression, o ...fhirpath.EvaluateOption) (string, error) {
				c, err := ex.EvaluateAsCanonical(in, o...)
				return c.GetValue(), err
			}},
			{"Evaluate", "Patient.probe().select(%vs)", "txt", func(ex *fhirpath.Expression, o ...fhirpath.EvaluateOption) (string, error) {
				c, err := ex.Evaluate(in, o...)
				if err != nil || len(c) != 1 {
					return "", err
				}
				return fx.Render(c[0]).T, nil
			}},
		}
		for _, e := range entries {
			ex, _ := fx.Compile(env, e.src, co)
			if ex == nil {
				continue
			}
			env.Cover("entry-point:" + e.name)
			var got string
			var err error
			out := env.Guard(e.name, func() { got, err = e.call(ex, optS, optB, optI, optC) })
			env.Eval(1)
			if out.Panicked || out.Dead {
				env.Violatef("C17/panic@"+out.Site+"/"+e.name, "%s(`%s`) with variables panicked: %s", e.name, e.src, out.PanicMsg)
				continue
			}
			if err != nil || got != e.want {
				env.Violatef("C17/entry-point/variable-not-visible/"+e.name, "%s(`%s`) with the variables supplied => %q, %v (expected %q)", e.name, e.src, got, err, e.want)
			}
			for _, f := range []struct {
				o    []fhirpath.EvaluateOption
				want error
			}{{[]fhirpath.EvaluateOption{optS, optB, optI, optC, bad}, fhirpath.ErrUnsupportedType}, {[]fhirpath.EvaluateOption{dupe, optS, optB, optI, optC}, fhirpath.ErrExistingConstant}, {[]fhirpath.EvaluateOption{optS, optB, optI, optC, optI}, fhirpath.ErrExistingConstant}} {
				before := probe.calls
				out := env.Guard(e.name, func() { got, err = e.call(ex, f.o...) })
				env.Eval(1)
				if out.Panicked || out.Dead {
					env.Violatef("C17/panic@"+out.Site+"/"+e.name, "%s(`%s`) with a failing option panicked: %s", e.name, e.src, out.PanicMsg)
					continue
				}
				if !errors.Is(err, f.want) {
					env.Violatef("C17/entry-point/failing-option-ignored/"+e.name, "%s(`%s`) with an option that fails with %v => %q, %v", e.name, e.src, f.want, got, err)
				}
				if probe.calls != before {
					env.Violatef("C17/entry-point/evaluated-despite-option-error/"+e.name, "%s(`%s`): the expression was evaluated although an option failed", e.name, e.src)
				}
			}
		}
	}
	// an option is a value: the same option object is good for any number of evaluations, also after an evaluation in
	// which it collided with another option
	{
		optA := evalopts.EnvVariable("a", system.Integer(5))
		optCtx := evalopts.EnvVariable("context", system.Integer(1))
		optBad := evalopts.EnvVariable("bad", 42)
		exA, _ := fx.Compile(env, "%a + 1")
		if exA != nil {
			for round := 0; round < 3; round++ {
				env.Cover("option-object-reused")
				if r := fx.Evaluate(env, exA, in, optA); !r.IsValue() || len(r.Items) != 1 || r.Items[0].T != "6" {
					env.Violatef("C17/evalopts/option-object-not-reusable", "round %d: `%%a + 1` with the option EnvVariable(a, 5) used before => %s", round, trunc(r.Short(), 100))
				}
				if r := fx.Evaluate(env, exA, in, optA, optA); !r.IsError() || !errors.Is(r.Err, fhirpath.ErrExistingConstant) {
					env.Violatef("C17/evalopts/failing-option-ignored/existing", "round %d: the same variable option twice => %s", round, trunc(r.Short(), 100))
				}
				if r := fx.Evaluate(env, exA, in, optCtx); !r.IsError() || !errors.Is(r.Err, fhirpath.ErrExistingConstant) {
					env.Violatef("C17/evalopts/failing-option-ignored/existing", "round %d: EnvVariable(context, …) => %s", round, trunc(r.Short(), 100))
				}
				if r := fx.Evaluate(env, exA, in, optA, optBad); !r.IsError() || !errors.Is(r.Err, fhirpath.ErrUnsupportedType) {
					env.Violatef("C17/evalopts/failing-option-ignored/unsupported", "round %d: a valid and an unsupported option => %s", round, trunc(r.Short(), 100))
				}
				if r := fx.Evaluate(env, exA, in, optBad, optA); !r.IsError() || !errors.Is(r.Err, fhirpath.ErrUnsupportedType) || errors.Is(r.Err, fhirpath.ErrExistingConstant) {
					env.Violatef("C17/evalopts/wrong-error/unsupported", "round %d: an unsupported and a valid option => %s", round, trunc(r.Short(), 100))
				}
			}
		}
	}
	// an evaluation whose options fail leaves nothing behind: the variables it did accept are unknown afterwards,
	// and may be supplied again
	for round := 0; round < 3; round++ {
		for _, bad := range []fhirpath.EvaluateOption{evalopts.EnvVariable("bad", 42), evalopts.EnvVariable("context", system.Integer(1)), evalopts.EnvVariable("nc", system.Collection{system.Collection{}})} {
			exLeak, _ := fx.Compile(env, "%leak")
			exOther, _ := fx.Compile(env, "Patient.id")
			if exLeak == nil || exOther == nil {
				break
			}
			r0 := fx.Evaluate(env, exOther, in, evalopts.EnvVariable("leak", system.Integer(5)), bad, evalopts.EnvVariable("leak2", system.String("x")))
			env.Cover("failed-options-leave-nothing")
			if !r0.IsError() {
				env.Violatef("C17/evalopts/failing-option-ignored/unsupported", "an evaluation with a failing option returned %s", trunc(r0.Short(), 80))
			}
			for _, src := range []string{"%leak", "%leak2", "Patient.name.select(%leak)"} {
				rr := fx.Eval(env, src, in, nil, nil)
				if rr.Kind != "error" {
					env.Violatef("C17/history/variable-of-a-failed-evaluation-visible", "`%s` without options, after an evaluation that accepted that variable and then failed on another option: expected an unknown-variable error, observed %s", src, trunc(rr.Short(), 100))
				}
			}
			r1 := fx.Evaluate(env, exLeak, in, evalopts.EnvVariable("leak", system.Integer(6)))
			if it, ok := r1.Single(); !ok || it.T != "6" {
				env.Violatef("C17/history/variable-cannot-be-supplied-again", "`%%leak` with leak = 6, after an earlier evaluation that failed in its options with leak = 5: %s", trunc(r1.Short(), 120))
			}
		}
	}
	// custom function contract
	p := &c17Probe{}
	co := []fhirpath.CompileOption{compopts.AddFunction("one", p.f1), compopts.AddFunction("two", p.f2), compopts.AddFunction("three", p.f3), compopts.AddFunction("boom", p.ferr)}
	one := []fhir.Resource{pat}
	// (a) receives the current input collection
	rr := fx.Eval(env, "Patient.name.one()", one, co, nil)
	env.Cover("custom-called")
	if p.calls != 1 || len(p.inputs) != 1 {
		env.Violatef("C17/custom/not-called-once", "`Patient.name.one()`: %d calls", p.calls)
	} else if ok, why := sameItems(p.inputs[0], system.Collection{pat.Name[0], pat.Name[1]}); !ok {
		env.Violatef("C17/custom/wrong-input-collection", "`Patient.name.one()`: the function did not receive the current input collection: %s", why)
	}
	if ok, why := sameItems(rr.Raw, system.Collection{pat.Name[0], pat.Name[1]}); !rr.IsValue() || !ok {
		env.Violatef("C17/custom/result-not-passed-through", "`Patient.name.one()`: returned collection altered: %s %s", why, trunc(rr.Short(), 100))
	}
	// (b) evaluated single-item arguments, typed
	*p = c17Probe{}
	rr = fx.Eval(env, "Patient.name.two('a' & 'b')", one, co, nil)
	if p.calls != 1 || len(p.args) != 1 || p.args[0][0] != system.String("ab") {
		env.Violatef("C17/custom/wrong-arguments", "`Patient.name.two('a' & 'b')`: calls=%d args=%v", p.calls, p.args)
	}
	if ok, why := sameItems(rr.Raw, system.Collection{system.String("ab"), c17Name}); !rr.IsValue() || !ok {
		env.Violatef("C17/custom/result-not-passed-through", "`two(...)`: %s %s", why, trunc(rr.Short(), 100))
	}
	*p = c17Probe{}
	rr = fx.Eval(env, "Patient.three(1 + 1, 'z')", one, co, nil)
	if p.calls != 1 || len(p.args) != 1 || p.args[0][0] != system.Integer(2) || p.args[0][1] != system.String("z") {
		env.Violatef("C17/custom/wrong-arguments", "`Patient.three(1 + 1, 'z')`: calls=%d args=%v (%s)", p.calls, p.args, trunc(rr.Short(), 80))
	}
	// a call nested in the argument of a call of the same function, and two calls in one program: every invocation
	// receives its own input and its own evaluated arguments
	*p = c17Probe{}
	rr = fx.Eval(env, "Patient.name[0].two(%context.name[1].two('in').first() & '-out')", one, co, nil)
	if p.calls != 2 || len(p.args) != 2 || len(p.inputs) != 2 {
		env.Violatef("C17/custom/nested-call-count", "nested two(two(..)): calls=%d", p.calls)
	} else {
		if p.args[0][0] != system.String("in") || p.args[1][0] != system.String("in-out") {
			env.Violatef("C17/custom/nested-wrong-arguments", "nested two(two('in') & '-out'): the invocations received %v and %v, expected 'in' then 'in-out'", p.args[0], p.args[1])
		}
		ok1, _ := sameItems(p.inputs[0], system.Collection{pat.Name[1]})
		ok2, _ := sameItems(p.inputs[1], system.Collection{pat.Name[0]})
		if !ok1 || !ok2 {
			env.Violatef("C17/custom/nested-wrong-input", "nested two(two(..)): the inner invocation must receive name[1] and the outer one name[0]; received %s and %s", fx.Render(p.inputs[0]).T, fx.Render(p.inputs[1]).T)
		}
	}
	env.Cover("custom-nested")
	*p = c17Probe{}
	rr = fx.Eval(env, "Patient.three(1, %context.three(2, 'b').last().toString() & 'c').last()", one, co, nil)
	if p.calls != 2 || len(p.args) != 2 || p.args[0][0] != system.Integer(2) || p.args[0][1] != system.String("b") || p.args[1][0] != system.Integer(1) || p.args[1][1] != system.String("bc") {
		env.Violatef("C17/custom/nested-wrong-arguments", "three(1, three(2,'b').last() & 'c'): calls=%d args=%v", p.calls, p.args)
	}
	if it, ok := rr.Single(); !ok || it.T != "bc" {
		env.Violatef("C17/custom/nested-wrong-result", "three(1, three(2,'b').last() & 'c').last() => %s, expected 'bc'", trunc(rr.Short(), 100))
	}
	*p = c17Probe{}
	rr = fx.Eval(env, "Patient.name[0].one().count() + Patient.name.one().count()", one, co, nil)
	if it, ok := rr.Single(); !ok || it.T != "3" || p.calls != 2 {
		env.Violatef("C17/custom/two-calls", "`name[0].one().count() + name.one().count()` => %s with %d calls, expected 3 with 2", trunc(rr.Short(), 100), p.calls)
	}
	// one compiled expression whose custom-function argument is a variable, evaluated with changing values
	if exv, cr := fx.Compile(env, "Patient.two(%s).first()", co...); exv != nil {
		for round, val := range []string{"first", "second", "third", "first"} {
			*p = c17Probe{}
			rv := fx.Evaluate(env, exv, one, evalopts.EnvVariable("s", system.String(val)))
			if p.calls != 1 || len(p.args) != 1 || p.args[0][0] != system.String(val) {
				env.Violatef("C17/custom/stale-argument", "`Patient.two(%%s)` evaluated for the %d. time with s = %q: the function received %v (calls=%d)", round+1, val, p.args, p.calls)
			}
			if it, ok := rv.Single(); !ok || it.T != val {
				env.Violatef("C17/custom/stale-argument", "`Patient.two(%%s).first()` with s = %q => %s", val, trunc(rv.Short(), 80))
			}
		}
		*p = c17Probe{}
		if rv := fx.Evaluate(env, exv, one); rv.Kind != "error" || p.calls != 0 {
			env.Violatef("C17/custom/stale-argument", "`Patient.two(%%s)` evaluated without the variable after evaluations with it: %s, calls=%d (expected an unknown-variable error)", trunc(rv.Short(), 80), p.calls)
		}
		env.Cover("custom-variable-argument")
	} else {
		env.Violatef("C17/harness-program-rejected", "`Patient.two(%%s).first()` does not compile: %s", cr.Short())
	}
	// argument of the wrong type / multi-item / empty: error, function not called
	for _, src := range []string{"Patient.two(1)", "Patient.two(Patient.name.given)", "Patient.two({})", "Patient.three('z', 1)"} {
		*p = c17Probe{}
		rr = fx.Eval(env, src, one, co, nil)
		if rr.IsPanic() {
			env.Violatef(fx.PanicSig("C17", rr), "`%s` => %s", src, rr.Short())
		} else if !rr.IsError() || p.calls != 0 {
			env.Violatef("C17/custom/argument-check", "`%s`: expected an error without calling the function; observed %s, calls=%d", src, trunc(rr.Short(), 100), p.calls)
		}
	}
	// wrong argument count: rejected by Compile
	for _, src := range []string{"Patient.one(1)", "Patient.two()", "Patient.two('a', 'b')", "Patient.three('a')"} {
		_, cr := fx.Compile(env, src, co...)
		if cr.Kind != "cerror" {
			env.Violatef("C17/custom/wrong-argument-count-accepted", "Compile(`%s`) must fail (wrong argument count), observed %s", src, cr.Kind)
		}
	}
	// returned error passed through
	rr = fx.Eval(env, "Patient.boom()", one, co, nil)
	if !rr.IsError() || !errors.Is(rr.Err, errProbe) {
		env.Violatef("C17/custom/error-not-passed-through", "`Patient.boom()`: expected the function's own error, observed %s", trunc(rr.Short(), 100))
	}
	// ... wherever the call stands: as the operand that does not decide a Boolean operator, in criteria, as an argument
	for _, src := range []string{"false and Patient.boom().exists()", "Patient.boom().exists() and false", "true or Patient.boom().exists()", "false implies Patient.boom().exists()", "Patient.name.where(family = 'Nobody' and boom().exists())",
		"Patient.name.exists(family.exists() or boom().exists())", "iif(true, Patient.boom())", "Patient.name.select(boom())", "Patient.name.select(iif(use = 'official', boom(), family))", "Patient.name.select(iif(use.exists(), family, boom()))", "{} and Patient.boom().exists()", "Patient.boom().count() + 1", "Patient.name.all(boom().empty())"} {
		before := p.calls
		rb := fx.Eval(env, src, one, co, nil)
		env.Cover("custom-error-in-position")
		switch {
		case rb.IsPanic():
			env.Violatef(fx.PanicSig("C17", rb), "`%s` => %s", src, rb.Short())
		case !rb.IsError() || !errors.Is(rb.Err, errProbe):
			env.Violatef("C17/custom/error-not-passed-through/in-position", "`%s`: expected the function's own error, observed %s (the function was called %d time(s))", src, trunc(rb.Short(), 100), p.calls-before)
		}
	}
	// every name of the function table is an existing name: registering a custom function under it fails at Compile
	for _, t := range append(readTable(), tableEntry{Name: "convertToDateTime"}, tableEntry{Name: "where"}, tableEntry{Name: "convertsToDateTime"}) {
		f := func(in system.Collection) (system.Collection, error) { return in, nil }
		opts := [][]fhirpath.CompileOption{{compopts.WithExperimentalFuncs(), compopts.AddFunction(t.Name, f)}}
		if !t.Experimental {
			opts = append(opts, []fhirpath.CompileOption{compopts.AddFunction(t.Name, f)}, []fhirpath.CompileOption{compopts.AddFunction(t.Name, f), compopts.WithExperimentalFuncs()})
		}
		for _, co2 := range opts {
			ex, crr := fx.Compile(env, "Patient.id", co2...)
			env.Cover("existing-name-every-table-entry")
			if crr.IsPanic() {
				env.Violatef(fx.PanicSig("C17", crr), "AddFunction(%q) => %s", t.Name, crr.Short())
			} else if ex != nil {
				env.Violatef("C17/custom/existing-name-accepted/"+t.Name, "AddFunction(%q, f): the name is in the function table (experimental: %v), but Compile accepts the registration", t.Name, t.Experimental)
				break
			}
		}
	}
	// a variable bound to a contained-resource wrapper (the `resource` element of a bundle entry) is that wrapper, alone or in
	// a collection (an empty wrapper too); a custom function's result holding a nested collection comes back item for item
	{
		entry := &bcrpb.ContainedResource{OneofResource: &bcrpb.ContainedResource_Patient{Patient: &ppb.Patient{Id: &dtpb.Id{Value: "p1"}}}}
		emptyW := &bcrpb.ContainedResource{}
		for _, val := range []system.Collection{{entry}, {system.String("s"), entry, emptyW}, {emptyW}} {
			var opt fhirpath.EvaluateOption = evalopts.EnvVariable("entry", val)
			if len(val) == 1 {
				opt = evalopts.EnvVariable("entry", val[0])
			}
			for _, src := range []string{"%entry", "iif(true, %entry)", "Patient.name.first().select(%entry)"} {
				rv := fx.Eval(env, src, one, nil, []fhirpath.EvaluateOption{opt})
				env.Cover("variable-contained-wrapper")
				if rv.IsPanic() {
					env.Violatef(fx.PanicSig("C17", rv), "`%s` with a contained-resource wrapper variable => %s", src, rv.Short())
				} else if !rv.IsValue() {
					env.Violatef("C17/variable/wrapper/error", "`%s` with %%entry bound to a contained-resource wrapper => %s", src, trunc(rv.Short(), 120))
				} else if ok, why := sameItems(rv.Raw, val); !ok {
					env.Violatef("C17/variable/wrapper/not-the-supplied-value", "`%s` with %%entry bound to %d item(s) incl. a contained-resource wrapper: %s", src, len(val), why)
				}
			}
		}
		nested := system.Collection{system.Integer(1), system.Collection{system.String("a"), system.String("b")}, system.Collection{}}
		nf := func(in system.Collection) (system.Collection, error) { return nested, nil }
		rn := fx.Eval(env, "Patient.nest()", one, []fhirpath.CompileOption{compopts.AddFunction("nest", nf)}, nil)
		env.Cover("custom-result-nested")
		if rn.IsPanic() {
			env.Violatef(fx.PanicSig("C17", rn), "`Patient.nest()` => %s", rn.Short())
		} else if !rn.IsValue() {
			env.Violatef("C17/custom/nested-result/error", "`Patient.nest()` (the function returns a collection holding collections) => %s", trunc(rn.Short(), 120))
		} else if ok, why := sameItems(rn.Raw, nested); !ok {
			env.Violatef("C17/custom/nested-result/changed", "`Patient.nest()`: the returned collection is not passed through unchanged: %s", why)
		}
	}
	// a function registered for one Compile is not visible in another
	_, cr := fx.Compile(env, "Patient.one()")
	if cr.Kind != "cerror" {
		env.Violatef("C17/custom/leaks-to-other-compile", "`one()` registered through an option resolves in a Compile without that option")
	}
}

func replayC17Contract(env *core.Env, a []json.RawMessage) { c17Contract(env) }

// c17Kinds: a System value of every type, an element of every FHIR datatype and a resource of every type are
// valid variable values, alone and inside a collection, and evaluate to exactly the supplied value.
func c17Kinds(env *core.Env) {
	defer env.In("kinds")()
	env.Case()
	var vals []any
	for _, e := range gen.StdEnv() {
		if _, isColl := e.Value.(system.Collection); !isColl {
			vals = append(vals, e.Value)
		}
	}
	for _, src := range []string{"1", "1.5", "'s'", "true", "@2020-01-02", "@2020-01-02T10:00:00Z", "@T10:30", "5 'mg'"} {
		if r := fx.E(env, src); r.IsValue() && len(r.Raw) == 1 {
			vals = append(vals, r.Raw[0])
		}
	}
	for _, md := range gen.DatatypeMessages() {
		if md.IsMapEntry() || gen.IsContained(md) {
			continue
		}
		m := gen.NewMessage(md)
		if _, ok := m.Interface().(fhir.Base); ok && (gen.IsPrimitive(md) || gen.IsComplexType(md)) {
			vals = append(vals, m.Interface())
		}
	}
	for _, md := range gen.ResourceTypes() {
		vals = append(vals, gen.NewMessage(md).Interface())
	}
	ex, cr := fx.Compile(env, "%v")
	exC, _ := fx.Compile(env, "%c.count()")
	if ex == nil || exC == nil {
		env.Violatef("C17/harness-program-rejected", "`%%v` does not compile: %s", cr.Short())
		return
	}
	for _, v := range vals {
		env.Cover("variable-kind")
		name := fmt.Sprintf("%T", v)
		r := fx.Evaluate(env, ex, nil, evalopts.EnvVariable("v", v))
		if r.IsPanic() {
			env.Violatef(fx.PanicSig("C17", r), "EnvVariable of a %s => %s", name, r.Short())
			continue
		}
		if !r.IsValue() {
			env.Violatef("C17/variable/valid-kind-rejected", "a %s is a valid variable value, but evaluation fails: %s", name, trunc(r.Short(), 160))
			continue
		}
		if ok, why := sameItems(r.Raw, system.Collection{v}); !ok {
			env.Violatef("C17/variable/kind/wrong-value", "`%%v` with a %s: %s", name, why)
		}
		rc := fx.Evaluate(env, exC, nil, evalopts.EnvVariable("c", system.Collection{system.Integer(1), v, v}))
		if it, ok := rc.Single(); !ok || it.T != "3" {
			env.Violatef("C17/variable/valid-kind-rejected", "a collection holding a %s is a valid variable value, but `%%c.count()` => %s", name, trunc(rc.Short(), 160))
		}
	}
}

func replayC17Kinds(env *core.Env, a []json.RawMessage) { c17Kinds(env) }

func lists(kinds []string, maxLen int, f func([]string)) {
	var rec func(cur []string)
	rec = func(cur []string) {
		f(append([]string{}, cur...))
		if len(cur) == maxLen {
			return
		}
		for _, k := range kinds {
			rec(append(cur, k))
		}
	}
	rec(nil)
}

func runC17(env *core.Env) {
	n := 0
	if env.Mine(n) {
		c17Contract(env)
	}
	n++
	if env.Mine(n) {
		c17Kinds(env)
	}
	lists(c17EvalKinds, env.Size(3, 4), func(l []string) {
		n++
		if env.Mine(n) {
			c17EvalList(env, l)
		}
	})
	lists(c17CompKinds, env.Size(3, 4), func(l []string) {
		n++
		if env.Mine(n) {
			c17CompList(env, l)
		}
	})
}
