package props

import (
	"crypto/sha256"
	"encoding/hex"
	"encoding/json"
	"fmt"
	"os"
	"path/filepath"
	"runtime"
	"sort"
	"strings"
	"sync"
	"time"
	_ "time/tzdata"

	"github.com/verily-src/fhirpath-go/fhirpath"
	"github.com/verily-src/fhirpath-go/fhirpath/compopts"
	"github.com/verily-src/fhirpath-go/fhirpath/evalopts"
	"github.com/verily-src/fhirpath-go/fhirpath/internal/funcs"
	"github.com/verily-src/fhirpath-go/fhirpath/patch"
	"github.com/verily-src/fhirpath-go/fhirpath/system"
	"github.com/verily-src/fhirpath-go/fhirpath/verifharness/core"
	"github.com/verily-src/fhirpath-go/fhirpath/verifharness/fx"
	"github.com/verily-src/fhirpath-go/fhirpath/verifharness/gen"
	"github.com/verily-src/fhirpath-go/fhirpath/verifharness/model"
	"github.com/verily-src/fhirpath-go/internal/fhir"
	"google.golang.org/protobuf/proto"
	dtpb "github.com/google/fhir/go/proto/google/fhir/proto/r4/core/datatypes_go_proto"
	ppb "github.com/google/fhir/go/proto/google/fhir/proto/r4/core/resources/patient_go_proto"
)

// C04 — compiled expressions are immutable, deterministic and goroutine-safe.

var c04TZs = []string{"UTC", "Asia/Kolkata", "America/St_Johns", "Pacific/Chatham"}
var c04Procs = []string{"1", "2", "4", "16"}

func init() {
	core.Register(&core.Property{
		ID:   "C04",
		Rule: "8 worker processes, one per (GOMAXPROCS in {1,2,4,16}) x (TZ in {UTC, Asia/Kolkata, America/St_Johns, Pacific/Chatham}) pairing, built with the Go race detector: E shared compiled expressions (all node kinds, clock functions with OverrideTime, custom and experimental functions, patch expressions) x R shared generated resources; every (expression, resource) pair is first evaluated alone in a fresh goroutine, then repeated, interleaved (A,B,A) and evaluated concurrently from G in {2,8,32} goroutines with randomised order on the shared objects, every result compared with the isolated one; concurrent Compile histories with random option sets; process-wide function tables read through the verif hook at every quiescent point; clock functions compared with an independent formatting of the OverrideTime value with a sleeping custom function between them, and bracketed by wall-clock reads without override; renderings compared across the four time zones. a first-touch phase (g goroutines make the very first evaluations on a fresh copy of a resource and fresh environment objects at the same moment) and a comparison of all shared inputs with pristine copies after every repetition; distinct_nontrivial = distinct (expression, resource, phase) triples with a non-empty result, plus distinct Compile option sets",
		Assumptions: []string{"the race detector only sees executed accesses; schedules are those the Go scheduler produced (overlap is measured and reported, not enumerated)",
			"monitor state is per goroutine and merged after join, so that the monitor adds no synchronisation between evaluations"},
		Workers:   func(tier string) int { return 8 },
		WorkerEnv: func(shard int) []string { return []string{"GOMAXPROCS=" + c04Procs[(shard+shard/4)%4], "TZ=" + c04TZs[shard%4]} },
		Run:       runC04,
		Checks:    map[string]func(*core.Env, []json.RawMessage){"note": func(*core.Env, []json.RawMessage) {}},
		PostWorker: func(m *core.Merged, shard int, dir string) {
			files, _ := filepath.Glob(filepath.Join(dir, "race*"))
			for _, f := range files {
				b, err := os.ReadFile(f)
				if err != nil {
					continue
				}
				for _, blk := range strings.Split(string(b), "==================") {
					if !strings.Contains(blk, "WARNING: DATA RACE") {
						continue
					}
					sig := raceSig(blk)
					key := "C04/data-race/" + sig
					if v, ok := m.Violations[key]; ok {
						v.Count++
					} else {
						m.Violations[key] = &core.Violation{Property: "C04", Sig: key, What: "Go race detector report (shard " + fmt.Sprint(shard) + "):\n" + trunc(blk, 1800), Count: 1}
					}
				}
			}
		},
		PostMerge: func(m *core.Merged) {
			// renderings must be identical across process time zones
			byProg := map[string]bool{}
			for k, v := range m.Extra {
				if strings.HasPrefix(k, "tzdigest/") {
					if d, ok := v.(string); ok {
						byProg[d] = true
					}
				}
			}
			var digests []string
			for d := range byProg {
				digests = append(digests, d)
			}
			offs := map[string]bool{}
			var offList []string
			for k, v := range m.Extra {
				if strings.HasPrefix(k, "now-offset/") {
					if d, ok := v.(string); ok && !offs[d] {
						offs[d] = true
						offList = append(offList, k[len("now-offset/"):]+"="+d)
					}
				}
			}
			if len(offs) > 1 {
				sort.Strings(offList)
				m.Violations["C04/timezone-dependence/now-offset"] = &core.Violation{Property: "C04", Sig: "C04/timezone-dependence/now-offset", What: fmt.Sprintf("now() (no OverrideTime) is rendered with an offset that follows the process time zone: %v", offList), Count: 1}
			}
			if len(digests) > 1 {
				sort.Strings(digests)
				m.Violations["C04/timezone-dependence"] = &core.Violation{Property: "C04", Sig: "C04/timezone-dependence", What: fmt.Sprintf("renderings of the fixed program list differ between process time zones: digests %v (see tz-programs in evidence)", digests), Count: 1}
			}
		},
		Threshold: func(m *core.Merged) []string {
			var r []string
			for _, k := range []string{"isolated", "repeated", "interleaved", "concurrent-eval", "concurrent-compile", "concurrent-patch", "table-digest", "evaluate-history", "clock-override", "clock-bracket", "tz-programs", "overlap-observed"} {
				if m.Cover[k] == 0 {
					r = append(r, "never observed: "+k)
				}
			}
			n := 0
			for k := range m.Extra {
				if strings.HasPrefix(k, "tzdigest/") {
					n++
				}
			}
			if n < 4 {
				r = append(r, fmt.Sprintf("only %d process time zones observed", n))
			}
			return r
		},
	})
}

func raceSig(blk string) string {
	var fns []string
	for _, l := range strings.Split(blk, "\n") {
		l = strings.TrimSpace(l)
		if strings.HasPrefix(l, "github.com/verily-src/fhirpath-go/") && !strings.Contains(l, "/verifharness/") {
			f := strings.TrimPrefix(l, "github.com/verily-src/fhirpath-go/")
			if i := strings.Index(f, "("); i > 0 && !strings.HasPrefix(f[i:], "(*") {
				f = f[:i]
			} else if j := strings.LastIndex(f, "("); j > 0 {
				f = f[:j]
			}
			fns = append(fns, f)
		}
	}
	if len(fns) == 0 {
		return "third-party-or-harness"
	}
	first, last := fns[0], fns[len(fns)-1]
	return first + "|" + last
}

func tableDigest() string {
	h := sha256.New()
	for _, e := range funcs.VerifTables() {
		fmt.Fprintf(h, "%s|%s|%d|%d|%x|%s\n", e.Table, e.Name, e.MinArity, e.MaxArity, e.FuncPtr, e.FuncName)
	}
	return hex.EncodeToString(h.Sum(nil)[:10])
}

var c04Fixed = time.Date(2024, 2, 29, 23, 59, 58, 987000000, time.FixedZone("", 19800))

func nap(in system.Collection) (system.Collection, error) {
	time.Sleep(3 * time.Millisecond)
	return in, nil
}

var c04Sources = []string{
	"Patient.descendants().distinct()", "Patient.descendants().distinct().first()", "%long.distinct()", "%long.distinct().skip(3).take(5)", "%long.distinct().count()", "(%long.select($this & 'x')).distinct().last()",
	"Patient.name.given", "Patient.name.where(use = 'official').given.first()", "Patient.name.select(family & ', ' & given.first())", "Patient.descendants().count()", "Patient.children().count()",
	"Patient.name.given.distinct().count()", "Patient.name.exists(family.exists())", "Patient.name.all(given.count() >= 0)", "Patient.telecom.rank.first() + 1", "(1 + 2) * 3 - 4 div 2",
	"10 / 4", "'abc'.substring(1) & 'é'.upper()", "@2020-01-31 + 1 month", "@T10:30 + 90 minutes", "1 'mg' = 1 'mg'", "Patient.birthDate < today()", "now() = now()", "today().toString()", "timeOfDay().toString()",
	"now().toString() & '|' & today().toString() & '|' & timeOfDay().toString()", "Patient.name.first() = Patient.name.first()", "Patient.name.given.join(',')", "Patient.name.intersect(Patient.name).count()",
	"Patient.name.given.exclude('Ann')", "iif(Patient.active, 'a', 'b')", "Patient.active and Patient.deceased.not()", "Patient.gender", "Patient.managingOrganization.reference", "Patient.extension.value", "Patient.meta.lastUpdated",
	"%fint + %fpos", "%names.family", "%multi.where($this > 1).select($this * 2)", "%context.id", "Patient.name.tail().family", "Patient.name.skip(1).take(1)", "Patient.name[0].given[0].length()",
	"Patient.nap().name.count()", "%pat.name.given.first()", "Patient.contained.id", "Patient.identifier.where(system.exists()).value", "'x'.matches('^x$')", "5.toQuantity()", "Patient.name.given.first().toChars()", "1 / 0", "Patient.nosuchfield",
	// inexact quotients before and after a division whose operands have more than 16 fraction digits
	"1.0 / 3", "2 / 3", "1.00000000000000000001 / 3", "0.1234567890123456789012345 / 7.0", "(1.0 / 3) + (2 / 3)",
	// results that are a literal's own collection, or pass one through
	"'official'", "iif(Patient.active, 'yes', 'no')", "iif(Patient.name.exists(), 1, 2)", "{}", "true", "@2020-01-01", "5 'mg'", "Patient.name.select('x')", "Patient.name.select(%spare.take(1))", "Patient.name.select(%spare).count()", "Patient.name.given.select(%spare.skip(1).take(1))",
	// large collections (an implementation that splits the work must still report the first failing item's error)
	"%big.where($this > 150).count()", "%big.where($this + 1 > 0)", "%bigmixed.where($this + 1 > 0).count()", "%bigmixed.select($this + 1).count()", "%bigmixed.exists($this.length() > 3)", "%bigmixed.all($this.toString().length() < 9)",
	"%big.select($this * 2).where($this mod 3 = 0).count()", "%big.distinct().count()", "%big.exists($this = 299)",
	// function arguments that are not constants (one compiled call, other argument values per evaluation)
	"5.convertsToQuantity(%unit1)", "5.toQuantity(%unit1).toString()", "'abc'.substring(%fint)", "'a,b'.replace(',', %fstr)", "'abc'.indexOf(%fstr)", "%multi.skip(%fint).count()", "%multi.take(%fpos)", "'abc'.startsWith(%fstr)", "2.power(%fint)", "10.log(%fpos)", "1.5.round(%fpos)",
	// a string nobody has used before in this process (see the first-touch phase): anything keyed by argument text is filled in then
	"'abc'.matches(%uniq)", "'abc'.replaceMatches(%uniq, 'x')", "'abc'.replace(%uniq, 'y')", "'abc'.contains(%uniq)", "('1 ' & %uniq).convertsToQuantity()", "%uniq.convertsToDate()",
	// elements that carry no precision: conversion must not write into the shared message
	"%fdtnp.toString()", "%fdnp.toString()", "%ftnp.toString()", "%fdtnp = %fdtnp", "Patient.birthDate.toString()", "Patient.deceased.toString()", "Patient.meta.lastUpdated.toString()",
}

// c04BigVars: collections of 300 items; in %bigmixed item 140 and item 260 fail `$this + 1` with different errors.
func c04BigVars() []fhirpath.EvaluateOption {
	big := make(system.Collection, 300)
	mixed := make(system.Collection, 300)
	for i := range big {
		big[i] = system.Integer(i)
		mixed[i] = system.Integer(i)
	}
	mixed[140] = system.Boolean(true)
	mixed[260] = system.String("text")
	mixed[261] = system.Collection(nil)
	mixed = append(mixed[:261], mixed[262:]...)
	return []fhirpath.EvaluateOption{evalopts.EnvVariable("big", big), evalopts.EnvVariable("bigmixed", mixed), evalopts.EnvVariable("unit1", system.String("mg")), evalopts.EnvVariable("spare", c04Spare()), evalopts.EnvVariable("uniq", system.String("zq-base"))}
}

// c04BuiltinNames: names a custom function may not take (every base-table name as first read, plus fixed ones that do not
// depend on what the table holds today).
var c04BuiltinNames = func() []string {
	names := []string{"where", "convertToDateTime", "convertsToDateTime", "exists", "toString", "iif", "substring"}
	for _, t := range readTable() {
		if !t.Experimental {
			names = append(names, t.Name)
		}
	}
	return names
}()

// c04Spare: three items in a backing array of eight (appending to a sub-slice of it writes into the caller's array).
var c04SpareShared = append(make(system.Collection, 0, 8), system.String("a"), system.String("b"), system.String("c"))

func c04Spare() system.Collection { return c04SpareShared }

func c04SpareIntact() string {
	full := c04SpareShared[:cap(c04SpareShared)]
	want := []any{system.String("a"), system.String("b"), system.String("c"), nil, nil, nil, nil, nil}
	for i := range full {
		if full[i] != want[i] {
			return fmt.Sprintf("slot %d of the backing array holds %v", i, full[i])
		}
	}
	return ""
}

// c04BigVarsUniq is c04BigVars with %uniq bound to the given text (a pattern that matches nothing in the programs above).
func c04BigVarsUniq(u string) []fhirpath.EvaluateOption {
	o := c04BigVars()
	return append(o[:len(o)-1:len(o)-1], evalopts.EnvVariable("uniq", system.String(u)))
}

type c04Obs struct {
	mismatch []string
	evals    int
	spans    [][2]int64
}

func runC04(env *core.Env) {
	env.In("note", "C04 runs one monolithic workload per worker; replay = re-run the check")
	reps := env.Size(3, 20)
	names := gen.ResourceTypes()
	_ = names
	// shared resources
	var resources []fhir.Resource
	resources = append(resources, gen.StdPatient())
	for i, tn := range []string{"Patient", "Patient", "Patient", "Observation", "Bundle", "Encounter", "Patient"} {
		r, _ := genResource(tn, uint64(100+i), i%2 == 0)
		resources = append(resources, r)
	}
	{
		// a Patient whose date / time elements carry no precision
		np := gen.StdPatient()
		np.BirthDate = &dtpb.Date{ValueUs: 946684800000000, Timezone: "UTC"}
		np.Deceased = &ppb.Patient_DeceasedX{Choice: &ppb.Patient_DeceasedX_DateTime{DateTime: &dtpb.DateTime{ValueUs: 1700000000000000, Timezone: "+05:30"}}}
		np.Meta = &dtpb.Meta{LastUpdated: &dtpb.Instant{ValueUs: 1700000000123000, Timezone: "Z"}}
		np.Extension = append(np.Extension, &dtpb.Extension{Url: &dtpb.Uri{Value: "http://e/time"}, Value: &dtpb.Extension_ValueX{Choice: &dtpb.Extension_ValueX_Time{Time: &dtpb.Time{ValueUs: 30600000000, Precision: dtpb.Time_SECOND}}}},
			&dtpb.Extension{Url: &dtpb.Uri{Value: "http://e/time-ms"}, Value: &dtpb.Extension_ValueX{Choice: &dtpb.Extension_ValueX_Time{Time: &dtpb.Time{ValueUs: 86399999000, Precision: dtpb.Time_MILLISECOND}}}})
		resources = append(resources, np)
	}
	stdEnv := gen.StdEnv() // shared environment objects
	eo := append(gen.EnvOpts(stdEnv), evalopts.OverrideTime(c04Fixed))
	eo = append(eo, c04BigVars()...)
	eo = append(make([]fhirpath.EvaluateOption, 0, len(eo)+16), eo...) // spare capacity: an append by the callee would write into this shared array
	eoLen := len(eo)
	eoSnapshot := append([]fhirpath.EvaluateOption{}, eo[:cap(eo)]...)
	_ = eoLen
	co := []fhirpath.CompileOption{compopts.WithExperimentalFuncs(), compopts.AddFunction("nap", nap)}
	digest0 := tableDigest()
	env.Cover("table-digest")

	// shared compiled expressions
	var exprs []*fhirpath.Expression
	var srcs []string
	for _, s := range c04Sources {
		ex, cr := fx.Compile(env, s, co...)
		if ex == nil {
			env.Violatef("C04/compile-isolation/fresh-compile-fails", "`%s` with fresh options {WithExperimentalFuncs, AddFunction(nap)} does not compile: %s", s, cr.Short())
			continue
		}
		exprs = append(exprs, ex)
		srcs = append(srcs, s)
	}
	// expressions compiled with the Permissive option whose evaluation steps into values that have no fields
	for _, s := range []string{"Patient.name.given.value.value", "Patient.name.where(given.value.text.empty()).count()", "Patient.birthDate.value.nosuch", "Patient.name.family.value.length.unit", "Patient.name.select(given.value.x | family.value.y).count()", "Patient.active.value.value.value", "%fint.value.value", "(1 | 2).value", "'a'.nosuch.count()"} {
		ex, cr := fx.Compile(env, s, append(append([]fhirpath.CompileOption{}, co...), compopts.Permissive())...)
		if ex == nil {
			env.Skip("permissive-program-does-not-compile: " + s + ": " + trunc(cr.Short(), 60))
			continue
		}
		exprs = append(exprs, ex)
		srcs = append(srcs, "[Permissive] "+s)
	}
	// pristine copies of the shared inputs: evaluation must leave them as they were
	pristine := make([]proto.Message, len(resources))
	for i, r := range resources {
		pristine[i] = proto.Clone(r)
	}
	pristineEnv := map[string]proto.Message{}
	for _, v := range stdEnv {
		if m, ok := v.Value.(proto.Message); ok {
			pristineEnv[v.Name] = proto.Clone(m)
		}
	}
	checkPristine := func(phase string) {
		env.Cover("inputs-compared-with-pristine-copies")
		for i, o := range eo[:cap(eo)] {
			if (o == nil) != (eoSnapshot[i] == nil) {
				env.Violatef("C04/shared-input-modified/option-slice", "after %s slot %d of the caller's option slice (beyond its length) was written to", phase, i)
				break
			}
		}
		if why := c04SpareIntact(); why != "" {
			env.Violatef("C04/shared-input-modified/collection-backing-array", "after %s the collection bound to %%spare (3 items, capacity 8) was written to: %s", phase, why)
		}
		for i, r := range resources {
			if !proto.Equal(r, pristine[i]) {
				env.Violatef("C04/shared-input-modified/resource", "after %s shared resource %d (%s) differs from the copy taken before any evaluation", phase, i, r.ProtoReflect().Descriptor().Name())
			}
		}
		for _, v := range stdEnv {
			if m, ok := v.Value.(proto.Message); ok && !proto.Equal(m, pristineEnv[v.Name]) {
				env.Violatef("C04/shared-input-modified/variable", "after %s the element bound to %%%s differs from the copy taken before any evaluation", phase, v.Name)
			}
		}
	}
	renderWith := func(ex *fhirpath.Expression, r fhir.Resource, eo []fhirpath.EvaluateOption) (out string) {
		defer func() {
			if p := recover(); p != nil {
				out = fmt.Sprintf("PANIC:%v", p)
			}
		}()
		c, err := ex.Evaluate([]fhir.Resource{r}, eo...)
		if err != nil {
			return "ERR:" + err.Error() // which error is reported is part of the result
		}
		var sb strings.Builder
		for _, it := range fx.RenderAll(c) {
			sb.WriteString(it.K + "(" + it.T + ");")
		}
		return sb.String()
	}
	render := func(ex *fhirpath.Expression, r fhir.Resource) string { return renderWith(ex, r, eo) }
	// (1) isolated baseline, each in a fresh goroutine
	base := make([][]string, len(exprs))
	for i, ex := range exprs {
		base[i] = make([]string, len(resources))
		for j, r := range resources {
			done := make(chan string)
			go func() { done <- render(ex, r) }()
			base[i][j] = <-done
			env.Eval(1)
			env.Cover("isolated")
			if strings.HasPrefix(base[i][j], "PANIC") {
				env.Violatef("C04/panic/"+srcs[i], "`%s` panicked in isolation: %s", srcs[i], base[i][j])
			}
			if base[i][j] != "" && base[i][j] != "ERR" {
				env.Distinct(fmt.Sprintf("%s|%d|isolated", srcs[i], j))
			}
		}
	}
	rng := env.Rng("c04")
	if len(exprs) == 0 {
		return
	}
	for rep := 0; rep < reps; rep++ {
		// (2) repeated and interleaved (A,B,A)
		for k := 0; k < 60; k++ {
			a, b := rng.Intn(len(exprs)), rng.Intn(len(exprs))
			ra, rb := rng.Intn(len(resources)), rng.Intn(len(resources))
			x1 := render(exprs[a], resources[ra])
			y := render(exprs[b], resources[rb])
			x2 := render(exprs[a], resources[ra])
			env.Eval(3)
			env.Cover("repeated")
			env.Cover("interleaved")
			if x1 != base[a][ra] || x2 != base[a][ra] || y != base[b][rb] {
				env.Violatef("C04/nondeterministic/sequential", "`%s` on resource %d: isolated %q, repeated %q / %q (interleaved with `%s`)", srcs[a], ra, trunc(base[a][ra], 100), trunc(x1, 100), trunc(x2, 100), srcs[b])
			}
		}
		// (3) concurrent evaluation on shared expressions and resources
		for _, g := range []int{2, 8, 32} {
			obs := make([]c04Obs, g)
			seeds := make([]uint64, g)
			for i := range seeds {
				seeds[i] = rng.Next()
			}
			var wg sync.WaitGroup
			start := make(chan struct{})
			t0 := time.Now()
			for gi := 0; gi < g; gi++ {
				wg.Add(1)
				go func(gi int) {
					defer wg.Done()
					lr := core.NewRng(seeds[gi], "g")
					<-start
					for k := 0; k < 40; k++ {
						a, ra := lr.Intn(len(exprs)), lr.Intn(len(resources))
						s := time.Since(t0).Nanoseconds()
						got := render(exprs[a], resources[ra])
						e := time.Since(t0).Nanoseconds()
						obs[gi].evals++
						obs[gi].spans = append(obs[gi].spans, [2]int64{s, e})
						if got != base[a][ra] {
							obs[gi].mismatch = append(obs[gi].mismatch, fmt.Sprintf("`%s` on resource %d: isolated %q, concurrent %q", srcs[a], ra, trunc(base[a][ra], 100), trunc(got, 100)))
						}
						if k%7 == 0 {
							runtime.Gosched()
						}
					}
				}(gi)
			}
			close(start)
			wg.Wait()
			overlaps := 0
			for i := 0; i < g; i++ {
				env.Eval(obs[i].evals)
				for _, mm := range obs[i].mismatch {
					env.Violatef("C04/nondeterministic/concurrent", "%d goroutines: %s", g, mm)
				}
				for j := i + 1; j < g; j++ {
					overlaps += countOverlaps(obs[i].spans, obs[j].spans)
				}
			}
			env.Cover("concurrent-eval")
			if overlaps > 0 {
				env.Cover("overlap-observed")
			}
			env.SetExtra(fmt.Sprintf("overlapping_evaluation_pairs_g%d", g), float64(overlaps))
			env.Distinct(fmt.Sprintf("concurrent|g%d|rep%d", g, rep))
		}
		// (3b) first touch: g goroutines perform the very first evaluations on a fresh copy of a resource and fresh
		// environment objects at the same moment (anything computed or filled in lazily on first use meets the race detector)
		for _, g := range []int{2, 8} {
			for a := range exprs {
				ra := (a + rep) % len(resources)
				fresh := proto.Clone(pristine[ra]).(fhir.Resource)
				feo := append(append(gen.EnvOpts(gen.StdEnv()), evalopts.OverrideTime(c04Fixed)), c04BigVarsUniq(fmt.Sprintf("zq%dx%dy%d", rep, g, a))...)
				outs := make([]string, g)
				var wg sync.WaitGroup
				start := make(chan struct{})
				for gi := 0; gi < g; gi++ {
					wg.Add(1)
					go func(gi int) {
						defer wg.Done()
						<-start
						outs[gi] = renderWith(exprs[a], fresh, feo)
					}(gi)
				}
				close(start)
				wg.Wait()
				env.Eval(g)
				for _, o := range outs {
					if o != base[a][ra] {
						env.Violatef("C04/nondeterministic/first-touch", "%d goroutines, first evaluations on a fresh copy: `%s` on resource %d: isolated %q, concurrent %q", g, srcs[a], ra, trunc(base[a][ra], 100), trunc(o, 100))
					}
				}
				if !proto.Equal(fresh, pristine[ra]) {
					env.Violatef("C04/shared-input-modified/first-touch", "`%s` evaluated by %d goroutines changed its input resource %d", srcs[a], g, ra)
				}
			}
			env.Cover("first-touch")
		}
		// (3c) a caller may do what it likes with the collection Evaluate returned: the next evaluation (fresh inputs, so
		// only the expression itself connects the two) gives the isolated result
		for a := range exprs {
			ra := (a + 2*rep) % len(resources)
			fr1 := proto.Clone(pristine[ra]).(fhir.Resource)
			feo1 := append(append(gen.EnvOpts(gen.StdEnv()), evalopts.OverrideTime(c04Fixed)), c04BigVars()...)
			func() {
				defer func() { recover() }()
				if c, err := exprs[a].Evaluate([]fhir.Resource{fr1}, feo1...); err == nil {
					for i := range c {
						c[i] = system.String("clobbered by the caller")
					}
					c = append(c[:0], system.Integer(-1), system.Integer(-2))
					_ = c
				}
			}()
			fr2 := proto.Clone(pristine[ra]).(fhir.Resource)
			feo2 := append(append(gen.EnvOpts(gen.StdEnv()), evalopts.OverrideTime(c04Fixed)), c04BigVars()...)
			env.Eval(2)
			if got := renderWith(exprs[a], fr2, feo2); got != base[a][ra] {
				env.Violatef("C04/nondeterministic/after-caller-changed-a-result", "`%s` on resource %d: isolated %q; after the caller overwrote the items of an earlier result %q", srcs[a], ra, trunc(base[a][ra], 100), trunc(got, 100))
			}
		}
		env.Cover("caller-changes-result")
		checkPristine(fmt.Sprintf("repetition %d", rep))
		// (4) concurrent patch: one compiled patch expression applied to distinct resources
		c04Patch(env, rng)
		// (5) concurrent Compile histories
		c04Compile(env, rng, digest0)
		if d := tableDigest(); d != digest0 {
			env.Violatef("C04/process-wide-table-changed", "the process-wide function tables changed (digest %s -> %s)", digest0, d)
		}
		env.Cover("table-digest")
	}
	c04EvalHistory(env)
	c04Clock(env)
	c04TZ(env, resources)
	if len(srcs) > 3 {
		env.Sample(map[string]any{"expressions": len(exprs), "resources": len(resources), "goroutines": []int{2, 8, 32}, "GOMAXPROCS": os.Getenv("GOMAXPROCS"), "TZ": os.Getenv("TZ"), "example": srcs[3], "isolated_result": trunc(base[3][0], 80)})
	}
}

func countOverlaps(a, b [][2]int64) int {
	n := 0
	for _, x := range a {
		for _, y := range b {
			if x[0] < y[1] && y[0] < x[1] {
				n++
			}
		}
	}
	return n
}

func c04Patch(env *core.Env, rng *core.Rng) {
	pe, err := patch.Compile("Patient.name.where(family = 'Jones')")
	if err != nil {
		env.Violatef("C04/harness-program-rejected", "patch expression does not compile: %v", err)
		return
	}
	pd, _ := patch.Compile("Patient.telecom[0]")
	g := 8
	results := make([]string, g)
	var wg sync.WaitGroup
	for i := 0; i < g; i++ {
		wg.Add(1)
		go func(i int) {
			defer wg.Done()
			defer func() {
				if p := recover(); p != nil {
					results[i] = fmt.Sprintf("PANIC:%v", p)
				}
			}()
			p := gen.StdPatient()
			e1 := pe.Replace(p, gen.StdPatient().Name[0])
			e2 := pd.Delete(p)
			b, _ := model.MarshalJSON(p)
			results[i] = fmt.Sprintf("%v|%v|%s", e1, e2, b)
		}(i)
	}
	wg.Wait()
	env.Eval(2 * g)
	env.Cover("concurrent-patch")
	// sequential reference
	p := gen.StdPatient()
	e1 := pe.Replace(p, gen.StdPatient().Name[0])
	e2 := pd.Delete(p)
	b, _ := model.MarshalJSON(p)
	want := fmt.Sprintf("%v|%v|%s", e1, e2, b)
	for i := range results {
		if results[i] != want {
			env.Violatef("C04/nondeterministic/concurrent-patch", "a compiled patch expression applied concurrently to distinct resources gives %q, sequentially %q", trunc(results[i], 200), trunc(want, 200))
		}
	}
}

func c04Compile(env *core.Env, rng *core.Rng, digest0 string) {
	g := 8
	type res struct {
		problems []string
		names    []string
		sets     int
	}
	out := make([]res, g)
	seeds := make([]uint64, g)
	for i := range seeds {
		seeds[i] = rng.Next()
	}
	var wg sync.WaitGroup
	for gi := 0; gi < g; gi++ {
		wg.Add(1)
		go func(gi int) {
			defer wg.Done()
			defer func() {
				if p := recover(); p != nil {
					out[gi].problems = append(out[gi].problems, fmt.Sprintf("panic %v", p))
				}
			}()
			lr := core.NewRng(seeds[gi], "c")
			for k := 0; k < 25; k++ {
				name := fmt.Sprintf("custom_%d_%d", gi, k)
				var co []fhirpath.CompileOption
				wantErr := false
				set := lr.Intn(7)
				switch set {
				case 0:
					co = append(co, compopts.AddFunction(name, goodCustom))
				case 1:
					co = append(co, compopts.AddFunction(name, goodCustom), compopts.AddFunction(name, goodCustom))
					wantErr = true
				case 2:
					// any built-in name (the deprecated spelling convertToDateTime included)
					co = append(co, compopts.AddFunction(c04BuiltinNames[lr.Intn(len(c04BuiltinNames))], goodCustom))
					wantErr = true
				case 3:
					co = append(co, compopts.WithExperimentalFuncs(), compopts.AddFunction(name, goodCustom))
				case 4:
					co = append(co, compopts.Permissive())
				case 5:
					co = append(co, compopts.AddFunction("join", goodCustom)) // not in the base table: allowed without the experimental option
				case 6:
				}
				out[gi].sets++
				src := "Patient.name.count()"
				if set == 0 || set == 3 {
					src = "Patient.name." + name + "('x').count()"
					out[gi].names = append(out[gi].names, name)
				}
				ex, err := fhirpath.Compile(src, co...)
				if (err != nil) != wantErr {
					out[gi].problems = append(out[gi].problems, fmt.Sprintf("unexpected-compile-outcome/set%d Compile(%q): err=%v, expected error=%v", set, src, err, wantErr))
					continue
				}
				if err == nil {
					c, e := ex.Evaluate([]fhir.Resource{gen.StdPatient()})
					want := "2"
					if set == 0 || set == 3 {
						want = "3"
					}
					if e != nil || len(c) != 1 || fx.Render(c[0]).T != want {
						out[gi].problems = append(out[gi].problems, fmt.Sprintf("wrong-result/set%d `%s` => %v %v (expected %s)", set, src, fx.RenderAll(c), e, want))
					}
				}
				// a built-in keeps its behaviour, whatever was attempted
				if ex2, e2 := fhirpath.Compile("Patient.name.where(family = 'Smith').count()"); e2 != nil {
					out[gi].problems = append(out[gi].problems, "builtin-altered where() no longer compiles: "+e2.Error())
				} else if c, _ := ex2.Evaluate([]fhir.Resource{gen.StdPatient()}); len(c) != 1 || fx.Render(c[0]).T != "1" {
					out[gi].problems = append(out[gi].problems, fmt.Sprintf("builtin-altered where() changed behaviour: %v", fx.RenderAll(c)))
				}
			}
		}(gi)
	}
	wg.Wait()
	env.Cover("concurrent-compile")
	for gi := range out {
		env.Eval(out[gi].sets * 3)
		for _, p := range out[gi].problems {
			env.Violatef("C04/compile-isolation/"+strings.SplitN(p, " ", 2)[0], "concurrent Compile history: %s", p)
		}
		env.Distinct(fmt.Sprintf("compile-history|%d", gi))
		// every custom name ever registered is unresolved in a plain Compile
		for _, nm := range out[gi].names {
			if _, err := fhirpath.Compile("Patient." + nm + "('x')"); err == nil {
				env.Violatef("C04/compile-isolation/function-leaked", "custom function %s registered through an option resolves in a later Compile without that option", nm)
			}
		}
	}
	if _, err := fhirpath.Compile("Patient.name.given.join(',')"); err == nil {
		env.Violatef("C04/compile-isolation/experimental-leaked", "`join` resolves without WithExperimentalFuncs")
	}
	if _, err := fhirpath.Compile("Patient.name.given.join(',')", compopts.WithExperimentalFuncs()); err != nil {
		env.Violatef("C04/compile-isolation/experimental-missing", "`join` does not resolve with WithExperimentalFuncs: %v", err)
	}
}

// c04EvalHistory: what an Evaluate call was given does not survive it. Concurrently, goroutines alternate
// evaluations whose options fail after a variable was accepted with evaluations that do not supply that
// variable; the variable must be unknown there, and the same name may be supplied again.
func c04EvalHistory(env *core.Env) {
	exLeak, err1 := fhirpath.Compile("%leak")
	exID, err2 := fhirpath.Compile("Patient.id")
	if err1 != nil || err2 != nil {
		return
	}
	in := []fhir.Resource{gen.StdPatient()}
	var mu sync.Mutex
	var problems []string
	var wg sync.WaitGroup
	for g := 0; g < 8; g++ {
		wg.Add(1)
		go func(g int) {
			defer wg.Done()
			defer func() {
				if r := recover(); r != nil {
					mu.Lock()
					problems = append(problems, fmt.Sprintf("panic %v", r))
					mu.Unlock()
				}
			}()
			for k := 0; k < 60; k++ {
				_, e0 := exID.Evaluate(in, evalopts.EnvVariable("leak", system.Integer(int32(g*100+k))), evalopts.EnvVariable("bad", 42))
				if e0 == nil {
					mu.Lock()
					problems = append(problems, "failing-option-ignored an unsupported variable value was accepted")
					mu.Unlock()
				}
				c, e1 := exLeak.Evaluate(in)
				if e1 == nil {
					mu.Lock()
					problems = append(problems, fmt.Sprintf("variable-of-a-failed-evaluation-visible `%%leak` without options evaluated to %v after another evaluation accepted `leak` and failed", fx.RenderAll(c)))
					mu.Unlock()
				}
				c, e2 := exLeak.Evaluate(in, evalopts.EnvVariable("leak", system.Integer(7)))
				if e2 != nil || len(c) != 1 || fx.Render(c[0]).T != "7" {
					mu.Lock()
					problems = append(problems, fmt.Sprintf("variable-not-the-supplied-value `%%leak` with leak = 7 gave %v, %v", fx.RenderAll(c), e2))
					mu.Unlock()
				}
			}
		}(g)
	}
	wg.Wait()
	env.Eval(8 * 60 * 3)
	env.Cover("evaluate-history")
	seen := map[string]bool{}
	for _, p := range problems {
		k := strings.SplitN(p, " ", 2)[0]
		if !seen[k] {
			seen[k] = true
			env.Violatef("C04/evaluate-history/"+k, "concurrent Evaluate history: %s", p)
		}
	}
}

// c04Clock: now/today/timeOfDay denote one instant.
func c04Clock(env *core.Env) {
	co := []fhirpath.CompileOption{compopts.AddFunction("nap", nap)}
	in := []fhir.Resource{gen.StdPatient()}
	times := []time.Time{c04Fixed, time.Date(2021, 12, 31, 23, 59, 59, 999000000, time.UTC), time.Date(2020, 2, 29, 0, 0, 0, 0, time.FixedZone("", -39600)), time.Date(1999, 1, 1, 12, 0, 0, 5000000, time.FixedZone("", 45900)), {}, time.Unix(0, 0).UTC()}
	for _, t := range times {
		env.Cover("clock-override")
		o := evalopts.OverrideTime(t)
		wantNow := fmtOffset(t, true)
		wantDate := fmt.Sprintf("%04d-%02d-%02d", t.Year(), int(t.Month()), t.Day())
		wantTime := fmt.Sprintf("%02d:%02d:%02d.%03d", t.Hour(), t.Minute(), t.Second(), t.Nanosecond()/1000000)
		for _, c := range []struct{ src, want string }{
			{"now().toString()", wantNow}, {"today().toString()", wantDate}, {"timeOfDay().toString()", wantTime},
			{"Patient.nap().select(now()).toString()", wantNow}, {"Patient.nap().nap().select(timeOfDay()).toString()", wantTime},
			{"(now() + 1 day - 1 day).toString()", wantNow}, {"(now() - 0 seconds).toString()", wantNow}, {"(today() + 1 year - 1 year).toString().substring(0, 4)", wantDate[:4]}, {"(today() + 0 days).toString()", wantDate}, {"(timeOfDay() + 24 hours).toString()", wantTime}, {"(timeOfDay() + 0 minutes).toString()", wantTime},
		} {
			r := fx.Eval(env, c.src, in, co, []fhirpath.EvaluateOption{o})
			if it, ok := r.Single(); !ok || it.T != c.want {
				env.Violatef("C04/clock/override-not-honoured", "`%s` with OverrideTime(%s) => %s, expected %s", c.src, t.Format(time.RFC3339Nano), trunc(r.Short(), 100), c.want)
			}
		}
		for _, src := range []string{"now() = Patient.nap().select(now())", "timeOfDay() = Patient.nap().select(timeOfDay())", "today() = Patient.nap().select(today())", "now().toString().substring(0, 10) = today().toString()"} {
			r := fx.Eval(env, src, in, co, []fhirpath.EvaluateOption{o})
			if r.Bool3() != "true" {
				env.Violatef("C04/clock/not-one-instant", "`%s` with OverrideTime => %s", src, trunc(r.Short(), 100))
			}
		}
	}
	// without override: one instant per evaluation (a 3 ms sleep lies between the two reads), bracketed by the wall clock
	for k := 0; k < 12; k++ {
		env.Cover("clock-bracket")
		before := time.Now().Add(-time.Millisecond).UTC()
		r := fx.Eval(env, "now().toString() & '|' & Patient.nap().select(now()).toString() & '|' & Patient.nap().select(timeOfDay()).toString() & '|' & today().toString()", in, co, nil)
		after := time.Now().Add(time.Millisecond).UTC()
		it, ok := r.Single()
		if !ok {
			env.Violatef("C04/clock/no-value", "clock program => %s", trunc(r.Short(), 100))
			continue
		}
		parts := strings.Split(it.T, "|")
		if len(parts) != 4 || parts[0] != parts[1] {
			env.Violatef("C04/clock/not-one-instant", "now() read twice within one evaluation (3 ms apart) gives %q and %q", parts[0], parts[1])
			continue
		}
		dt, okp := model.ParseTemporal("DateTime", parts[0])
		if !okp || !dt.HasTZ {
			env.Violatef("C04/clock/unparsable", "now() renders as %q", parts[0])
			continue
		}
		us := dt.EpochMicros()
		if us < before.UnixMicro()-1000 || us > after.UnixMicro()+1000 {
			env.Violatef("C04/clock/outside-bracket", "now() = %s lies outside [%s, %s]", parts[0], before.Format(time.RFC3339Nano), after.Format(time.RFC3339Nano))
		}
		// the offset now() is rendered with is recorded per process time zone: it must not follow the zone
		off := "Z"
		if !strings.HasSuffix(parts[0], "Z") && len(parts[0]) >= 6 {
			off = parts[0][len(parts[0])-6:]
		}
		env.SetExtra("now-offset/"+os.Getenv("TZ"), off)
		// timeOfDay and today are the time and date parts of the same instant (in now()'s own offset)
		if !strings.HasPrefix(parts[0], parts[3]+"T") || !strings.Contains(parts[0], "T"+parts[2]) {
			env.Violatef("C04/clock/not-one-instant", "now()=%s timeOfDay()=%s today()=%s do not denote one instant", parts[0], parts[2], parts[3])
		}
	}
}

func fmtOffset(t time.Time, ms bool) string {
	_, off := t.Zone()
	s := fmt.Sprintf("%04d-%02d-%02dT%02d:%02d:%02d.%03d", t.Year(), int(t.Month()), t.Day(), t.Hour(), t.Minute(), t.Second(), t.Nanosecond()/1000000)
	if off == 0 {
		return s + "Z"
	}
	sign := "+"
	if off < 0 {
		sign, off = "-", -off
	}
	return s + fmt.Sprintf("%s%02d:%02d", sign, off/3600, off%3600/60)
}

// c04TZ: a fixed program list rendered under this process's TZ; the parent compares the digests across time zones.
func c04TZ(env *core.Env, resources []fhir.Resource) {
	h := sha256.New()
	progs := append([]string{}, c04Sources...)
	progs = append(progs, "@2020-03-08T02:30:00 + 1 day", "@2020-01-01T00:00:00Z.toString()", "'2020-06-30T23:30:00-11:00'.toDateTime()", "@2020-06-30T23:30:00-11:00 = @2020-07-01T10:30:00Z", "Patient.birthDate.toString()",
		"Patient.birthDate + 1 day", "Patient.meta.lastUpdated.toString()", "@T23:59:59 + 2 seconds", "today() - 1 day", "now() + 36 hours", "Patient.descendants().where($this is dateTime)", "Patient.descendants().where($this is date).select($this + 1 month)",
		"%ftime.value", "%ftnp.value", "%fdt.value", "%fdate.value", "%finst.value", "%finp.value", "%ftime.value = '01:02:03'", "%ftime.toString()", "%ftime = @T01:02:03", "%fdt.value.toString()", "%finst.value.toString()", "Observation.value.value", "Patient.extension.value.value", "Patient.extension.where(url = 'http://e/time').value.value = '08:30:00'", "Patient.extension.value.value.toTime()", "Patient.birthDate.value", "Patient.deceased.value", "Patient.meta.lastUpdated.value")
	// values written with exactly the offsets the tested zones have (standard and daylight-saving time): the Go
	// runtime represents such an offset by time.Local, every other one by a fresh fixed zone
	for _, off := range []string{"+05:30", "-03:30", "-02:30", "+12:45", "+13:45", "Z", "+00:00", "-11:00"} {
		for _, day := range []string{"2020-01-01", "2020-07-01"} {
			progs = append(progs,
				"@"+day+"T23"+off+" = @"+day+"T23:40"+off, "@"+day+"T23"+off+" < @"+day+"T23:40"+off, "@"+day+"T23:40:10"+off+" >= @"+day+"T23"+off,
				"@"+day+"T10:00:00"+off+".toString()", "'"+day+"T10:00:00"+off+"'.toDateTime().toString()", "@"+day+"T23:40:00"+off+" + 1 day", "@"+day+"T23:40:00"+off+".toDate()",
				"@"+day+"T23:40:00"+off+" = '"+day+"T23:40:00"+off+"'.toDateTime()", "@"+day+"T00:10:00"+off+" - 1 month", "@"+day+"T10"+off+" <= @"+day+"T10:00"+off)
		}
	}
	eo := append(append(gen.EnvOpts(gen.StdEnv()), evalopts.OverrideTime(c04Fixed)), c04BigVars()...)
	co := []fhirpath.CompileOption{compopts.WithExperimentalFuncs(), compopts.AddFunction("nap", func(in system.Collection) (system.Collection, error) { return in, nil })}
	for _, p := range progs {
		for j, r := range resources {
			res := fx.Eval(env, p, []fhir.Resource{r}, co, eo)
			env.Cover("tz-programs")
			fmt.Fprintf(h, "%s|%d|%s\n", p, j, res.Short())
			_ = proto.Size
		}
	}
	tz := os.Getenv("TZ")
	env.SetExtra("tzdigest/"+tz, hex.EncodeToString(h.Sum(nil)[:10]))
	env.SetExtra("local-zone/"+tz, time.Now().Format("-07:00 MST"))
}
