package props

import (
	"strings"
	"encoding/json"
	"fmt"

	dtpb "github.com/google/fhir/go/proto/google/fhir/proto/r4/core/datatypes_go_proto"
	ppb "github.com/google/fhir/go/proto/google/fhir/proto/r4/core/resources/patient_go_proto"
	"github.com/verily-src/fhirpath-go/fhirpath"
	"github.com/verily-src/fhirpath-go/fhirpath/compopts"
	"github.com/verily-src/fhirpath-go/fhirpath/evalopts"
	"github.com/verily-src/fhirpath-go/fhirpath/system"
	"github.com/verily-src/fhirpath-go/fhirpath/verifharness/core"
	"github.com/verily-src/fhirpath-go/fhirpath/verifharness/fx"
	"github.com/verily-src/fhirpath-go/fhirpath/verifharness/gen"
	"github.com/verily-src/fhirpath-go/fhirpath/verifharness/model"
	"github.com/verily-src/fhirpath-go/internal/fhir"
)

// C06 — three-valued Boolean logic for every operand form.

func init() {
	core.Register(&core.Property{
		ID:         "C06",
		Exhaustive: true,
		Rule:       "exhaustive: {and, or, xor, implies} x every ordered pair of operand forms, a form being value in {true,false,empty,non-Boolean singleton,multi-item} x source in {literal, FHIR boolean element path, computed, %env (System and FHIR element), function result}; not() x forms; the singleton rule through iif/where/exists/all criteria and EvaluateAsBool; De Morgan and implies laws as paired programs; plus operand forms taken from generated resources of all 146 R4 types (boolean elements at any depth incl. choices and extension values, non-Boolean singletons, multi-item paths, absent elements) pairwise under every operator, not() and iif. Expected values from the N1 truth tables. three-operand chains against the precedence table, nested criteria in both orders, all 64 three-item sequences of criterion outcomes; distinct_nontrivial = distinct (operator, left form, right form) programs whose expected value is not determined by a literal-only pair",
		Assumptions: []string{"multi-item literal operands do not exist in the supported grammar (`|` unsupported): supplied through %env, element paths and functions",
			"resource-rooted operand forms are not used inside where/exists/all criteria (the input there is the item, not the resource)"},
		Run:    runC06,
		Checks: map[string]func(*core.Env, []json.RawMessage){"prog": replayC06, "gen": replayC06Gen},
		Threshold: func(m *core.Merged) []string {
			var r []string
			for _, k := range []string{"binop", "not", "iif", "where", "exists", "all", "asbool", "demorgan", "implies-law", "both-rooted", "generated-resource", "env-operands", "criteria-item-order", "permissive-commutative", "gen-form:T", "gen-form:F", "gen-form:N", "gen-form:M", "gen-form:E"} {
				if m.Cover[k] == 0 {
					r = append(r, "never observed: "+k)
				}
			}
			return r
		},
	})
}

type form struct {
	Src    string
	Val    string // T F E N(non-bool singleton) M(multi)
	Source string
	Rooted bool // depends on the input resource
}

func c06Forms() []form {
	return []form{
		{"true", "T", "literal", false}, {"false", "F", "literal", false}, {"{}", "E", "literal", false}, {"'x'", "N", "literal", false}, {"0", "N", "literal", false},
		{"Patient.active", "T", "fhir-element", true}, {"Patient.communication[0].preferred", "F", "fhir-element", true}, {"Patient.photo", "E", "fhir-element", true},
		{"Patient.gender", "N", "fhir-element", true}, {"Patient.name[0]", "N", "fhir-element", true}, {"Patient.communication.preferred", "M", "fhir-element", true}, {"Patient.name.given", "M", "fhir-element", true},
		{"Patient.deceased", "F", "fhir-choice-element", true},
		{"(1 = 1)", "T", "computed", false}, {"(1 = 2)", "F", "computed", false}, {"({} = 1)", "E", "computed", false}, {"(1 + 1)", "N", "computed", false}, {"Patient.name.select(given)", "M", "computed", true},
		{"%t", "T", "env", false}, {"%f", "F", "env", false}, {"%e", "E", "env", false}, {"%n", "N", "env", false}, {"%m", "M", "env", false}, {"%fbt", "T", "env-fhir", false}, {"%fbf", "F", "env-fhir", false}, {"%hn", "N", "env-fhir", false},
		{"'true'.toBoolean()", "T", "function", false}, {"'false'.toBoolean()", "F", "function", false}, {"'x'.toBoolean()", "E", "function", false}, {"'abc'.upper()", "N", "function", false}, {"'ab'.toChars()", "M", "function", false},
		{"Patient.active.not()", "F", "function", true}, {"Patient.name.exists()", "T", "function", true},
	}
}

func c06Inputs() ([]fhir.Resource, []fhirpath.EvaluateOption) {
	p := gen.StdPatient()
	p.Communication = []*ppb.Patient_Communication{
		{Preferred: &dtpb.Boolean{Value: false}, Language: &dtpb.CodeableConcept{Text: &dtpb.String{Value: "en"}}},
		{Preferred: &dtpb.Boolean{Value: true}, Language: &dtpb.CodeableConcept{Text: &dtpb.String{Value: "fr"}}},
	}
	eo := []fhirpath.EvaluateOption{
		evalopts.EnvVariable("t", system.Boolean(true)), evalopts.EnvVariable("f", system.Boolean(false)), evalopts.EnvVariable("e", system.Collection{}),
		evalopts.EnvVariable("n", system.Integer(5)), evalopts.EnvVariable("m", system.Collection{system.Boolean(true), system.Boolean(false)}),
		evalopts.EnvVariable("fbt", &dtpb.Boolean{Value: true}), evalopts.EnvVariable("fbf", &dtpb.Boolean{Value: false}),
		evalopts.EnvVariable("hn", &dtpb.HumanName{Family: &dtpb.String{Value: "Z"}}),
	}
	return []fhir.Resource{p}, eo
}

// logic3 truth tables over T/F/E; N counts as T. Returns "T","F","E" or "ERR" for multi-item operands.
func norm(v string) string {
	if v == "N" {
		return "T"
	}
	return v
}

func logic3(op, a, b string) string {
	if a == "M" || b == "M" {
		return "ERR"
	}
	a, b = norm(a), norm(b)
	switch op {
	case "and":
		if a == "F" || b == "F" {
			return "F"
		}
		if a == "T" && b == "T" {
			return "T"
		}
		return "E"
	case "or":
		if a == "T" || b == "T" {
			return "T"
		}
		if a == "F" && b == "F" {
			return "F"
		}
		return "E"
	case "xor":
		if a == "E" || b == "E" {
			return "E"
		}
		if a != b {
			return "T"
		}
		return "F"
	case "implies":
		if a == "F" {
			return "T"
		}
		if a == "T" {
			return b
		}
		if b == "T" {
			return "T"
		}
		return "E"
	}
	return "?"
}

func obs3(r fx.Res) string {
	switch {
	case r.IsPanic():
		return "PANIC"
	case r.IsError():
		return "ERR"
	}
	switch r.Bool3() {
	case "true":
		return "T"
	case "false":
		return "F"
	case "empty":
		return "E"
	}
	return "OTHER"
}

func c06Prog(env *core.Env, kind, src, want string) string {
	defer env.In("prog", kind, src, want)()
	in, eo := c06Inputs()
	r := fx.Eval(env, src, in, nil, eo)
	env.Case()
	got := obs3(r)
	if got != want {
		if r.IsPanic() {
			env.Violatef(fx.PanicSig("C06", r), "`%s` => %s", src, r.Short())
		} else {
			env.Violatef("C06/"+kind+"/want-"+want+"-got-"+got, "`%s`: expected %s, observed %s (%s)", src, want, got, trunc(r.Short(), 200))
		}
	}
	env.SampleSpread(src, map[string]string{"program": src, "expected": want, "observed": got})
	return got
}

func replayC06(env *core.Env, a []json.RawMessage) {
	var kind, src, want string
	json.Unmarshal(a[0], &kind)
	json.Unmarshal(a[1], &src)
	json.Unmarshal(a[2], &want)
	got := c06Prog(env, kind, src, want)
	fmt.Printf("`%s` expected %s observed %s\n", src, want, got)
}

// c06Chain: three operands and two operators without parentheses. `and` binds tighter than `or` / `xor` (one level,
// left to right), which bind tighter than `implies` (left to right).
func c06Chain(env *core.Env, a, op1, b, op2, c string) {
	lit := map[string]string{"T": "true", "F": "false", "E": "{}"}
	level := map[string]int{"and": 1, "or": 2, "xor": 2, "implies": 3}
	var want string
	if level[op2] < level[op1] {
		want = logic3(op1, a, logic3(op2, b, c)) // a op1 (b op2 c)
	} else {
		want = logic3(op2, logic3(op1, a, b), c) // (a op1 b) op2 c
	}
	env.Cover("three-operand-chain")
	c06Prog(env, "chain-"+op1+"-"+op2, lit[a]+" "+op1+" "+lit[b]+" "+op2+" "+lit[c], want)
}

func runC06(env *core.Env) {
	forms := c06Forms()
	n := 0
	// operands that themselves iterate (a nested criterion) next to operands that read the outer item: the outer item
	// is still the outer item afterwards, on either side of the operator
	{
		nested := []string{"given.exists($this.length() > 2)", "given.all($this != 'zz')", "given.where($this = 'Ann').exists()", "given.select($this.length()).exists($this > 3)", "given.exists($this = 'Bob').not()", "given.select($this & 'x').all($this.length() > 1)"}
		plain := []string{"family = 'Smith'", "use.exists()", "family.length() > 4", "use = 'official'", "period.exists()", "family.exists()"}
		for _, op := range []string{"and", "or", "xor"} {
			for _, a := range nested {
				for _, b := range plain {
					n++
					if !env.Mine(n) {
						continue
					}
					env.Cover("nested-criteria")
					for _, recv := range []string{"Patient.name", "Patient.contact.name", "Patient.name.tail()"} {
						if strings.Contains(recv, "|") {
							continue
						}
						c06Prog(env, "nested-criteria", fmt.Sprintf("%s.where(%s %s %s).count() = %s.where(%s %s %s).count()", recv, a, op, b, recv, b, op, a), "T")
						c06Prog(env, "nested-criteria", fmt.Sprintf("%s.select(iif(%s, family, 'none')) = %s.select(iif(%s.not().not(), family, 'none'))", recv, a, recv, a), "T")
					}
				}
			}
		}
	}
	// criteria whose outcome differs from item to item (true, false, empty, several values), in every order: each item is judged on its own
	{
		type itemKind struct {
			name string
			el   *dtpb.HumanName
		}
		mkn := func(fam string, given ...string) *dtpb.HumanName {
			h := &dtpb.HumanName{Family: &dtpb.String{Value: fam}}
			for _, g := range given {
				h.Given = append(h.Given, &dtpb.String{Value: g})
			}
			return h
		}
		kinds := []itemKind{{"T", mkn("t", "yes")}, {"E", mkn("e")}, {"M", mkn("m", "a", "b")}, {"F", mkn("f", "no")}}
		// criterion per item: given = 'yes' is true / empty (no given) / error-or-false for several / false
		for a := range kinds {
			for b := range kinds {
				for c := range kinds {
					n++
					if !env.Mine(n) {
						continue
					}
					coll := system.Collection{kinds[a].el, kinds[b].el, kinds[c].el}
					seq := kinds[a].name + kinds[b].name + kinds[c].name
					eo := []fhirpath.EvaluateOption{evalopts.EnvVariable("ns", coll)}
					env.Cover("criteria-outcome-sequence")
					hasM := strings.Contains(seq, "M")
					// all(given.first() = 'yes'): true iff every item is T (an empty outcome is not true)
					wantAll := "F"
					if seq == "TTT" {
						wantAll = "T"
					}
					if got := obs3(fx.Eval(env, "%ns.all(given.first() = 'yes')", nil, nil, eo)); got != wantAll {
						env.Violatef("C06/criteria-sequence/all", "items %s (T: given='yes', E: no given, M: two givens, F: given='no'): `%%ns.all(given.first() = 'yes')` = %s, expected %s", seq, got, wantAll)
					}
					// where(given = 'yes').count(): the number of T items; an error if an item has several givens (not a singleton comparison)... only when evaluated
					cnt := strings.Count(seq, "T")
					r := fx.Eval(env, "%ns.where(given.first() = 'yes').count()", nil, nil, eo)
					if it, ok := r.Single(); !ok || it.T != fmt.Sprint(cnt) {
						env.Violatef("C06/criteria-sequence/where", "items %s: `%%ns.where(given.first() = 'yes').count()` = %s, expected %d", seq, trunc(r.Short(), 60), cnt)
					}
					// a bare element criterion: an item with several values is an error whatever the other items hold
					rb := fx.Eval(env, "%ns.where(given).count()", nil, nil, eo)
					if hasM {
						if !rb.IsError() {
							env.Violatef("C06/criteria-sequence/multi-valued-criterion-accepted", "items %s: `%%ns.where(given).count()` = %s although one item's criterion has two values", seq, trunc(rb.Short(), 60))
						}
					} else if it, ok := rb.Single(); !ok || it.T != fmt.Sprint(strings.Count(seq, "T")+strings.Count(seq, "F")) {
						env.Violatef("C06/criteria-sequence/where-element", "items %s: `%%ns.where(given).count()` = %s", seq, trunc(rb.Short(), 60))
					}
					ra := obs3(fx.Eval(env, "%ns.all(given)", nil, nil, eo))
					wantA := "F"
					if hasM {
						wantA = "ERR|F" // (all may stop at the first item that is not true)
					} else if !strings.Contains(seq, "E") {
						wantA = "T"
					}
					if !strings.Contains("|"+wantA+"|", "|"+ra+"|") {
						env.Violatef("C06/criteria-sequence/all-element", "items %s: `%%ns.all(given)` = %s, expected %s", seq, ra, wantA)
					}
				}
			}
		}
	}
	n++
	if env.Mine(n) {
		for _, c := range [][2]string{{"{}.exists($this = 1).not()", "T"}, {"Patient.photo.exists(title.exists())", "F"}, {"Patient.photo.exists(title.exists()) and {}", "F"}, {"Patient.photo.all(title.exists())", "T"}, {"Patient.photo.all(title.exists()).not()", "F"},
			{"Patient.photo.where(title.exists()).exists() or false", "F"}, {"iif(Patient.photo.exists(true), 'a', 'b') = 'b'", "T"}, {"Patient.photo.exists(true) is Boolean", "T"}, {"Patient.photo.exists(true) = false", "T"}, {"{}.allTrue() and {}.allFalse() and {}.anyTrue().not() and {}.anyFalse().not()", "T"}, {"{}.empty() and {}.exists().not() and ({}.count() = 0)", "T"}} {
			env.Cover("aggregate-on-empty-input")
			c06Prog(env, "empty-input-aggregate", c[0], c[1])
		}
	}
	ops := []string{"and", "or", "xor", "implies"}
	for _, op1 := range ops {
		for _, op2 := range ops {
			for _, a := range []string{"T", "F", "E"} {
				for _, b := range []string{"T", "F", "E"} {
					for _, c := range []string{"T", "F", "E"} {
						n++
						if env.Mine(n) {
							c06Chain(env, a, op1, b, op2, c)
						}
					}
				}
			}
		}
	}
	for _, op := range []string{"and", "or", "xor", "implies"} {
		for _, a := range forms {
			for _, b := range forms {
				n++
				if !env.Mine(n) {
					continue
				}
				src := a.Src + " " + op + " " + b.Src
				c06Prog(env, "binop-"+op, src, logic3(op, a.Val, b.Val))
				env.Cover("binop")
				if a.Source != "literal" || b.Source != "literal" {
					env.Distinct(op + "|" + a.Src + "|" + b.Src)
				}
				if a.Rooted && b.Rooted {
					env.Cover("both-rooted")
				}
				// laws as paired programs (skip multi: both sides are errors by the table)
				if a.Val != "M" && b.Val != "M" {
					if op == "and" || op == "or" {
						dual := map[string]string{"and": "or", "or": "and"}[op]
						lhs := fmt.Sprintf("(%s %s %s).not()", a.Src, op, b.Src)
						rhs := fmt.Sprintf("(%s).not() %s (%s).not()", a.Src, dual, b.Src)
						c06Law(env, "demorgan", lhs, rhs)
						env.Cover("demorgan")
					}
					if op == "implies" {
						c06Law(env, "implies-law", src, fmt.Sprintf("(%s).not() or %s", a.Src, b.Src))
						env.Cover("implies-law")
					}
				}
			}
		}
	}
	notTab := map[string]string{"T": "F", "F": "T", "E": "E", "N": "F", "M": "ERR"}
	iifTab := map[string]string{"T": "T", "F": "F", "E": "F", "N": "T", "M": "ERR"}
	for _, a := range forms {
		n++
		if !env.Mine(n) {
			continue
		}
		c06Prog(env, "not", "("+a.Src+").not()", notTab[a.Val])
		env.Cover("not")
		// iif: 'T' branch yields true, otherwise false — rendered as Booleans so obs3 applies
		c06Prog(env, "iif", "iif("+a.Src+", true, false)", iifTab[a.Val])
		env.Cover("iif")
		c06AsBool(env, a)
		if a.Rooted {
			continue
		}
		// criteria: the item is an Integer, the criterion is input independent
		whereTab := map[string]string{"T": "T", "F": "F", "E": "F", "N": "T", "M": "ERR"}
		c06Prog(env, "where", "(7).where("+a.Src+").exists()", whereTab[a.Val])
		env.Cover("where")
		c06Prog(env, "exists", "(7).exists("+a.Src+")", whereTab[a.Val])
		env.Cover("exists")
		c06Prog(env, "all", "(7).all("+a.Src+")", whereTab[a.Val])
		env.Cover("all")
	}
	// one source text, many operand values: both operands are environment variables whose values change from
	// one evaluation to the next (the compile-once / evaluate-many use of the library; fx.Eval also re-evaluates
	// the expression compiled at the first occurrence of each source)
	type ev struct {
		val string
		v   any
	}
	evs := []ev{{"T", system.Boolean(true)}, {"F", system.Boolean(false)}, {"E", system.Collection{}}, {"N", system.Integer(5)}, {"M", system.Collection{system.Boolean(true), system.Boolean(false)}},
		{"T", system.Collection{system.Boolean(true)}}, {"F", system.Collection{system.Boolean(false)}}, {"F", system.Collection{&dtpb.Boolean{Value: false}}}, {"T", system.Collection{&dtpb.Boolean{Value: true}}},
		{"T", &dtpb.Boolean{Value: true}}, {"F", &dtpb.Boolean{Value: false}}, {"N", &dtpb.HumanName{Family: &dtpb.String{Value: "Z"}}}, {"N", system.String("false")}, {"N", &dtpb.Quantity{Code: &dtpb.Code{Value: "mg"}}}, {"N", &dtpb.Decimal{Id: &dtpb.String{Value: "no-value"}}}, {"N", &dtpb.Coding{Code: &dtpb.Code{Value: "c"}}}, {"M", system.Collection{system.Integer(1), system.Integer(2)}}}
	notTab0 := map[string]string{"T": "F", "F": "T", "E": "E", "N": "F", "M": "ERR"}
	iifTab0 := map[string]string{"T": "T", "F": "F", "E": "F", "N": "T", "M": "ERR"}
	for round := 0; round < 2; round++ {
		for i := range evs {
			// the second round walks the values in reverse, so that every value follows every other one
			a := evs[i]
			if round == 1 {
				a = evs[len(evs)-1-i]
			}
			n++
			if !env.Mine(n) {
				continue
			}
			for _, b := range evs {
				eo := []fhirpath.EvaluateOption{evalopts.EnvVariable("a", a.v), evalopts.EnvVariable("b", b.v)}
				for _, op := range []string{"and", "or", "xor", "implies"} {
					c06EnvProg(env, "env-binop-"+op, "%a "+op+" %b", logic3(op, a.val, b.val), eo)
				}
				crit := "ERR" // a multi-item criterion is an error wherever it stands
				if a.val != "M" && b.val != "M" {
					crit = logic3("and", iifTab0[a.val], iifTab0[b.val])
				}
				c06EnvProg(env, "env-criteria", "(7).where(%a).exists() and (7).exists(%b)", crit, eo)
			}
			eo := []fhirpath.EvaluateOption{evalopts.EnvVariable("a", a.v)}
			c06EnvProg(env, "env-not", "%a.not()", notTab0[a.val], eo)
			c06EnvProg(env, "env-iif", "iif(%a, true, false)", iifTab0[a.val], eo)
			c06EnvProg(env, "env-literal-operand", "%a and true", logic3("and", a.val, "T"), eo)
			c06EnvProg(env, "env-literal-operand", "false or %a", logic3("or", "F", a.val), eo)
			// the same variable read again after not(): `a.not() or a`, `a.not() xor a`, `a.not().not()` vs `a and true`
			if a.val != "M" {
				na := notTab0[a.val]
				c06EnvProg(env, "env-reread-after-not", "%a.not() or %a", logic3("or", na, a.val), eo)
				c06EnvProg(env, "env-reread-after-not", "%a.not() xor %a", logic3("xor", na, a.val), eo)
				c06EnvProg(env, "env-reread-after-not", "%a and %a.not()", logic3("and", a.val, na), eo)
				c06EnvProg(env, "env-reread-after-not", "%a.not().not() and %a", logic3("and", notTab0[na], a.val), eo)
				c06EnvProg(env, "env-reread-after-not", "%a.not()", na, eo)
			}
			env.Cover("env-operands")
		}
	}
	// operand forms from generated resources of every type
	per := env.Size(1, 10)
	for k := 0; k < per; k++ {
		for _, md := range gen.ResourceTypes() {
			n++
			if env.Mine(n) {
				c06Resource(env, string(md.Name()), env.Seed*1000+uint64(k), k%2 == 1)
			}
		}
	}
	// criteria over collections whose items give different criterion classes, in both orders: the singleton rule
	// applies to every item, whichever item comes first
	one := &dtpb.HumanName{Family: &dtpb.String{Value: "One"}, Given: []*dtpb.String{{Value: "a"}}}
	two := &dtpb.HumanName{Family: &dtpb.String{Value: "Two"}, Given: []*dtpb.String{{Value: "a"}, {Value: "b"}}}
	none := &dtpb.HumanName{Family: &dtpb.String{Value: "None"}}
	for _, c := range []struct {
		name string
		coll system.Collection
		crit string
		want map[string]string // function -> expected
	}{
		// (an implementation may stop at the item that decides exists() / all(): both outcomes are accepted there)
		{"T,M", system.Collection{one, two}, "given", map[string]string{"where": "ERR", "exists": "ERR|T", "all": "ERR"}},
		{"M,T", system.Collection{two, one}, "given", map[string]string{"where": "ERR", "exists": "ERR", "all": "ERR"}},
		{"E,M", system.Collection{none, two}, "given", map[string]string{"where": "ERR", "exists": "ERR", "all": "ERR|F"}},
		{"T,E", system.Collection{one, none}, "given", map[string]string{"where": "T", "exists": "T", "all": "F"}},
		{"E,T", system.Collection{none, one}, "given", map[string]string{"where": "T", "exists": "T", "all": "F"}},
		{"T,T", system.Collection{one, one}, "given", map[string]string{"where": "T", "exists": "T", "all": "T"}},
		{"E,E", system.Collection{none, none}, "given", map[string]string{"where": "F", "exists": "F", "all": "F"}},
		{"F,M", system.Collection{one, two}, "given.count() > 5 and given", map[string]string{"where": "ERR", "exists": "ERR", "all": "ERR|F"}},
	} {
		n++
		if !env.Mine(n) {
			continue
		}
		eo := []fhirpath.EvaluateOption{evalopts.EnvVariable("ord", c.coll)}
		c06EnvProg(env, "criteria-order-where", "%ord.where("+c.crit+").exists()", c.want["where"], eo)
		c06EnvProg(env, "criteria-order-exists", "%ord.exists("+c.crit+")", c.want["exists"], eo)
		c06EnvProg(env, "criteria-order-all", "%ord.all("+c.crit+")", c.want["all"], eo)
		env.Cover("criteria-item-order")
	}
	// a collection read twice by one expression, with a criterion in between that some items fail
	for _, c := range [][2]string{{"%ft.exists($this) and %ft.all($this).not()", "T"}, {"%ft.all($this).not() and %ft.exists($this)", "T"}, {"%ft.where($this).count() = 1 and %ft.first().not()", "T"}, {"%ft.first().not() and %ft.where($this).count() = 1", "T"},
		{"%ft.where($this).exists() implies %ft.first()", "F"}, {"%ft.first() or %ft.where($this).exists()", "T"}, {"%ft.where($this).exists() xor %ft.first()", "T"}, {"%ft.first() xor %ft.where($this).exists()", "T"},
		{"%ft.exists($this) and %ft.first().not() and %ft.last()", "T"}, {"%ft.select($this.not()).first() and %ft.where($this).exists() and %ft.first().not()", "T"}} {
		n++
		if !env.Mine(n) {
			continue
		}
		eo := []fhirpath.EvaluateOption{evalopts.EnvVariable("ft", system.Collection{system.Boolean(false), system.Boolean(true)})}
		c06EnvProg(env, "collection-reread-after-criterion", c[0], c[1], eo)
		env.Cover("collection-reread-after-criterion")
	}
	// commutativity also holds when the expression is compiled with the (deprecated) Permissive option: whatever
	// that option changes about navigation, it changes for both operands alike
	in0, eo0 := c06Inputs()
	for _, a := range forms {
		for _, b := range forms {
			n++
			if !env.Mine(n) {
				continue
			}
			for _, op := range []string{"and", "or", "xor"} {
				l := fx.EvalK(env, "permissive", a.Src+" "+op+" "+b.Src, in0, []fhirpath.CompileOption{compopts.Permissive()}, eo0)
				r := fx.EvalK(env, "permissive", b.Src+" "+op+" "+a.Src, in0, []fhirpath.CompileOption{compopts.Permissive()}, eo0)
				env.Case()
				env.Cover("permissive-commutative")
				if l.IsPanic() || r.IsPanic() {
					continue // totality under options belongs to C01
				}
				if obs3(l) != obs3(r) {
					env.Violatef("C06/commutative/permissive/"+op, "compiled with compopts.Permissive(): `%s %s %s` = %s but `%s %s %s` = %s", a.Src, op, b.Src, obs3(l), b.Src, op, a.Src, obs3(r))
				}
			}
		}
	}
	// member-based criteria on the resource (FHIR element operands inside criteria)
	for _, c := range []struct{ src, want string }{
		{"Patient.where(active).exists()", "T"}, {"Patient.communication.where(preferred).count() = 1", "T"}, {"Patient.communication.all(preferred)", "F"},
		{"Patient.communication.exists(preferred)", "T"}, {"Patient.where(photo).exists()", "F"}, {"Patient.where(gender).exists()", "T"},
		{"Patient.where(name.given).exists()", "ERR"}, {"Patient.all(name.given)", "ERR"}, {"iif(Patient.name.given, true, false)", "ERR"},
		{"Patient.where(deceased).exists()", "F"}, {"Patient.where(deceased.not()).exists()", "T"},
	} {
		n++
		if env.Mine(n) {
			c06Prog(env, "criteria-member", c.src, c.want)
		}
	}
}

// c06Resource: operand forms taken from a generated resource of any type — FHIR boolean elements (also
// behind choices and extensions), non-Boolean singletons, multi-item paths, absent elements — combined
// pairwise under every operator, not(), iif and EvaluateAsBool.
func c06Resource(env *core.Env, tn string, seed uint64, rich bool) {
	defer env.In("gen", tn, seed, rich)()
	res, _ := genResource(tn, seed, rich)
	tree, err := model.BuildTree(res)
	if err != nil {
		env.Skip("resource-not-marshallable")
		return
	}
	var forms []form
	count := map[string]int{}
	add := func(src, val string) {
		if count[val] >= 3 {
			return
		}
		count[val]++
		forms = append(forms, form{src, val, "generated", true})
	}
	for _, nd := range tree.All() {
		if nd.Parent == nil || nd.Msg == nil || nd.Synth != nil || nd.UnderFresh() || len(nd.PathTo()) > 6 {
			continue
		}
		odd := false
		for _, nm := range nd.PathTo() {
			if lexicallyOdd(nm) {
				odd = true
			}
		}
		if odd {
			continue
		}
		path, ok := buildPath(tree, nd, "indexed")
		if !ok {
			continue
		}
		if nd.IsPrim && nd.MD != nil && nd.MD.Name() == "Boolean" {
			if b, isB := nd.JSON.(bool); isB {
				if b {
					add(path, "T")
				} else {
					add(path, "F")
				}
			}
			continue
		}
		if nd.IsPrim && nd.JSON == nil {
			continue // value-less primitive: what it counts as is outside the statement
		}
		add(path, "N")
		if sibs := nd.Parent.KidsNamed(nd.Name); len(sibs) >= 2 && sibs[0] == nd {
			if pp, ok2 := buildPath(tree, nd.Parent, "indexed"); ok2 || nd.Parent.Parent == nil {
				if nd.Parent.Parent == nil {
					pp = tree.Name
				}
				add(pp+"."+model.IdentSrc(nd.Name), "M")
			}
		}
	}
	add(tree.Name+".id.where(false)", "E")
	add("{}", "E")
	in := []fhir.Resource{res}
	run := func(kind, src, want string) {
		r := fx.Eval(env, src, in, nil, nil)
		env.Case()
		got := obs3(r)
		if got != want {
			if r.IsPanic() {
				env.Violatef(fx.PanicSig("C06", r), "`%s` on %s(seed %d) => %s", src, tn, seed, r.Short())
			} else {
				env.Violatef("C06/"+kind+"/want-"+want+"-got-"+got, "`%s` on %s(seed %d): expected %s, observed %s (%s)", src, tn, seed, want, got, trunc(r.Short(), 200))
			}
		}
	}
	notTab := map[string]string{"T": "F", "F": "T", "E": "E", "N": "F", "M": "ERR"}
	iifTab := map[string]string{"T": "T", "F": "F", "E": "F", "N": "T", "M": "ERR"}
	for _, a := range forms {
		env.Cover("gen-form:" + a.Val)
		run("not", "("+a.Src+").not()", notTab[a.Val])
		run("iif", "iif("+a.Src+", true, false)", iifTab[a.Val])
		for _, b := range forms {
			for _, op := range []string{"and", "or", "xor", "implies"} {
				run("binop-"+op, a.Src+" "+op+" "+b.Src, logic3(op, a.Val, b.Val))
				env.Distinct(op + "|" + tn + "|" + a.Val + b.Val + "|" + progShape(a.Src) + "|" + progShape(b.Src))
			}
		}
	}
	env.Cover("generated-resource")
}

func replayC06Gen(env *core.Env, a []json.RawMessage) {
	var tn string
	var seed uint64
	var rich bool
	json.Unmarshal(a[0], &tn)
	json.Unmarshal(a[1], &seed)
	json.Unmarshal(a[2], &rich)
	c06Resource(env, tn, seed, rich)
}

func c06EnvProg(env *core.Env, kind, src, want string, eo []fhirpath.EvaluateOption) {
	defer env.In("prog", kind, src, want)()
	r := fx.Eval(env, src, nil, nil, eo)
	env.Case()
	got := obs3(r)
	okAny := false
	for _, w := range strings.Split(want, "|") {
		if got == w {
			okAny = true
		}
	}
	if !okAny {
		if r.IsPanic() {
			env.Violatef(fx.PanicSig("C06", r), "`%s` => %s", src, r.Short())
		} else {
			env.Violatef("C06/"+kind+"/want-"+want+"-got-"+got, "`%s` with the operands supplied as environment variables: expected %s, observed %s (%s)", src, want, got, trunc(r.Short(), 200))
		}
	}
}

func c06Law(env *core.Env, law, lhs, rhs string) {
	defer env.In("prog", law, lhs, "law:"+rhs)()
	in, eo := c06Inputs()
	a := obs3(fx.Eval(env, lhs, in, nil, eo))
	b := obs3(fx.Eval(env, rhs, in, nil, eo))
	env.Case()
	if a != b {
		env.Violatef("C06/"+law+"/disagree", "`%s` = %s but `%s` = %s", lhs, a, rhs, b)
	}
}

func c06AsBool(env *core.Env, a form) {
	defer env.In("prog", "asbool", a.Src, a.Val)()
	in, eo := c06Inputs()
	ex, cr := fx.Compile(env, a.Src)
	if ex == nil {
		env.Violatef("C06/asbool/compile", "`%s` did not compile: %s", a.Src, cr.Short())
		return
	}
	var b bool
	var err error
	out := env.Guard("EvaluateAsBool "+a.Src, func() { b, err = ex.EvaluateAsBool(in, eo...) })
	env.Eval(1)
	env.Cover("asbool")
	want := map[string]string{"T": "true", "F": "false", "E": "false", "N": "true", "M": "ERR"}[a.Val]
	got := fmt.Sprint(b)
	if out.Panicked || out.Dead {
		got = "PANIC"
	} else if err != nil {
		got = "ERR"
	}
	if got != want {
		env.Violatef("C06/asbool/want-"+want+"-got-"+got, "EvaluateAsBool(`%s`): expected %s, observed %s (%v)", a.Src, want, got, err)
	}
}
