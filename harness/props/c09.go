package props

import (
	"encoding/json"
	"fmt"
	"math/big"
	"strings"
	"time"
	_ "time/tzdata"
	dtpb "github.com/google/fhir/go/proto/google/fhir/proto/r4/core/datatypes_go_proto"
	"github.com/verily-src/fhirpath-go/fhirpath"
	"github.com/verily-src/fhirpath-go/fhirpath/evalopts"

	"github.com/verily-src/fhirpath-go/fhirpath/verifharness/core"
	"github.com/verily-src/fhirpath-go/fhirpath/verifharness/fx"
	"github.com/verily-src/fhirpath-go/fhirpath/verifharness/model"
)

// C09 — date/time arithmetic matches calendar arithmetic and preserves precision.

func init() {
	core.Register(&core.Property{
		ID:   "C09",
		Rule: "Date/DateTime/Time literals over every precision x offsets {none,Z,+05:30,-11:00} x days (quick: month ends, leap day, year 0001/9999 edges; thorough: every day of 2019-03-01..2023-02-28) x every calendar keyword (singular, plural) and UCUM-style unit x amounts {0,1,11,12,13,23,24,25,29,30,31,52,53,59,60,61,104,360,364,365,366,729,730,1000,8640,8759,8760,1.5,0.5} x {+,-}; result compared with an independent proleptic-Gregorian model (type, precision, offset, value), and must equal the literal of its own rendering under `=`; monotonicity in the amount; (x+q)-q = x where the model says no clamping/truncation; non-temporal units must error; Quantity +,-,<,= only within one unit. fractional and huge amounts, Quantity elements with exponent-form amounts, now() arithmetic under OverrideTime in zones with daylight saving; distinct_nontrivial = distinct (type, precision, offset class, unit family, amount, sign) cases whose expected result differs from x",
		Assumptions: []string{"a sub-day unit added to a Date may be converted or rejected; definite UCUM codes may be rejected or treated like their keyword; results outside 0001..9999 may be error or empty",
			"fractional amounts: whole part used, except fractional seconds on second/millisecond precision (either reading accepted)"},
		Run:    runC09,
		Checks: map[string]func(*core.Env, []json.RawMessage){"arith": replayC09, "qty": replayC09Qty, "qtyelem": func(env *core.Env, a []json.RawMessage) { c09QuantityElements(env) }, "nowarith": func(env *core.Env, a []json.RawMessage) { c09NowArithmetic(env) }},
		Threshold: func(m *core.Merged) []string {
			var r []string
			for _, k := range []string{"kind:Date", "kind:DateTime", "kind:Time", "clamp", "finer-unit", "coarser-unit", "non-temporal-unit", "inverse-law", "monotone", "wrap-midnight", "offset-preserved", "quantity-arith"} {
				if m.Cover[k] == 0 {
					r = append(r, "never observed: "+k)
				}
			}
			return r
		},
	})
}

func litOf(t model.Temporal) string {
	if t.Kind == "Time" {
		return "@T" + t.String()
	}
	return "@" + t.String()
}

// c09Arith evaluates `x op amt unit` and judges it; returns the observed temporal (if any).
func c09Arith(env *core.Env, kind, xText, amount, unit string, sign int) (model.Temporal, bool) {
	defer env.In("arith", kind, xText, amount, unit, sign)()
	env.Case()
	x, ok := model.ParseTemporal(kind, xText)
	if !ok {
		env.Skip("harness-literal-unparsed")
		return model.Temporal{}, false
	}
	op := "+"
	if sign < 0 {
		op = "-"
	}
	q := amount + " " + unit
	if strings.HasPrefix(amount, "-") {
		q = "-" + strings.TrimPrefix(amount, "-") + " " + unit
	}
	src := litOf(x) + " " + op + " " + q
	r := fx.E(env, src)
	env.Cover("kind:" + kind)
	amt, _ := new(big.Rat).SetString(amount)
	u := strings.Trim(unit, "'")
	res := model.AddQuantity(x, amt, u, sign)
	ui, isTime := model.TimeUnit(u)
	rel := "non-temporal"
	if isTime {
		rel = "coarser-unit"
		pr := x.Comps
		if kind == "Time" {
			pr += 3
		}
		if ui.Rank > pr {
			rel = "finer-unit"
		}
		env.Cover(rel)
	} else {
		env.Cover("non-temporal-unit")
	}
	cls := fmt.Sprintf("%s/p%d/%s/%s", kind, x.Comps, unitFam(u), rel)
	if r.IsPanic() {
		env.Violatef(fx.PanicSig("C09", r), "`%s` => %s", src, r.Short())
		return model.Temporal{}, false
	}
	if res.MustError {
		if !r.IsError() {
			pred := "value"
			if it, ok := r.Single(); ok {
				if g, ok2 := model.ParseTemporal(kind, it.T); ok2 && model.SameTemporal(g, x, 3) {
					pred = "unchanged-value"
				}
			} else if r.Empty() {
				pred = "empty"
			}
			env.Violatef("C09/"+cls+"/no-error/"+pred, "`%s`: a non-temporal or inapplicable unit must be an error, observed %s", src, trunc(r.Short(), 120))
		}
		return model.Temporal{}, false
	}
	if res.OutOfRange {
		return model.Temporal{}, false // outside 0001..9999: the statement does not constrain the outcome
	}
	if r.IsError() {
		// the library documents a bound on the amount (10^8 in the unit the addition is carried out in): refusing a huge
		// amount is an orderly outcome, a wrong sum is not
		if am, ok := model.ParseNum(amount); ok && new(big.Rat).Abs(am).Cmp(big.NewRat(99999, 1)) > 0 && strings.Contains(r.Err.Error(), "out of range") {
			env.Cover("amount-bound-refused")
			return model.Temporal{}, false
		}
		if !(res.MayError || res.OutOfRange) {
			env.Violatef("C09/"+cls+"/unexpected-error", "`%s`: expected %s, observed %s", src, res.Value, trunc(r.Short(), 140))
		}
		return model.Temporal{}, false
	}
	if r.Empty() {
		if !res.OutOfRange {
			env.Violatef("C09/"+cls+"/unexpected-empty", "`%s`: expected %s, observed empty", src, res.Value)
		}
		return model.Temporal{}, false
	}
	it, ok := r.Single()
	if !ok || it.K != kind {
		env.Violatef("C09/"+cls+"/wrong-type", "`%s`: expected a %s, observed %s", src, kind, trunc(r.Short(), 120))
		return model.Temporal{}, false
	}
	got, okg := model.ParseTemporal(kind, it.T)
	if !okg {
		env.Violatef("C09/"+cls+"/unparsable-result", "`%s` => %s", src, it)
		return model.Temporal{}, false
	}
	if res.OutOfRange {
		return got, true
	}
	if got.Comps != x.Comps || (got.Frac == "") != (x.Frac == "") {
		env.Violatef("C09/"+cls+"/precision-changed", "`%s`: result %s does not keep the precision of the operand", src, it.T)
		return got, true
	}
	if got.HasTZ != x.HasTZ || got.TZMin != x.TZMin {
		env.Violatef("C09/"+cls+"/offset-changed", "`%s`: result %s does not keep the offset of the operand", src, it.T)
		return got, true
	}
	if x.HasTZ && x.TZMin != 0 {
		env.Cover("offset-preserved")
	}
	match := model.SameTemporal(res.Value, got, 3)
	for _, a := range res.Alt {
		if model.SameTemporal(a, got, 3) {
			match = true
		}
	}
	if !match {
		pred := "other-value"
		if model.SameTemporal(got, x, 3) {
			pred = "unchanged-value"
		}
		env.Violatef("C09/"+cls+"/wrong-value/"+pred, "`%s`: calendar model gives %s, observed %s", src, res.Value, it.T)
		return got, true
	}
	// the result is that value also for the operators: it equals the literal of its own rendering
	lit := "@" + it.T
	if kind == "Time" {
		lit = "@T" + it.T
	}
	if eq := fx.E(env, "("+src+") = "+lit); eq.Bool3() != "true" && !eq.IsPanic() {
		env.Violatef("C09/"+cls+"/result-not-equal-to-its-rendering", "`%s` renders as %s, but `(%s) = %s` is %s", src, it.T, src, lit, trunc(eq.Short(), 80))
		return got, true
	}
	env.Cover("result-equals-rendering")
	if res.Clamped {
		env.Cover("clamp")
	}
	if kind == "Time" && rel == "coarser-unit" {
		env.Cover("wrap-midnight")
	}
	if !model.SameTemporal(res.Value, x, 3) {
		env.Distinct(fmt.Sprintf("%s|p%d|tz%v|%s|%s|%d", kind, x.Comps, x.HasTZ, unitFam(u), amount, sign))
	}
	env.SampleSpread(src, map[string]string{"program": src, "model": res.Value.String(), "observed": it.T})
	// inverse law
	if !res.Clamped && !res.Truncated && !res.MayError && sign > 0 {
		back := fx.E(env, "("+src+") - "+q)
		env.Cover("inverse-law")
		if bi, ok := back.Single(); !ok {
			env.Violatef("C09/"+cls+"/inverse-law", "`(%s) - %s` => %s, expected %s", src, q, trunc(back.Short(), 100), x)
		} else if bt, ok2 := model.ParseTemporal(kind, bi.T); !ok2 || !model.SameTemporal(bt, x, 3) {
			env.Violatef("C09/"+cls+"/inverse-law", "`(%s) - %s` = %s, expected %s", src, q, bi.T, x)
		}
	}
	return got, true
}

func unitFam(u string) string {
	if ui, ok := model.TimeUnit(u); ok {
		k := "ucum"
		if ui.Keyword {
			k = "kw"
		}
		return ui.Family + ":" + k
	}
	return "non-temporal"
}

func replayC09(env *core.Env, a []json.RawMessage) {
	var kind, x, amount, unit string
	var sign int
	json.Unmarshal(a[0], &kind)
	json.Unmarshal(a[1], &x)
	json.Unmarshal(a[2], &amount)
	json.Unmarshal(a[3], &unit)
	json.Unmarshal(a[4], &sign)
	c09Arith(env, kind, x, amount, unit, sign)
}

var c09Units = []string{"year", "years", "month", "months", "week", "weeks", "day", "days", "hour", "hours", "minute", "minutes", "second", "seconds", "millisecond", "milliseconds",
	"'a'", "'mo'", "'wk'", "'d'", "'h'", "'min'", "'s'", "'ms'", "'mg'", "'1'", "'kg'"}
var c09Amounts = []string{"0", "1", "11", "12", "13", "23", "24", "25", "59", "60", "61", "365", "366", "1000", "1.5", "0.5",
	// just below and at the multiples of the 30-day month and the 365-day year in days, weeks and hours
	"29", "30", "31", "52", "53", "104", "360", "364", "729", "730", "8640", "8759", "8760",
	// negative amounts, whole and fractional (the fraction is dropped towards zero, then the sign applies)
	"-1", "-1.5", "-0.5", "-13", "-2.999",
	// fractions that have no exact binary representation (a fractional second is either dropped or applied exactly)
	"1.001", "1.005", "2.003", "0.007", "2.999", "0.001", "1.009",
	// amounts whose sub-day span exceeds what a 64-bit nanosecond count holds (292 years)
	"2562047", "2562048", "3000000",
	// multiples of four (leap day + n years lands on a year that may or may not be a leap year: 2100, 1900, 2400)
	"4", "8", "76", "80", "96", "100", "200", "400"}

func c09Values(env *core.Env) [][2]string {
	var out [][2]string
	var days [][3]int
	if env.Quick() {
		days = [][3]int{{2020, 1, 31}, {2020, 2, 29}, {2021, 2, 28}, {2020, 12, 31}, {2021, 1, 1}, {2020, 3, 31}, {2020, 8, 31}, {1, 1, 1}, {9999, 12, 31}, {2019, 6, 15}, {2000, 2, 29}, {2096, 2, 29}, {1904, 2, 29}}
	} else {
		start := model.DaysFromCivil(2019, 3, 1)
		end := model.DaysFromCivil(2023, 2, 28)
		for d := start; d <= end; d++ {
			y, m, dd := model.CivilFromDays(d)
			days = append(days, [3]int{y, m, dd})
		}
		days = append(days, [3]int{1, 1, 1}, [3]int{9999, 12, 31}, [3]int{1, 12, 31}, [3]int{9999, 1, 1})
	}
	offs := []string{"", "Z", "+05:30", "-11:00"}
	rng := env.Rng("values")
	for i, d := range days {
		full := env.Quick() || i%53 == 0 || d[2] >= 28 || d[2] == 1
		out = append(out, [2]string{"Date", fmt.Sprintf("%04d-%02d-%02d", d[0], d[1], d[2])})
		h, mi, s := []int{0, 10, 23}[rng.Intn(3)], []int{0, 30, 59}[rng.Intn(3)], []int{0, 45, 59}[rng.Intn(3)]
		o := offs[rng.Intn(4)]
		out = append(out, [2]string{"DateTime", fmt.Sprintf("%04d-%02d-%02dT%02d:%02d:%02d%s", d[0], d[1], d[2], h, mi, s, o)})
		if !full {
			continue
		}
		out = append(out, [2]string{"Date", fmt.Sprintf("%04d", d[0])}, [2]string{"Date", fmt.Sprintf("%04d-%02d", d[0], d[1])})
		out = append(out, [2]string{"DateTime", fmt.Sprintf("%04dT", d[0])}, [2]string{"DateTime", fmt.Sprintf("%04d-%02dT", d[0], d[1])}, [2]string{"DateTime", fmt.Sprintf("%04d-%02d-%02dT", d[0], d[1], d[2])})
		for _, o2 := range offs {
			out = append(out, [2]string{"DateTime", fmt.Sprintf("%04d-%02d-%02dT%02d%s", d[0], d[1], d[2], h, o2)},
				[2]string{"DateTime", fmt.Sprintf("%04d-%02d-%02dT%02d:%02d%s", d[0], d[1], d[2], h, mi, o2)},
				[2]string{"DateTime", fmt.Sprintf("%04d-%02d-%02dT%02d:%02d:%02d.%03d%s", d[0], d[1], d[2], h, mi, s, rng.Intn(1000), o2)})
		}
	}
	for _, t := range []string{"08", "23", "00", "08:30", "23:30", "00:00", "08:30:15", "23:59:59", "00:00:00", "12:00:00.000", "23:59:59.999", "08:30:15.250"} {
		out = append(out, [2]string{"Time", t})
	}
	return out
}

func runC09(env *core.Env) {
	vals := c09Values(env)
	rng := env.Rng("cases")
	n := 0
	for _, v := range vals {
		// quick: every unit x every amount for a rotating subset; thorough: seeded subset per value (the value space is large)
		for ui, u := range c09Units {
			for ai, a := range c09Amounts {
				for _, sign := range []int{1, -1} {
					take := true
					if !env.Quick() && v[0] != "Time" {
						take = rng.Intn(6) == 0
					} else if env.Quick() {
						take = rng.Intn(3) == 0 || (ui+ai)%5 == 0
					}
					n++
					if !take || !env.Mine(n) {
						continue
					}
					c09Arith(env, v[0], v[1], a, u, sign)
				}
			}
		}
		// negative amount and monotonicity on calendar keywords (not for Time: it wraps)
		n++
		if env.Mine(n) {
			c09Arith(env, v[0], v[1], "-1", c09Units[rng.Intn(16)], 1)
			if v[0] != "Time" {
				c09Monotone(env, v[0], v[1], c09Units[rng.Intn(16)])
			}
		}
	}
	c09Quantities(env)
	if env.Shard == 1%env.NShards {
		c09QuantityElements(env)
	}
	if env.Shard == 2%env.NShards {
		c09NowArithmetic(env)
	}
	if env.Shard == 3%env.NShards {
		c09Chains(env)
	}
}

// c09Chains: `x + q + q` is `(x + q) + q`: each step is the single operation (decided by the model above) applied
// to the previous step's result, whatever the operands are (clamping and truncation happen per step).
func c09Chains(env *core.Env) {
	defer env.In("chains")()
	env.Case()
	for _, x := range []string{"@2020-01-31", "@2020", "@2020-01-01", "@2020-01", "@2019-12-31", "@2020-01-31T10:00:00Z", "@2020-02-29", "@2020-02-29T23:30:00+05:30", "@T23:30", "@2020-03T"} {
		for _, q := range []string{"1 month", "6 months", "1.5 days", "1 year", "18 months", "1 week", "36 hours", "0.5 years", "30 minutes", "1.5 months", "45 days", "1 'mo'", "1 'd'"} {
			for _, ops := range [][2]string{{"+", "+"}, {"-", "-"}, {"+", "-"}, {"-", "+"}} {
				chain := x + " " + ops[0] + " " + q + " " + ops[1] + " " + q
				step := "(" + x + " " + ops[0] + " " + q + ") " + ops[1] + " " + q
				rc, rs := fx.E(env, chain), fx.E(env, step)
				env.Cover("chain-vs-steps")
				if rc.IsPanic() {
					env.Violatef(fx.PanicSig("C09", rc), "`%s` => %s", chain, rc.Short())
					continue
				}
				if !fx.Same(rc, rs) {
					env.Violatef("C09/chain/differs-from-steps", "`%s` = %s but `%s` = %s", chain, trunc(rc.Short(), 80), step, trunc(rs.Short(), 80))
				}
				// three steps
				chain3, step3 := chain+" "+ops[0]+" "+q, "("+step+") "+ops[0]+" "+q
				r3, s3 := fx.E(env, chain3), fx.E(env, step3)
				if !r3.IsPanic() && !fx.Same(r3, s3) {
					env.Violatef("C09/chain/differs-from-steps", "`%s` = %s but `%s` = %s", chain3, trunc(r3.Short(), 80), step3, trunc(s3.Short(), 80))
				}
			}
		}
	}
}

func c09Monotone(env *core.Env, kind, xText, unit string) {
	var prev *model.Temporal
	prevAmt := ""
	for _, a := range []string{"0", "1", "11", "12", "13", "24", "25", "60", "61", "365", "366", "1000"} {
		got, ok := c09Arith(env, kind, xText, a, unit, 1)
		if !ok {
			continue
		}
		if prev != nil {
			env.Cover("monotone")
			rel := model.Compare(model.CVal{Kind: kind, T: *prev}, model.CVal{Kind: kind, T: got})
			if rel == "gt" {
				env.In("arith", kind, xText, a, unit, 1)
				env.Violatef("C09/"+kind+"/monotone", "@%s + %s %s = %s is later than @%s + %s %s = %s", xText, prevAmt, unit, prev, xText, a, unit, got)
			}
		}
		g := got
		prev, prevAmt = &g, a
	}
}

func c09QtyCheck(env *core.Env, a, op, b string) {
	defer env.In("qty", a, op, b)()
	env.Case()
	src := a + " " + op + " " + b
	r := fx.E(env, src)
	env.Cover("quantity-arith")
	ma, _ := model.ParseLiteral(a)
	mb, _ := model.ParseLiteral(b)
	if r.IsPanic() {
		env.Violatef(fx.PanicSig("C09", r), "`%s` => %s", src, r.Short())
		return
	}
	same := ma.Unit == mb.Unit
	if op == "=" || op == "!=" || op == "<" || op == ">=" {
		// comparable only within one unit (different spellings of one duration are left open)
		related := unitFam(ma.Unit) != "non-temporal" && strings.Split(unitFam(ma.Unit), ":")[0] == strings.Split(unitFam(mb.Unit), ":")[0]
		if !same && !related && !r.Empty() && !r.IsError() {
			env.Violatef("C09/quantity/"+op+"/different-units-decided", "`%s`: quantities of different units have no defined comparison, observed %s", src, trunc(r.Short(), 80))
		}
		if same {
			c := ma.N.Cmp(mb.N)
			want := map[string]bool{"=": c == 0, "!=": c != 0, "<": c < 0, ">=": c >= 0}[op]
			if r.Bool3() != fmt.Sprint(want) {
				env.Violatef("C09/quantity/"+op+"/wrong-comparison", "`%s`: expected %v, observed %s", src, want, trunc(r.Short(), 80))
			}
		}
		return
	}
	if op == "+" || op == "-" {
		if !same {
			// different spellings of one duration are left open
			if r.IsValue() && len(r.Items) > 0 && !(unitFam(ma.Unit) != "non-temporal" && strings.Split(unitFam(ma.Unit), ":")[0] == strings.Split(unitFam(mb.Unit), ":")[0]) {
				env.Violatef("C09/quantity/"+op+"/different-units-give-value", "`%s`: quantities of different units must not combine, observed %s", src, trunc(r.Short(), 100))
			}
			return
		}
		want := new(big.Rat).Add(ma.N, mb.N)
		if op == "-" {
			want = new(big.Rat).Sub(ma.N, mb.N)
		}
		it, ok := r.Single()
		if !ok || it.K != "Quantity" {
			env.Violatef("C09/quantity/"+op+"/no-quantity", "`%s`: expected %s %s, observed %s", src, want.RatString(), ma.Unit, trunc(r.Short(), 100))
			return
		}
		num, unit, _ := strings.Cut(it.T, " ")
		g, okn := model.ParseNum(num)
		if !okn || g.Cmp(want) != 0 || unit != ma.Unit {
			env.Violatef("C09/quantity/"+op+"/wrong-value", "`%s`: expected %s %s, observed %s", src, want.RatString(), ma.Unit, it.T)
		}
		env.Distinct("qty|" + src)
	}
}

func replayC09Qty(env *core.Env, x []json.RawMessage) {
	var a, op, b string
	json.Unmarshal(x[0], &a)
	json.Unmarshal(x[1], &op)
	json.Unmarshal(x[2], &b)
	c09QtyCheck(env, a, op, b)
}

// c09QuantityElements: the amount of a Quantity *element* may be written in exponent form; it is the same amount.
func c09QuantityElements(env *core.Env) {
	defer env.In("qtyelem")()
	env.Case()
	for _, c := range []struct {
		val string
		n   int
	}{{"1e3", 1000}, {"1E+2", 100}, {"10e1", 100}, {"1.5e1", 15}, {"1000", 1000}, {"2e0", 2}, {"12", 12}, {"0.1e2", 10}, {"25e-1", 2}} {
		for _, u := range []string{"days", "day", "hours", "months", "years", "weeks", "minutes"} {
			for _, x := range []string{"@2020-01-31", "@2020-01-31T10:30:00Z", "@2019-02-28T23:59:59.999+05:30", "@T10:30"} {
				if strings.HasPrefix(x, "@T") && (u == "days" || u == "day" || u == "months" || u == "years" || u == "weeks") {
					continue
				}
				if c.n >= 1000 && u == "years" {
					continue
				}
				q := &dtpb.Quantity{Value: &dtpb.Decimal{Value: c.val}, Unit: &dtpb.String{Value: u}, Code: &dtpb.Code{Value: u}}
				for _, op := range []string{"+", "-"} {
					re := fx.Eval(env, x+" "+op+" %q", nil, nil, []fhirpath.EvaluateOption{evalopts.EnvVariable("q", q)})
					rl := fx.E(env, fmt.Sprintf("%s %s %d %s", x, op, c.n, u))
					env.Cover("quantity-element-amount")
					if re.IsPanic() {
						env.Violatef(fx.PanicSig("C09", re), "`%s %s %%q` with q = Quantity{value %q, unit %s} => %s", x, op, c.val, u, re.Short())
						continue
					}
					if !fx.Same(re, rl) {
						env.Violatef("C09/quantity-element/amount-differs-from-literal", "`%s %s %%q` with q = Quantity element {value %q, unit %s} gives %s; `%s %s %d %s` gives %s", x, op, c.val, u, trunc(re.Short(), 80), x, op, c.n, u, trunc(rl.Short(), 80))
					}
				}
			}
		}
	}
}

// c09NowArithmetic: now() is a DateTime with the offset the evaluation instant carries; arithmetic on it is arithmetic
// on that literal (the location's other rules - daylight saving - play no part).
func c09NowArithmetic(env *core.Env) {
	defer env.In("nowarith")()
	env.Case()
	for _, zn := range []string{"America/New_York", "Europe/Berlin", "Australia/Lord_Howe", "UTC", "Asia/Kolkata"} {
		loc, err := time.LoadLocation(zn)
		if err != nil {
			env.Skip("zone-not-available")
			continue
		}
		for _, t := range []time.Time{time.Date(2024, 3, 9, 12, 30, 15, 250000000, loc), time.Date(2024, 11, 2, 1, 30, 0, 0, loc), time.Date(2024, 3, 30, 23, 59, 59, 999000000, loc), time.Date(2024, 7, 1, 0, 0, 0, 0, loc)} {
			_, off := t.Zone()
			sgn := "+"
			if off < 0 {
				sgn, off = "-", -off
			}
			lit := fmt.Sprintf("@%s%s%02d:%02d", t.Format("2006-01-02T15:04:05.000"), sgn, off/3600, off%3600/60)
			o := []fhirpath.EvaluateOption{evalopts.OverrideTime(t)}
			for _, q := range []string{"1 day", "24 hours", "1 month", "6 months", "1 week", "36 hours", "1 year", "90 minutes", "250 days"} {
				for _, op := range []string{"+", "-"} {
					rn := fx.Eval(env, "now() "+op+" "+q, nil, nil, o)
					rl := fx.E(env, lit+" "+op+" "+q)
					env.Cover("now-arithmetic")
					if rn.IsPanic() {
						env.Violatef(fx.PanicSig("C09", rn), "`now() %s %s` with OverrideTime(%s) => %s", op, q, t.Format(time.RFC3339Nano), rn.Short())
						continue
					}
					if !fx.Same(rn, rl) {
						env.Violatef("C09/now-arithmetic/differs-from-literal", "`now() %s %s` with OverrideTime(%s in %s) = %s; `%s %s %s` = %s", op, q, t.Format(time.RFC3339Nano), zn, trunc(rn.Short(), 80), lit, op, q, trunc(rl.Short(), 80))
					}
				}
			}
		}
	}
}

func c09Quantities(env *core.Env) {
	qs := []string{"1 'mg'", "2.5 'mg'", "0 'mg'", "1 'kg'", "3 days", "1 day", "2 years", "1 'wk'", "10 'cm'", "1.5 'cm'", "100 '1'", "7 '1'", "1 'ms'", "1 'm'", "2 's'", "3 'g'", "3 'gs'", "4 'mgs'", "2 'as'"}
	n := 0
	for _, a := range qs {
		for _, b := range qs {
			for _, op := range []string{"+", "-", "=", "!=", "<", ">="} {
				n++
				if env.Mine(n) {
					c09QtyCheck(env, a, op, b)
				}
			}
		}
	}
}
