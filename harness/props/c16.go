package props

import (
	"encoding/json"
	"errors"
	"fmt"
	"reflect"
	"regexp"
	"strings"

	"github.com/verily-src/fhirpath-go/fhirpath"
	"github.com/verily-src/fhirpath-go/fhirpath/compopts"
	"github.com/verily-src/fhirpath-go/fhirpath/internal/funcs"
	"github.com/verily-src/fhirpath-go/fhirpath/internal/funcs/impl"
	"github.com/verily-src/fhirpath-go/fhirpath/system"
	"github.com/verily-src/fhirpath-go/fhirpath/verifharness/core"
	"github.com/verily-src/fhirpath-go/fhirpath/verifharness/fx"
)

// C16 — every built-in function is callable under its specification name and arity.

func init() {
	core.Register(&core.Property{
		ID:         "C16",
		Exhaustive: true,
		Rule:       "exhaustive: (names of the base and experimental tables ∪ N1/R4 specification list) x argument counts 0..4 x {default, WithExperimentalFuncs}; Compile acceptance must equal (name in table ∧ count within the table's bounds); accepted calls never fail with ErrWrongArity, on the specification receiver and on receivers of every System / FHIR kind; an accepted call is also accepted as a right operand, inside an indexer, as an argument, inside a criterion and in parentheses; every implemented specification function is accepted with each count the specification allows and its specification examples evaluate to true; unimplemented ones yield an error. process-wide table names, rejected calls in 71 positions, names outside the table with type-like arguments, unimplemented names on fourteen receivers, chains of up to 130 calls; distinct_nontrivial = distinct (name, count, configuration) triples plus distinct fingerprint programs",
		Assumptions: []string{"the list of implemented functions is pinned to the specification functions implemented at the time of writing (DESIGN 5.16); removing one is reported",
			"fingerprints are specification examples; they do not depend on Go function names"},
		Run:    runC16,
		Checks: map[string]func(*core.Env, []json.RawMessage){"call": replayC16},
		Threshold: func(m *core.Merged) []string {
			var r []string
			if m.Cover["table-names"] < 70 {
				r = append(r, fmt.Sprintf("only %d table names observed", m.Cover["table-names"]))
			}
			for _, k := range []string{"accepted", "rejected", "fingerprint", "unimplemented", "experimental-name-rejected-by-default-after-history", "experimental-with-custom-function", "empty-literal-argument"} {
				if m.Cover[k] == 0 {
					r = append(r, "never observed: "+k)
				}
			}
			return r
		},
	})
}

// callSrc builds `recv.name(args…)` with n well-typed arguments.
func callSrc(name string, n int) string {
	sp := specByName(name)
	recv, args := "%multi", []string{"1", "1", "1", "1"}
	if sp != nil {
		recv = sp.Recv
		args = append(append([]string{}, sp.Args...), "1", "1", "1", "1")
	}
	call := name + "(" + strings.Join(args[:n], ", ") + ")"
	if recv == "" {
		return call
	}
	return recv + "." + call
}

func c16Call(env *core.Env, name string, n int, experimental bool, inTable bool, min, max int) {
	defer env.In("call", name, n, experimental, inTable, min, max)()
	in, eo := stdInputs()
	var co []fhirpath.CompileOption
	cfg := "default"
	if experimental {
		co = append(co, compopts.WithExperimentalFuncs())
		cfg = "experimental"
	}
	src := callSrc(name, n)
	env.Case()
	env.Distinct(fmt.Sprintf("%s/%d/%s", name, n, cfg))
	ex, cr := fx.Compile(env, src, co...)
	wantAccept := inTable && n >= min && n <= max
	if cr.IsPanic() {
		env.Violatef(fx.PanicSig("C16", cr), "Compile(`%s`) => %s", src, cr.Short())
		return
	}
	accepted := ex != nil
	if accepted != wantAccept {
		kind := "compile-rejected"
		if accepted {
			kind = "compile-accepted"
		}
		env.Violatef(fmt.Sprintf("C16/%s/%s/%d", kind, name, n), "`%s` [%s]: Compile accepted=%v but table says inTable=%v bounds=[%d,%d]: %s", src, cfg, accepted, inTable, min, max, cr.Short())
		return
	}
	// the same count with the empty-collection literal as (last) argument(s): the count written in the call decides
	if n >= 1 && inTable {
		sp := specByName(name)
		recv := "%multi"
		if sp != nil {
			recv = sp.Recv
		}
		for _, form := range []string{"last", "all"} {
			args := make([]string, n)
			for i := range args {
				args[i] = "1"
				if sp != nil && i < len(sp.Args) {
					args[i] = sp.Args[i]
				}
				if form == "all" || i == n-1 {
					args[i] = "{}"
				}
			}
			esrc := name + "(" + strings.Join(args, ", ") + ")"
			if recv != "" {
				esrc = recv + "." + esrc
			}
			eex, ecr := fx.Compile(env, esrc, co...)
			env.Cover("empty-literal-argument")
			if ecr.IsPanic() {
				env.Violatef(fx.PanicSig("C16", ecr), "Compile(`%s`) => %s", esrc, ecr.Short())
			} else if (eex != nil) != wantAccept {
				kind := "compile-rejected"
				if eex != nil {
					kind = "compile-accepted"
				}
				env.Violatef(fmt.Sprintf("C16/%s/%s/%d/empty-literal-argument", kind, name, n), "`%s` [%s] (%d argument(s) written): Compile accepted=%v but the table bounds are [%d,%d]: %s", esrc, cfg, n, eex != nil, min, max, trunc(ecr.Short(), 120))
			}
		}
	}
	if !accepted {
		env.Cover("rejected")
		// a name that is not in the table is not a function, whatever its arguments look like (type names included)
		if !inTable && n == 1 {
			for _, alt := range []string{"Patient.%s(Patient)", "1.%s(Integer)", "Patient.%s(FHIR.Patient)", "'a'.%s(System.String)", "Patient.name.%s(HumanName)", "%s(Patient)", "Patient.%s($this)", "Patient.%s(name)"} {
				asrc := fmt.Sprintf(alt, name)
				aex, acr := fx.Compile(env, asrc, co...)
				env.Cover("rejected-with-type-argument")
				if acr.IsPanic() {
					env.Violatef(fx.PanicSig("C16", acr), "Compile(`%s`) => %s", asrc, acr.Short())
				} else if aex != nil {
					env.Violatef(fmt.Sprintf("C16/compile-accepted/%s/1/not-in-table", name), "`%s` [%s]: %q is not in the function table but Compile accepts the call", asrc, cfg, name)
					break
				}
			}
		}
		// a call Compile rejects is rejected wherever it stands: as either operand of every binary operator, in an
		// indexer, as an argument, in a criterion, in parentheses
		if !strings.Contains(src, "$") {
			positions := []string{"((%s))", "iif(true, %s)", "%%multi[%s]", "%%multi.where(%s)", "%%multi.select(%s)", "-(%s)", "(%s).count()", "(%s) is Integer"}
			for _, op := range []string{"=", "!=", "<", "<=", ">", ">=", "+", "-", "&", "*", "/", "div", "mod", "and", "or", "xor", "implies", "|", "in", "contains", "~"} {
				positions = append(positions, "1 "+op+" %s", "%s "+op+" 1", "Patient.active "+op+" (%s)")
			}
			for _, pos := range positions {
				psrc := strings.ReplaceAll(strings.ReplaceAll(pos, "%s", src), "%%", "%")
				pex, pcr := fx.Compile(env, psrc, co...)
				env.Cover("rejected-in-position")
				if pcr.IsPanic() {
					env.Violatef(fx.PanicSig("C16", pcr), "Compile(`%s`) => %s", psrc, pcr.Short())
				} else if pex != nil {
					env.Violatef(fmt.Sprintf("C16/compile-accepted-in-position/%s/%d", name, n), "`%s` [%s] is rejected by Compile, but the same call inside `%s` is accepted", src, cfg, psrc)
					break
				}
			}
		}
		return
	}
	env.Cover("accepted")
	r := fx.Evaluate(env, ex, in, eo...)
	if r.IsPanic() {
		env.Violatef(fx.PanicSig("C16", r), "`%s` => %s", src, r.Short())
		return
	}
	if r.IsError() && errors.Is(r.Err, impl.ErrWrongArity) {
		env.Violatef(fmt.Sprintf("C16/arity-error-after-accept/%s/%d", name, n), "`%s` [%s] was accepted by Compile but evaluation fails with an arity complaint: %v", src, cfg, r.Err)
	}
	{
		// the same call directly after another call that takes a criterion (two adjacent calls stay two calls)
		if sp := specByName(name); sp != nil && sp.Recv == "%multi" && strings.HasPrefix(src, "%multi.") {
			call := strings.TrimPrefix(src, "%multi.")
			for _, pre := range []string{"%multi.where($this > 0)", "%multi.select($this)", "%multi.where(true).where(true)", "%multi.skip(0)", "%multi.exists($this > 0).select(%multi)"} {
				rr := fx.Eval(env, pre+"."+call, in, co, eo)
				env.Cover("accepted-after-criterion-call")
				if rr.IsPanic() {
					env.Violatef(fx.PanicSig("C16", rr), "`%s.%s` => %s", pre, call, rr.Short())
				} else if rr.Kind == "cerror" {
					env.Violatef(fmt.Sprintf("C16/compile-rejected-in-position/%s/%d", name, n), "`%s` [%s] compiles, but `%s.%s` does not: %s", src, cfg, pre, call, trunc(rr.Short(), 160))
					break
				} else if rr.Kind == "error" && errors.Is(rr.Err, impl.ErrWrongArity) {
					env.Violatef(fmt.Sprintf("C16/arity-error-after-accept/%s/%d", name, n), "`%s.%s` [%s] was accepted by Compile but evaluation fails with an arity complaint: %v", pre, call, cfg, rr.Err)
					break
				}
			}
		}
	}
	// the same accepted call in other syntactic positions (right operand, indexer, argument, criterion, parentheses):
	// whether a name resolves does not depend on where the call stands
	if sp := specByName(name); !strings.Contains(src, "$") && (sp == nil || sp.Recv != "") {
		if i := strings.Index(src, name+"("); i >= 0 {
			for _, gap := range []string{" ", "\n", "\t", " /* c */ ", "/* c */", " // c\n", "  \n  "} {
				gsrc := src[:i] + name + gap + "(" + src[i+len(name)+1:]
				gex, gcr := fx.Compile(env, gsrc, co...)
				env.Cover("accepted-with-gap-before-parenthesis")
				if gcr.IsPanic() {
					env.Violatef(fx.PanicSig("C16", gcr), "Compile(`%s`) => %s", gsrc, gcr.Short())
				} else if gex == nil {
					env.Violatef(fmt.Sprintf("C16/compile-rejected-with-gap/%s/%d", name, n), "`%s` [%s] compiles, but with %q between the name and the parenthesis it does not: %s", src, cfg, gap, trunc(gcr.Short(), 160))
					break
				}
			}
		}
		for _, pos := range []string{"'x' & (%s).count().toString()", "1 = 1 and (%s).exists()", "(%s).exists() or false", "%%multi[(%s).count()]", "iif(true, %s)", "%%multi.where((%s).exists() or true)", "((%s))", "-1 + (%s).count()", "(%s).count() = (%s).count()"} {
			psrc := strings.ReplaceAll(pos, "%s", src)
			psrc = strings.ReplaceAll(psrc, "%%", "%")
			pex, pcr := fx.Compile(env, psrc, co...)
			env.Cover("accepted-in-position")
			if pcr.IsPanic() {
				env.Violatef(fx.PanicSig("C16", pcr), "Compile(`%s`) => %s", psrc, pcr.Short())
			} else if pex == nil {
				env.Violatef(fmt.Sprintf("C16/compile-rejected-in-position/%s/%d", name, n), "`%s` [%s] compiles, but the same call inside `%s` does not: %s", src, cfg, psrc, trunc(pcr.Short(), 160))
				break
			}
		}
	}
	// the same accepted call on receivers of every kind: an implementation that forwards its arguments to a
	// stricter sibling for some input types complains about arity only there
	if sp := specByName(name); !experimental || (sp != nil && sp.Exp) {
		recv := "%multi"
		if sp != nil {
			recv = sp.Recv
		}
		if recv != "" && !strings.Contains(src, "$") {
			call := strings.TrimPrefix(src, recv+".")
			for _, rc := range []string{"5", "1.5", "true", "'abc'", "'5 mg'", "(5 'mg')", "@2020-01-01", "@2020-01-01T10:00:00Z", "@T10:30", "%fint", "%fdec", "%fbool", "%fstr", "%fqty", "%fdate", "%name", "{}"} {
				if rc == recv {
					continue
				}
				rr := fx.Eval(env, rc+"."+call, in, co, eo)
				env.Cover("accepted-other-receiver")
				if rr.IsPanic() {
					env.Violatef(fx.PanicSig("C16", rr), "`%s.%s` => %s", rc, call, rr.Short())
				} else if rr.Kind == "error" && errors.Is(rr.Err, impl.ErrWrongArity) {
					env.Violatef(fmt.Sprintf("C16/arity-error-after-accept/%s/%d", name, n), "`%s.%s` [%s] was accepted by Compile but evaluation fails with an arity complaint: %v", rc, call, cfg, rr.Err)
					break
				}
			}
		}
	}
	env.SampleSpread(src+cfg, map[string]string{"call": src, "config": cfg, "outcome": trunc(r.Short(), 120)})
}

func replayC16(env *core.Env, a []json.RawMessage) {
	var name string
	var n, min, max int
	var exp, inTable bool
	json.Unmarshal(a[0], &name)
	json.Unmarshal(a[1], &n)
	json.Unmarshal(a[2], &exp)
	json.Unmarshal(a[3], &inTable)
	json.Unmarshal(a[4], &min)
	json.Unmarshal(a[5], &max)
	if name == "\x00spec" {
		return
	}
	c16Call(env, name, n, exp, inTable, min, max)
}

func runC16(env *core.Env) {
	table := readTable()
	byName := map[string]tableEntry{}
	for _, t := range table {
		byName[t.Name] = t
		if env.Shard == 0 {
			env.Cover("table-names")
		}
	}
	names := map[string]bool{}
	for _, t := range table {
		names[t.Name] = true
	}
	for _, s := range specList {
		names[s.Name] = true
	}
	for _, extra := range []string{"convertToDateTime", "noSuchFunction", "Where", "toquantity", "aggregate", "is", "as", "conformsTo", "memberOf", "subsumes", "subsumedBy", "htmlChecks", "resolve", "elementDefinition", "slice", "checkModifiers", "hasValue", "getValue", "encode", "decode", "escape", "unescape", "trim", "split", "lowBoundary", "highBoundary", "precision", "type", "sum", "min", "max", "avg", "defineVariable", "sort", "coalesce", "Is", "As", "ofType", "IS"} {
		names[extra] = true
	}
	var sorted []string
	for n := range names {
		sorted = append(sorted, n)
	}
	sortStrings(sorted)
	i := 0
	for ni, name := range sorted {
		t, inTable := byName[name]
		// all configurations of one name run in one worker, default and experimental compiles interleaved
		if !env.Mine(ni) {
			continue
		}
		for n := 0; n <= 4; n++ {
			for _, exp := range []bool{false, true, false} {
				i++
				in := inTable && (!t.Experimental || exp)
				c16Call(env, name, n, exp, in, t.Min, t.Max)
			}
		}
	}
	// after everything else this worker compiled (with and without WithExperimentalFuncs): the default table is
	// still the default table
	custom := func(in system.Collection) (system.Collection, error) { return in, nil }
	for _, t := range table {
		if !t.Experimental {
			continue
		}
		for n := t.Min; n <= t.Max && n <= 4; n++ {
			c16Call(env, t.Name, n, false, false, t.Min, t.Max)
			env.Cover("experimental-name-rejected-by-default-after-history")
			// WithExperimentalFuncs combined with a custom function, in both orders: both stay callable
			src := callSrc(t.Name, n)
			for oi, co := range [][]fhirpath.CompileOption{
				{compopts.WithExperimentalFuncs(), compopts.AddFunction("zzcustom", custom)},
				{compopts.AddFunction("zzcustom", custom), compopts.WithExperimentalFuncs()},
				{compopts.AddFunction("zzcustom", custom), compopts.WithExperimentalFuncs(), compopts.AddFunction("zzother", custom)},
			} {
				env.Cover("experimental-with-custom-function")
				if ex, cr := fx.Compile(env, src, co...); ex == nil && !cr.IsPanic() {
					env.Violatef(fmt.Sprintf("C16/compile-rejected/%s/%d/with-custom-function", t.Name, n), "`%s` is rejected when WithExperimentalFuncs is combined with AddFunction (option order %d): %s", src, oi, trunc(cr.Short(), 140))
				}
				if ex, cr := fx.Compile(env, "%multi.zzcustom().count() + "+"1", co...); ex == nil && !cr.IsPanic() {
					env.Violatef("C16/compile-rejected/custom-function-with-experimental", "a custom function is not callable when AddFunction is combined with WithExperimentalFuncs (option order %d): %s", oi, trunc(cr.Short(), 140))
				}
			}
		}
	}
	if env.Shard == 0 {
		c16Discrimination(env, table)
		// every entry of the experimental table is what WithExperimentalFuncs makes callable under that name
		// (an entry that a base-table entry of the same name keeps out of reach is implemented but unreachable)
		expOnly := funcs.AddExperimentalFuncs(funcs.FunctionTable{})
		merged := funcs.AddExperimentalFuncs(funcs.Clone())
		for name, e := range expOnly {
			env.Cover("experimental-entry-reachable")
			m, ok := merged[name]
			if !ok || m.MinArity != e.MinArity || m.MaxArity != e.MaxArity || reflect.ValueOf(m.Func).Pointer() != reflect.ValueOf(e.Func).Pointer() {
				env.Violatef("C16/experimental-entry-shadowed/"+name, "the experimental table binds %q (arity %d..%d) but with WithExperimentalFuncs the name resolves to another entry (present=%v arity %d..%d): the implementation is unreachable under its name", name, e.MinArity, e.MaxArity, ok, m.MinArity, m.MaxArity)
			}
		}
	}
	// many calls in one expression: whether a call is accepted does not depend on how many calls precede it
	i++
	if env.Mine(i) {
		chains := map[string]string{}
		for _, c := range []struct{ recv, call string }{{"'ABC'", ".lower()"}, {"'abc'", ".upper()"}, {"1", ".toString()"}, {"%multi", ".first()"}, {"%multi", ".distinct()"}, {"true", ".not()"}, {"(-5)", ".abs()"}, {"%multi", ".tail()"}, {"'a'", ".toChars()"}, {"1.5", ".round()"}} {
			for _, k := range []int{8, 31, 32, 33, 40, 64, 130} {
				chains[fmt.Sprintf("%s%s x%d", c.recv, c.call, k)] = c.recv + strings.Repeat(c.call, k)
			}
		}
		chains["mixed spine"] = "'Ab'" + strings.Repeat(".lower().upper().toString().first()", 12) + ".substring(0, 1)"
		chains["flat concatenation"] = "''" + strings.Repeat(" & 'a'.lower()", 40)
		chains["flat argument list"] = "iif(true, " + "'a'" + strings.Repeat(".lower()", 20) + ", 'b'" + strings.Repeat(".upper()", 20) + ")"
		chains["parenthesised group"] = "(" + "1" + strings.Repeat(" + 'a'.length()", 40) + ")"
		chains["criteria"] = "%multi.where(" + "$this.toString()" + strings.Repeat(".lower()", 36) + ".exists())"
		in, eo := stdInputs()
		for name, src := range chains {
			env.Cover("long-call-chain")
			r := fx.Eval(env, src, in, nil, eo)
			switch {
			case r.IsPanic():
				env.Violatef(fx.PanicSig("C16", r), "%s => %s", name, r.Short())
			case r.Kind == "cerror":
				env.Violatef("C16/compile-rejected/long-chain", "%s (`%s`): every name is in the table and every count within bounds, but Compile rejects it: %s", name, trunc(src, 80), trunc(r.Short(), 160))
			case r.IsError() && errors.Is(r.Err, impl.ErrWrongArity):
				env.Violatef("C16/arity-error-after-accept/long-chain", "%s (`%s`): accepted, evaluation fails with an arity complaint: %v", name, trunc(src, 80), r.Err)
			}
		}
	}
	// specification reachability + fingerprints
	for _, sp := range specList {
		i++
		if !env.Mine(i) {
			continue
		}
		c16Spec(env, sp)
	}
}

// c16Discrimination is an audit of the fingerprints themselves: for an implemented function f and any other
// table name g that accepts the same argument count, f's fingerprints with the call renamed to g must not all
// stay true - otherwise binding f to g's implementation would go unnoticed. Undiscriminated pairs are listed in
// the evidence (extra.undiscriminated); they do not decide the verdict.
func c16Discrimination(env *core.Env, table []tableEntry) {
	in, eo := stdInputs()
	co := []fhirpath.CompileOption{compopts.WithExperimentalFuncs()}
	weak := []string{}
	pairs := 0
	for _, sp := range specList {
		if !sp.Impl {
			continue
		}
		re := regexp.MustCompile(`(^|[^A-Za-z])` + sp.Name + `\(`)
		for _, n := range sp.Counts {
			fps := sp.Finger[n]
			if len(fps) == 0 {
				continue
			}
			for _, g := range table {
				if g.Name == sp.Name || n < g.Min || n > g.Max || g.Name == "convertToDateTime" && sp.Name == "convertsToDateTime" {
					// (convertToDateTime is the repository's older spelling of convertsToDateTime: same function)
					continue
				}
				pairs++
				allTrue := true
				for _, fp := range fps {
					alt := re.ReplaceAllString(fp, "${1}"+g.Name+"(")
					r := fx.Eval(env, alt, in, co, eo)
					if r.Bool3() != "true" {
						allTrue = false
						break
					}
				}
				if allTrue {
					weak = append(weak, fmt.Sprintf("%s/%d~%s", sp.Name, n, g.Name))
				}
			}
		}
	}
	env.SetExtra("binding_pairs_audited", pairs)
	env.SetExtra("undiscriminated", weak)
	for range weak {
		env.Cover("undiscriminated-binding-pair")
	}
	env.Cover("binding-audit")
}

func sortStrings(s []string) {
	for i := 1; i < len(s); i++ {
		for j := i; j > 0 && s[j] < s[j-1]; j-- {
			s[j], s[j-1] = s[j-1], s[j]
		}
	}
}

func c16Spec(env *core.Env, sp specFn) {
	in, eo := stdInputs()
	co := []fhirpath.CompileOption{}
	if sp.Exp {
		co = append(co, compopts.WithExperimentalFuncs())
	}
	if !sp.Impl {
		// must be an explicit error for each specification count, never a value
		for _, n := range sp.Counts {
			src := callSrc(sp.Name, n)
			r := fx.Eval(env, src, in, co, eo)
			env.Cover("unimplemented")
			env.Case()
			if r.IsPanic() {
				env.Violatef(fx.PanicSig("C16", r), "`%s` => %s", src, r.Short())
			} else if r.IsValue() {
				env.Violatef("C16/unimplemented-returns-value/"+sp.Name, "`%s`: unimplemented function returned %s instead of an error", src, trunc(r.Short(), 120))
			}
			// ... whatever it is called on: no items, one item, items of every kind (the error does not depend on the input)
			if sp.Recv != "" && strings.HasPrefix(src, sp.Recv+".") {
				call := strings.TrimPrefix(src, sp.Recv+".")
				for _, rc := range []string{"{}", "%emptyc", "%nilc", "Patient.photo", "Patient.name.suffix", "1", "'a'", "true", "Patient", "Patient.name", "%multi", "%fstr", "(1 | 2)", "@2020"} {
					rr := fx.Eval(env, rc+"."+call, in, co, eo)
					env.Cover("unimplemented-other-receiver")
					if rr.IsPanic() {
						env.Violatef(fx.PanicSig("C16", rr), "`%s.%s` => %s", rc, call, rr.Short())
					} else if rr.IsValue() && r.Kind == "error" {
						env.Violatef("C16/unimplemented-returns-value/"+sp.Name+"/other-receiver", "`%s.%s`: unimplemented function returned %s instead of the error it gives on `%s` (%v)", rc, call, trunc(rr.Short(), 80), sp.Recv, r.Err)
						break
					}
				}
			}
		}
		return
	}
	for _, n := range sp.Counts {
		src := callSrc(sp.Name, n)
		ex, cr := fx.Compile(env, src, co...)
		env.Case()
		if ex == nil {
			if cr.IsPanic() {
				env.Violatef(fx.PanicSig("C16", cr), "Compile(`%s`) => %s", src, cr.Short())
			} else {
				env.Violatef(fmt.Sprintf("C16/spec-count-rejected/%s/%d", sp.Name, n), "`%s`: the specification allows %d argument(s) for %s but Compile rejects it: %s", src, n, sp.Name, cr.Short())
			}
			continue
		}
		r := fx.Evaluate(env, ex, in, eo...)
		if r.IsPanic() {
			env.Violatef(fx.PanicSig("C16", r), "`%s` => %s", src, r.Short())
		} else if r.IsError() && errors.Is(r.Err, impl.ErrWrongArity) {
			env.Violatef(fmt.Sprintf("C16/arity-error-after-accept/%s/%d", sp.Name, n), "`%s` accepted by Compile but evaluation fails with an arity complaint: %v", src, r.Err)
		}
		for _, fp := range sp.Finger[n] {
			fr := fx.Eval(env, fp, in, co, eo)
			env.Cover("fingerprint")
			env.Distinct("fp|" + fp)
			env.Case()
			if fr.IsPanic() {
				env.Violatef(fx.PanicSig("C16", fr), "`%s` => %s", fp, fr.Short())
			} else if fr.Bool3() != "true" {
				env.Violatef(fmt.Sprintf("C16/fingerprint/%s/%d", sp.Name, n), "specification example `%s` must be true, observed %s", fp, trunc(fr.Short(), 160))
			}
		}
	}
}
