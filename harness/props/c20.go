package props

import (
	"encoding/json"
	"errors"
	"fmt"
	"strconv"
	"strings"

	dtpb "github.com/google/fhir/go/proto/google/fhir/proto/r4/core/datatypes_go_proto"
	bcrpb "github.com/google/fhir/go/proto/google/fhir/proto/r4/core/resources/bundle_and_contained_resource_go_proto"
	ppbc20 "github.com/google/fhir/go/proto/google/fhir/proto/r4/core/resources/patient_go_proto"
	"github.com/verily-src/fhirpath-go/fhirpath/verifharness/core"
	"github.com/verily-src/fhirpath-go/fhirpath/verifharness/fx"
	"github.com/verily-src/fhirpath-go/fhirpath/verifharness/gen"
	"github.com/verily-src/fhirpath-go/fhirpath/verifharness/model"
	"github.com/verily-src/fhirpath-go/internal/bundle"
	"github.com/verily-src/fhirpath-go/internal/containedresource"
	"github.com/verily-src/fhirpath-go/internal/element"
	"github.com/verily-src/fhirpath-go/internal/element/extension"
	"github.com/verily-src/fhirpath-go/internal/fhir"
	"github.com/verily-src/fhirpath-go/internal/resource"
	"google.golang.org/protobuf/proto"
	"google.golang.org/protobuf/reflect/protoreflect"
)

// C20 — resource, bundle and extension wrappers are inverses for every R4 type.

func init() {
	core.Register(&core.Property{
		ID:   "C20",
		Rule: "exhaustive over the 146 resource types (enumerated from ContainedResource): create by name, TypeOf, contained-resource wrap/unwrap identity, bundle entry wrap/unwrap identity, bundle.Unwrap order; exhaustive over the extension value types (members of Extension.value[x]): build/unwrap identity; seeded random extension lists with repeated URLs x {Upsert, SetByURL, Overwrite, AppendInto, Clear}: only extensions with the affected URL change (list model); generated populated resources x element type in {Reference, Identifier, Coding, Extension, string, dateTime}: ExtractAll/ExtractAllWithPath find every such element exactly once (harness tree walk as reference), every label locates the element in the jsonformat JSON tree and, without choice steps, evaluates to it through FHIRPath. entry / bundle constructors, UnwrapMap, contained-resource accessors, NewType, long lists, contained resources in extraction with element counts, payload-only entries, near-miss extension URLs, lists holding an extension without a url element or with a value-less one; distinct_nontrivial = distinct (check kind, type) pairs and distinct (resource type, element type) extractions that found at least one element",
		Assumptions: []string{"the order of ExtractAllWithPath results is not constrained (compared as sets of (element, label))"},
		Run:    runC20,
		Checks: map[string]func(*core.Env, []json.RawMessage){"type": replayC20Type, "ext": replayC20Ext, "mut": replayC20Mut, "extract": replayC20Extract},
		Threshold: func(m *core.Merged) []string {
			var r []string
			if m.Cover["resource-type"] < 146 {
				r = append(r, fmt.Sprintf("only %d resource types", m.Cover["resource-type"]))
			}
			if m.Cover["extension-value-type"] < 45 {
				r = append(r, fmt.Sprintf("only %d extension value types", m.Cover["extension-value-type"]))
			}
			for _, k := range []string{"mutator:Upsert", "mutator:SetByURL", "mutator:Overwrite", "mutator:AppendInto", "mutator:Clear", "extract:Reference", "extract:Identifier", "extract:Coding", "extract:Extension", "extract:String", "extract:DateTime", "label-json", "label-fhirpath", "bundle-order"} {
				if m.Cover[k] == 0 {
					r = append(r, "never observed: "+k)
				}
			}
			return r
		},
	})
}

func c20Type(env *core.Env, tn string) {
	defer env.In("type", tn)()
	env.Case()
	env.Cover("resource-type")
	env.Distinct("type|" + tn)
	var r1, r2, un, ue fhir.Resource
	var err error
	var t1 resource.Type
	var cr *bcrpb.ContainedResource
	var crType resource.Type
	var entry *bcrpb.Bundle_Entry
	out := env.Guard("resource wrappers "+tn, func() {
		r1, err = resource.NewFromString(tn)
		if err != nil {
			return
		}
		t1 = resource.TypeOf(r1)
		r2 = resource.New(resource.Type(tn))
		cr = containedresource.Wrap(r1)
		un = containedresource.Unwrap(cr)
		crType = containedresource.TypeOf(cr)
		entry = bundle.NewCollectionEntry(r1)
		ue = bundle.UnwrapEntry(entry)
	})
	env.Eval(7)
	if out.Panicked || out.Dead {
		env.Violatef("C20/panic@"+out.Site+"/"+core.NormMsg(out.PanicMsg), "wrappers for %s panicked: %s", tn, out.PanicMsg)
		return
	}
	if err != nil || r1 == nil {
		env.Violatef("C20/new-by-name/"+tn, "resource.NewFromString(%q): %v", tn, err)
		return
	}
	if string(t1) != tn || string(r1.ProtoReflect().Descriptor().Name()) != tn || r2 == nil || string(resource.TypeOf(r2)) != tn {
		env.Violatef("C20/type-of/"+tn, "new %s reports type %q", tn, t1)
	}
	// every creation gives a new, empty resource of its own
	var r3, r4 fhir.Resource
	env.Guard("resource.New again "+tn, func() { r3 = resource.New(resource.Type(tn)); r4, _ = resource.NewFromString(tn) })
	env.Eval(2)
	if r3 == nil || r4 == nil || r3 == r2 || r3 == r1 || r4 == r1 || r4 == r2 || r1 == r2 {
		env.Violatef("C20/new/shared-instance/"+tn, "creating %s twice gave the same instance (or none): New=%p New=%p NewFromString=%p NewFromString=%p", tn, r2, r3, r1, r4)
	} else if proto.Size(r3) != 0 || proto.Size(r4) != 0 || proto.Size(r2) != 0 {
		env.Violatef("C20/new/not-empty/"+tn, "a newly created %s is not empty", tn)
	}
	if !resource.IsType(tn) {
		env.Violatef("C20/is-type/"+tn, "resource.IsType(%q) = false", tn)
	}
	// the oneof field actually set must be the one for this type (by schema)
	want := gen.ContainedFieldFor(r1.ProtoReflect().Descriptor())
	crm := cr.ProtoReflect()
	if set := crm.WhichOneof(crm.Descriptor().Oneofs().Get(0)); set == nil || want == nil || set.Number() != want.Number() {
		env.Violatef("C20/contained-wrap/wrong-field/"+tn, "containedresource.Wrap(%s) set the wrong oneof member", tn)
	}
	if un != r1 {
		env.Violatef("C20/contained-unwrap/not-same/"+tn, "containedresource.Unwrap(Wrap(x)) is not x for %s", tn)
	}
	if string(crType) != tn {
		env.Violatef("C20/contained-typeof/"+tn, "containedresource.TypeOf = %q for %s", crType, tn)
	}
	if ue != r1 {
		env.Violatef("C20/bundle-entry-unwrap/not-same/"+tn, "bundle.UnwrapEntry(NewCollectionEntry(x)) is not x for %s", tn)
	}
	c20TypeMore(env, tn, r1, r2)
}

// c20TypeMore: the other ways of creating, naming and wrapping a resource of the type: the name as a Type value,
// request entries (POST, PUT), bundles built by the constructors, unwrapping into a per-type map, and the
// contained-resource accessors, which answer for the wrapped resource.
func c20TypeMore(env *core.Env, tn string, r1, r2 fhir.Resource) {
	setStr := func(m protoreflect.Message, field, val string) {
		fd := m.Descriptor().Fields().ByName(protoreflect.Name(field))
		im := m.Mutable(fd).Message()
		im.Set(im.Descriptor().Fields().ByName("value"), protoreflect.ValueOfString(val))
	}
	setStr(r1.ProtoReflect(), "id", "x1")
	setStr(r1.ProtoReflect().Mutable(r1.ProtoReflect().Descriptor().Fields().ByName("meta")).Message(), "version_id", "7")
	setStr(r2.ProtoReflect(), "id", "x2")
	other := "Patient"
	if tn == "Patient" {
		other = "Group"
	}
	r3, _ := resource.NewFromString(other)
	bad := func(sig, format string, a ...any) { env.Violatef("C20/"+sig+"/"+tn, format, a...) }
	out := env.Guard("resource wrappers (more) "+tn, func() {
		if ty, err := resource.NewType(tn); err != nil || string(ty) != tn || ty.String() != tn {
			bad("new-type", "resource.NewType(%q) = %q, %v", tn, ty, err)
		}
		for _, wrong := range []string{strings.ToLower(tn), tn + "x", " " + tn, ""} {
			if ty, err := resource.NewType(wrong); err == nil || resource.IsType(wrong) {
				bad("new-type", "resource.NewType(%q) = %q, %v; IsType %v", wrong, ty, err, resource.IsType(wrong))
			}
			if r, err := resource.NewFromString(wrong); err == nil {
				bad("new-by-name", "resource.NewFromString(%q) = %T", wrong, r)
			}
		}
		cr := containedresource.Wrap(r1)
		vu, okv := containedresource.VersionedURIString(cr)
		if containedresource.ID(cr) != "x1" || containedresource.VersionID(cr) != "7" || containedresource.URIString(cr) != tn+"/x1" || containedresource.URI(cr).GetValue() != tn+"/x1" || !okv || vu != tn+"/x1/_history/7" || containedresource.VersionedURI(cr).GetValue() != vu {
			bad("contained-accessors", "contained %s/x1 version 7: ID %q VersionID %q URIString %q VersionedURIString %q,%v", tn, containedresource.ID(cr), containedresource.VersionID(cr), containedresource.URIString(cr), vu, okv)
		}
		cr2 := containedresource.Wrap(r2)
		if _, ok := containedresource.VersionedURIString(cr2); ok || containedresource.VersionID(cr2) != "" || containedresource.URIString(cr2) != tn+"/x2" {
			bad("contained-accessors", "contained %s/x2 without version: URIString %q VersionID %q", tn, containedresource.URIString(cr2), containedresource.VersionID(cr2))
		}
		post, put := bundle.NewPostEntry(r1), bundle.NewPutEntry(r1)
		if bundle.UnwrapEntry(post) != r1 || bundle.UnwrapEntry(put) != r1 {
			bad("bundle-entry-unwrap/not-same", "UnwrapEntry(NewPostEntry(x)) / UnwrapEntry(NewPutEntry(x)) is not x")
		}
		if post.GetRequest().GetUrl().GetValue() != tn || put.GetRequest().GetUrl().GetValue() != tn+"/x1" {
			bad("bundle-entry-request", "POST url %q, PUT url %q", post.GetRequest().GetUrl().GetValue(), put.GetRequest().GetUrl().GetValue())
		}
		entries := []*bcrpb.Bundle_Entry{bundle.NewCollectionEntry(r2), post, bundle.NewCollectionEntry(r3), put}
		want := []fhir.Resource{r2, r1, r3, r1}
		for name, b := range map[string]*bcrpb.Bundle{
			"NewTransaction": bundle.NewTransaction(bundle.WithEntries(entries...)), "NewCollection": bundle.NewCollection(bundle.WithEntries(entries...)), "NewBatch": bundle.NewBatch(bundle.WithEntries(entries...)),
			"NewHistory": bundle.NewHistory(bundle.WithEntries(entries...)), "NewSearchset": bundle.NewSearchset(bundle.WithEntries(entries...)), "NewTransactionResponse": bundle.NewTransactionResponse(entries...),
		} {
			got := bundle.Unwrap(b)
			same := len(got) == len(want)
			for i := 0; same && i < len(want); i++ {
				same = got[i] == want[i]
			}
			if !same {
				bad("bundle-unwrap/constructed", "bundle.%s with entries [%s/x2, %s/x1, %s, %s/x1] unwraps to %d resources, not these in order", name, tn, tn, other, tn, len(got))
			}
			m := bundle.UnwrapMap(b)
			if len(m) != 2 || len(m[resource.Type(tn)]) != 3 || m[resource.Type(tn)][0] != r2 || m[resource.Type(tn)][1] != r1 || m[resource.Type(tn)][2] != r1 || len(m[resource.Type(other)]) != 1 || m[resource.Type(other)][0] != r3 {
				bad("bundle-unwrap-map", "bundle.UnwrapMap of bundle.%s: %d types, %d %s, %d %s", name, len(m), len(m[resource.Type(tn)]), tn, len(m[resource.Type(other)]), other)
			}
		}
	})
	env.Eval(40)
	env.Cover("resource-type-more")
	if out.Panicked || out.Dead {
		env.Violatef("C20/panic@"+out.Site+"/"+core.NormMsg(out.PanicMsg), "wrappers for %s panicked: %s", tn, out.PanicMsg)
	}
}

func replayC20Type(env *core.Env, a []json.RawMessage) {
	var tn string
	json.Unmarshal(a[0], &tn)
	c20Type(env, tn)
}

func c20BundleOrder2(env *core.Env, seed uint64) {
	defer env.In("type", "Bundle-order")()
	env.Case()
	env.Cover("bundle-order")
	rng := core.NewRng(seed, "c20-bundle")
	types := gen.ResourceTypes()
	var want []fhir.Resource
	b := &bcrpb.Bundle{}
	n := 2 + rng.Intn(6)
	for i := 0; i < n; i++ {
		if rng.Intn(5) == 0 {
			e := &bcrpb.Bundle_Entry{FullUrl: &dtpb.Uri{Value: "urn:x"}}
			switch rng.Intn(3) {
			case 1:
				// an entry that carries other payloads but no resource: a response with an outcome, a request
				oo := (&bcrpb.ContainedResource{}).ProtoReflect()
				ood := gen.ResourceTypeByName("OperationOutcome")
				oo.Set(gen.ContainedFieldFor(ood), protoreflect.ValueOfMessage(gen.NewMessage(ood)))
				e.Response = &bcrpb.Bundle_Entry_Response{Status: &dtpb.String{Value: "400"}, Outcome: oo.Interface().(*bcrpb.ContainedResource)}
			case 2:
				e.Request = &bcrpb.Bundle_Entry_Request{Url: &dtpb.Uri{Value: "Patient/1"}}
				e.Search = &bcrpb.Bundle_Entry_Search{Score: &dtpb.Decimal{Value: "1"}}
			}
			b.Entry = append(b.Entry, e)
			want = append(want, nil)
			continue
		}
		md := types[rng.Intn(len(types))]
		if i == 1 {
			md = gen.ResourceTypeByName("Bundle") // a nested bundle (empty, or with an entry of its own below) is one resource of the outer one
		}
		r := gen.NewMessage(md).Interface().(fhir.Resource)
		if nb, ok := r.(*bcrpb.Bundle); ok && rng.Intn(2) == 0 {
			nb.Entry = []*bcrpb.Bundle_Entry{{Resource: &bcrpb.ContainedResource{OneofResource: &bcrpb.ContainedResource_Patient{Patient: &ppbc20.Patient{}}}}, {FullUrl: &dtpb.Uri{Value: "urn:y"}}}
		}
		cr := (&bcrpb.ContainedResource{}).ProtoReflect()
		cr.Set(gen.ContainedFieldFor(md), protoreflect.ValueOfMessage(r.ProtoReflect()))
		b.Entry = append(b.Entry, &bcrpb.Bundle_Entry{Resource: cr.Interface().(*bcrpb.ContainedResource)})
		want = append(want, r)
	}
	var got []fhir.Resource
	out := env.Guard("bundle.Unwrap", func() { got = bundle.Unwrap(b) })
	env.Eval(1)
	if out.Panicked || out.Dead {
		env.Violatef("C20/panic@"+out.Site+"/bundle.Unwrap", "bundle.Unwrap panicked: %s", out.PanicMsg)
		return
	}
	if len(got) != len(want) {
		env.Violatef("C20/bundle-unwrap/length", "bundle.Unwrap returned %d resources for %d entries", len(got), len(want))
		return
	}
	for i := range want {
		if want[i] == nil {
			if got[i] != nil && !isNilResource(got[i]) {
				env.Violatef("C20/bundle-unwrap/order", "entry %d has no resource but bundle.Unwrap returned %T", i, got[i])
			}
			continue
		}
		if got[i] != want[i] {
			env.Violatef("C20/bundle-unwrap/order", "bundle.Unwrap item %d is not entry %d's resource", i, i)
			return
		}
	}
}

func isNilResource(r fhir.Resource) (isNil bool) {
	defer func() {
		if recover() != nil {
			isNil = true
		}
	}()
	return r == nil || !r.ProtoReflect().IsValid()
}

func c20Ext(env *core.Env, idx int) {
	defer env.In("ext", idx)()
	fds := gen.ExtensionValueTypes()
	fd := fds[idx]
	md := fd.Message()
	env.Case()
	env.Cover("extension-value-type")
	env.Distinct("ext|" + string(md.Name()))
	g := gen.NewResGen(core.NewRng(uint64(idx), "c20-ext"), false)
	v := g.ValueOf(md, 1)
	if v == nil {
		env.Skip("no-value-generated")
		return
	}
	el, isEl := v.Interface().(fhir.Element)
	if !isEl {
		env.Violatef("C20/harness/not-an-element", "%s does not implement fhir.Element", md.Name())
		return
	}
	var ext *dtpb.Extension
	var err error
	var back fhir.Element
	out := env.Guard("extension.FromElement/Unwrap "+string(md.Name()), func() {
		ext, err = extension.FromElement("http://example.org/ext/t", el)
		if err == nil {
			back = extension.Unwrap(ext)
		}
	})
	env.Eval(2)
	if out.Panicked || out.Dead {
		env.Violatef("C20/panic@"+out.Site+"/extension", "extension wrappers for %s panicked: %s", md.Name(), out.PanicMsg)
		return
	}
	if err != nil {
		env.Violatef("C20/extension-build/"+string(md.Name()), "extension.FromElement(%s): %v", md.Name(), err)
		return
	}
	if ext.GetUrl().GetValue() != "http://example.org/ext/t" {
		env.Violatef("C20/extension-build/url", "extension url = %q", ext.GetUrl().GetValue())
	}
	vm := ext.GetValue().ProtoReflect()
	if set := vm.WhichOneof(vm.Descriptor().Oneofs().Get(0)); set == nil || set.Number() != fd.Number() {
		env.Violatef("C20/extension-build/wrong-member/"+string(md.Name()), "extension.FromElement(%s) set the wrong value[x] member", md.Name())
	}
	if back != el {
		env.Violatef("C20/extension-unwrap/not-same/"+string(md.Name()), "extension.Unwrap(FromElement(x)) is not x for %s", md.Name())
	}
}

func replayC20Ext(env *core.Env, a []json.RawMessage) {
	var i int
	json.Unmarshal(a[0], &i)
	c20Ext(env, i)
}

// extension list model: the extensions themselves (identity) in order
func c20Mut(env *core.Env, seed uint64) {
	defer env.In("mut", seed)()
	env.Case()
	rng := core.NewRng(seed, "c20-mut")
	// three URLs per case; some sets differ only in letter case, a trailing character or a prefix (a URL is an exact string)
	urls := [][]string{{"http://u/a", "http://u/b", "http://u/c"}, {"http://u/a", "http://u/A", "http://u/b"}, {"http://u/birthPlace", "http://U/birthPlace", "http://u/birthplace"},
		{"http://u/a", "http://u/ab", "http://u/a/"}, {"http://u/a", "http://u/b", "http://u/c"}, {"urn:x:Y", "urn:x:y", "URN:x:y"}}[core.Hash64(fmt.Sprint("c20-urls", seed))%6]
	// values of several datatypes, including pairs of the same type where the later value has zero / unset /
	// shorter fields than the earlier one (an update that merges instead of replacing shows there)
	mk := func(u string, v string) *dtpb.Extension {
		e := &dtpb.Extension{Url: &dtpb.Uri{Value: u}}
		switch rng.Intn(9) {
		case 0:
			e.Value = &dtpb.Extension_ValueX{Choice: &dtpb.Extension_ValueX_Boolean{Boolean: &dtpb.Boolean{Value: strings.HasPrefix(v, "v")}}} // old: true, new: false
		case 1:
			iv := int32(0)
			if strings.HasPrefix(v, "v") {
				iv = 7
			}
			e.Value = &dtpb.Extension_ValueX{Choice: &dtpb.Extension_ValueX_Integer{Integer: &dtpb.Integer{Value: iv}}}
		case 2:
			c := &dtpb.Coding{Code: &dtpb.Code{Value: v}}
			if strings.HasPrefix(v, "v") {
				c.System = &dtpb.Uri{Value: "http://sys"}
				c.Id = &dtpb.String{Value: "id-" + v}
			}
			e.Value = &dtpb.Extension_ValueX{Choice: &dtpb.Extension_ValueX_Coding{Coding: c}}
		case 3:
			cc := &dtpb.CodeableConcept{Coding: []*dtpb.Coding{{Code: &dtpb.Code{Value: v}}}}
			if strings.HasPrefix(v, "v") {
				cc.Coding = append(cc.Coding, &dtpb.Coding{Code: &dtpb.Code{Value: v + "-2"}})
				cc.Text = &dtpb.String{Value: "text"}
			}
			e.Value = &dtpb.Extension_ValueX{Choice: &dtpb.Extension_ValueX_CodeableConcept{CodeableConcept: cc}}
		case 4:
			st := &dtpb.String{Value: v}
			if strings.HasPrefix(v, "v") {
				st.Id = &dtpb.String{Value: "sid"}
				st.Extension = []*dtpb.Extension{{Url: &dtpb.Uri{Value: "http://u/inner"}, Value: &dtpb.Extension_ValueX{Choice: &dtpb.Extension_ValueX_Boolean{Boolean: &dtpb.Boolean{Value: true}}}}}
			}
			e.Value = &dtpb.Extension_ValueX{Choice: &dtpb.Extension_ValueX_StringValue{StringValue: st}}
		default:
			e.Value = &dtpb.Extension_ValueX{Choice: &dtpb.Extension_ValueX_StringValue{StringValue: &dtpb.String{Value: v}}}
		}
		return e
	}
	target := &dtpb.HumanName{Family: &dtpb.String{Value: "X"}}
	n := rng.Intn(6)
	for i := 0; i < n; i++ {
		target.Extension = append(target.Extension, mk(urls[rng.Intn(3)], fmt.Sprint("v", i)))
	}
	if seed%3 == 0 {
		// an extension without a url element and one whose url element holds no value: neither carries the affected URL
		env.Cover("mutator-url-less-extension")
		nourl := mk("", "nourl")
		nourl.Url = nil
		pos := int(seed/3) % (len(target.Extension) + 1)
		target.Extension = append(target.Extension[:pos:pos], append([]*dtpb.Extension{nourl}, target.Extension[pos:]...)...)
		if seed%2 == 0 {
			target.Extension = append(target.Extension, mk("", "emptyurl"))
		}
	}
	before := append([]*dtpb.Extension{}, target.Extension...)
	beforeBytes := make([]string, len(before))
	for i, e := range before {
		beforeBytes[i] = protoBytes(e)
	}
	u := urls[rng.Intn(3)]
	op := []string{"Upsert", "SetByURL", "Overwrite", "AppendInto", "Clear"}[rng.Intn(5)]
	env.Cover("mutator:" + op)
	nvals := rng.Intn(3)
	var newExts []*dtpb.Extension
	for i := 0; i <= nvals; i++ {
		newExts = append(newExts, mk(u, fmt.Sprint("new", i)))
	}
	out := env.Guard("extension."+op, func() {
		switch op {
		case "Upsert":
			extension.Upsert(target, newExts[0])
		case "SetByURL":
			vals := []*dtpb.String{}
			for i := 0; i < nvals; i++ {
				vals = append(vals, &dtpb.String{Value: fmt.Sprint("set", i)})
			}
			extension.SetByURL(target, u, vals...)
		case "Overwrite":
			extension.Overwrite(target, newExts...)
		case "AppendInto":
			extension.AppendInto(target, newExts...)
		case "Clear":
			extension.Clear(target)
		}
	})
	env.Eval(1)
	d := fmt.Sprintf("extension.%s(url %s) on a list of %d", op, u, n)
	if out.Panicked || out.Dead {
		env.Violatef("C20/panic@"+out.Site+"/"+op, "%s panicked: %s", d, out.PanicMsg)
		return
	}
	after := target.Extension
	env.Distinct(fmt.Sprintf("mut|%s|%d", op, n))
	others := func(list []*dtpb.Extension, url string) []*dtpb.Extension {
		var o []*dtpb.Extension
		for _, e := range list {
			if e.GetUrl().GetValue() != url {
				o = append(o, e)
			}
		}
		return o
	}
	sameList := func(a, b []*dtpb.Extension) bool {
		if len(a) != len(b) {
			return false
		}
		for i := range a {
			if a[i] != b[i] {
				return false
			}
		}
		return true
	}
	switch op {
	case "Upsert", "SetByURL":
		// extensions with other URLs: same objects, same order, unchanged content
		if !sameList(others(before, u), others(after, u)) {
			env.Violatef("C20/mutator/"+op+"/touches-other-urls", "%s changed extensions with other URLs", d)
		}
		withU := 0
		for _, e := range after {
			if e.GetUrl().GetValue() == u {
				withU++
			}
		}
		if op == "SetByURL" && withU != nvals {
			env.Violatef("C20/mutator/SetByURL/count", "%s: %d extensions with that url afterwards, expected %d", d, withU, nvals)
		}
		if op == "Upsert" {
			had := len(before) - len(others(before, u))
			wantU := had
			if had == 0 {
				wantU = 1
			}
			if withU != wantU {
				env.Violatef("C20/mutator/Upsert/count", "%s: %d extensions with that url afterwards, expected %d", d, withU, wantU)
			}
			found := false
			for _, e := range after {
				if e.GetUrl().GetValue() == u && proto.Equal(e.GetValue(), newExts[0].GetValue()) {
					found = true
				}
			}
			if !found {
				env.Violatef("C20/mutator/Upsert/value-missing", "%s: the upserted value is not present", d)
			}
		}
	case "AppendInto":
		if len(after) != len(before)+len(newExts) || !sameList(after[:len(before)], before) || !sameList(after[len(before):], newExts) {
			env.Violatef("C20/mutator/AppendInto", "%s: result is not the old list followed by the new extensions", d)
		}
	case "Overwrite":
		if !sameList(after, newExts) {
			env.Violatef("C20/mutator/Overwrite", "%s: result is not exactly the given extensions", d)
		}
	case "Clear":
		if len(after) != 0 {
			env.Violatef("C20/mutator/Clear", "%s: %d extensions remain", d, len(after))
		}
	}
	for i, e := range before {
		if e.GetUrl().GetValue() != u && protoBytes(e) != beforeBytes[i] {
			env.Violatef("C20/mutator/"+op+"/mutates-other-extension", "%s modified the content of an extension with another URL", d)
		}
	}
	if target.Family.GetValue() != "X" {
		env.Violatef("C20/mutator/"+op+"/frame", "%s changed another field of the element", d)
	}
}

func replayC20Mut(env *core.Env, a []json.RawMessage) {
	var s uint64
	json.Unmarshal(a[0], &s)
	c20Mut(env, s)
}

type extracted struct {
	el    proto.Message
	label string
}

func c20Extract(env *core.Env, tn string, seed uint64, noContained bool) {
	defer env.In("extract", tn, seed, noContained)()
	md := gen.ResourceTypeByName(tn)
	g := gen.NewResGen(core.NewRng(seed, "c20-extract", tn), seed%2 == 0)
	g.NoContained = noContained
	if seed >= 1<<40 {
		// dense variant: every element of the type (two levels deep) is present, so every element name is labelled
		g = gen.NewDenseResGen(core.NewRng(seed, "c20-extract-dense", tn))
		env.Cover("extract-dense")
	}
	res := g.Resource(md)
	if seed%4 == 1 {
		// long lists: every populated repeated element at the top level is extended to 11..13 items (two-digit indexes)
		rm := res.ProtoReflect()
		rm.Range(func(fd protoreflect.FieldDescriptor, v protoreflect.Value) bool {
			if fd.IsList() && fd.Message() != nil && !gen.IsAny(fd.Message()) && v.List().Len() > 0 {
				l := v.List()
				orig := l.Len()
				for l.Len() < 11+int(seed%3) {
					l.Append(protoreflect.ValueOfMessage(proto.Clone(l.Get(l.Len() % orig).Message().Interface()).ProtoReflect()))
				}
				env.Cover("extract-long-list")
			}
			return true
		})
	}
	tree, err := model.BuildTree(res)
	if err != nil {
		env.Skip("resource-not-marshallable")
		return
	}
	env.Case()
	hasNested := false
	for _, nd := range tree.All() {
		if nd.Parent != nil && nd.IsResource {
			hasNested = true
		}
	}
	run := func(kind string, f func() ([]extracted, []proto.Message, error), match func(proto.Message) bool) {
		var withPath []extracted
		var plain []proto.Message
		var err error
		out := env.Guard("ExtractAll["+kind+"] "+tn, func() { withPath, plain, err = f() })
		env.Eval(2)
		cls := kind
		if out.Panicked || out.Dead {
			env.Violatef("C20/panic@"+out.Site+"/extract", "ExtractAll[%s] on %s(seed %d) panicked: %s", kind, tn, seed, out.PanicMsg)
			return
		}
		// reference: harness tree walk (elements inside nested resources are reached through the same protos, except under `contained` Any)
		var want []*model.Node
		for _, nd := range tree.All() {
			if nd.Msg != nil && !nd.UnderFresh() && match(nd.Msg) {
				want = append(want, nd)
			}
		}
		// the String held by an untyped or fragment reference is an element of the proto but is rendered as
		// the JSON "reference" string: counted, not label-checked
		special := map[proto.Message]bool{}
		if kind == "String" {
			for _, nd := range tree.All() {
				if ref, ok := nd.Msg.(*dtpb.Reference); ok && !nd.UnderFresh() {
					if u := ref.GetUri(); u != nil {
						special[u] = true
					}
					if f := ref.GetFragment(); f != nil {
						special[f] = true
					}
				}
			}
		}
		pathErr := err
		if err != nil {
			// the recorded finding: an element *inside* a nested resource cannot be labelled. A nested resource that holds no
			// element of the requested type gives the labeller nothing to fail on.
			nestedMatch := false
			for _, nd := range tree.All() {
				if nd.Msg == nil || !match(nd.Msg) {
					continue
				}
				for c := nd.Parent; c != nil; c = c.Parent {
					if c.IsResource && c.Parent != nil {
						nestedMatch = true
					}
				}
			}
			if hasNested && plain != nil && errors.Is(err, element.ErrFhirPathNotImplemented) && !nestedMatch && kind != "String" {
				env.Violatef("C20/extract/"+cls+"/error-without-nested-element", "ExtractAllWithPath[%s] on %s(seed %d): %v, although no nested resource holds a %s", kind, tn, seed, err, kind)
				return
			}
			if hasNested && plain != nil && errors.Is(err, element.ErrFhirPathNotImplemented) {
				env.Violatef("C20/extract/nested-resource-not-labelled", "ExtractAllWithPath[%s] on %s(seed %d), which holds a contained/bundled resource: %v", kind, tn, seed, err)
			} else {
				env.Violatef("C20/extract/"+cls+"/error", "ExtractAll[%s] on %s(seed %d): %v", kind, tn, seed, err)
				return
			}
		}
		env.Cover("extract:" + kind)
		if len(want) > 0 {
			env.Distinct("extract|" + tn + "|" + kind)
		}
		// exactly once
		count := map[proto.Message]int{}
		for _, e := range plain {
			count[e]++
		}
		for _, w := range want {
			if count[w.Msg] != 1 {
				env.Violatef("C20/extract/"+cls+"/not-exactly-once", "ExtractAll[%s] on %s(seed %d): element at %s found %d times", kind, tn, seed, strings.Join(w.PathTo(), "."), count[w.Msg])
				return
			}
		}
		// with nested resources: those held directly (Bundle entries, Parameters) are the same protos; those in `contained`
		// are decoded copies, found as well: the total is the number of such elements in the JSON tree
		if hasNested {
			total := 0
			for _, nd := range tree.All() {
				if nd.Msg != nil && match(nd.Msg) {
					total++
				}
				if ref, ok := nd.Msg.(*dtpb.Reference); ok && kind == "String" && nd.UnderFresh() && (ref.GetUri() != nil || ref.GetFragment() != nil) {
					total++
				}
			}
			env.Cover("extract-with-nested-count")
			if len(plain) != total+len(special) {
				env.Violatef("C20/extract/"+cls+"/nested-count", "ExtractAll[%s] on %s(seed %d), which holds nested resources, returned %d elements; the JSON tree holds %d", kind, tn, seed, len(plain), total+len(special))
				return
			}
		}
		if !hasNested && len(plain) != len(want)+len(special) {
			env.Violatef("C20/extract/"+cls+"/extra-elements", "ExtractAll[%s] on %s(seed %d) returned %d elements, the resource holds %d", kind, tn, seed, len(plain), len(want))
			return
		}
		if pathErr != nil {
			return
		}
		if len(withPath) != len(plain) {
			env.Violatef("C20/extract/"+cls+"/with-path-count", "ExtractAllWithPath[%s] returned %d, ExtractAll %d", kind, len(withPath), len(plain))
			return
		}
		// labels
		for _, e := range withPath {
			if special[e.el] {
				continue
			}
			nd := locateLabel(tree, e.label)
			env.Cover("label-json")
			if nd == nil || nd.Msg != e.el {
				env.Violatef("C20/extract/"+cls+"/label-does-not-locate", "ExtractAllWithPath[%s] on %s(seed %d): label %q does not lead to the extracted element in the JSON tree", kind, tn, seed, e.label)
				return
			}
			viaChoice := false
			odd := false
			for c := nd; c != nil; c = c.Parent {
				if c.ChoiceMsg != "" {
					viaChoice = true
				}
				if lexicallyOdd(c.Name) {
					odd = true
				}
			}
			if !viaChoice && !odd {
				r := fx.Eval(env, e.label, []fhir.Resource{res}, nil, nil)
				env.Cover("label-fhirpath")
				if !r.IsValue() || len(r.Raw) != 1 || r.Raw[0] != e.el {
					env.Violatef("C20/extract/"+cls+"/label-not-evaluable", "label %q on %s(seed %d) does not evaluate to the extracted element: %s", e.label, tn, seed, trunc(r.Short(), 120))
					return
				}
			}
		}
	}
	run("Reference", func() ([]extracted, []proto.Message, error) { return extractT[*dtpb.Reference](res) }, func(m proto.Message) bool { _, ok := m.(*dtpb.Reference); return ok })
	run("Identifier", func() ([]extracted, []proto.Message, error) { return extractT[*dtpb.Identifier](res) }, func(m proto.Message) bool { _, ok := m.(*dtpb.Identifier); return ok })
	run("Coding", func() ([]extracted, []proto.Message, error) { return extractT[*dtpb.Coding](res) }, func(m proto.Message) bool { _, ok := m.(*dtpb.Coding); return ok })
	run("Extension", func() ([]extracted, []proto.Message, error) { return extractT[*dtpb.Extension](res) }, func(m proto.Message) bool { _, ok := m.(*dtpb.Extension); return ok })
	run("DateTime", func() ([]extracted, []proto.Message, error) { return extractT[*dtpb.DateTime](res) }, func(m proto.Message) bool { _, ok := m.(*dtpb.DateTime); return ok })
	run("String", func() ([]extracted, []proto.Message, error) { return extractT[*dtpb.String](res) }, func(m proto.Message) bool { _, ok := m.(*dtpb.String); return ok })
}

func extractT[T proto.Message](res fhir.Resource) ([]extracted, []proto.Message, error) {
	plain, err := element.ExtractAll[T](res)
	if err != nil {
		return nil, nil, err
	}
	var b0 []proto.Message
	for _, e := range plain {
		b0 = append(b0, e)
	}
	wp, err := element.ExtractAllWithPath[T](res)
	if err != nil {
		return nil, b0, err
	}
	var a []extracted
	for _, e := range wp {
		a = append(a, extracted{e.Element, e.FHIRPath})
	}
	var b []proto.Message
	for _, e := range plain {
		b = append(b, e)
	}
	return a, b, nil
}

// locateLabel walks the tree along a label "Type.a[0].bX.c" using the JSON keys and positions.
func locateLabel(tree *model.Node, label string) *model.Node {
	parts := strings.Split(label, ".")
	if len(parts) == 0 || parts[0] != tree.Name {
		return nil
	}
	cur := tree
	for _, p := range parts[1:] {
		p = strings.ReplaceAll(p, "`", "") // a delimited identifier (`div`) names the JSON key div
		name, idx := p, -1
		if i := strings.IndexByte(p, '['); i >= 0 && strings.HasSuffix(p, "]") {
			name = p[:i]
			v, err := strconv.Atoi(p[i+1 : len(p)-1])
			if err != nil {
				return nil
			}
			idx = v
		}
		var next *model.Node
		for _, k := range cur.Kids {
			if k.Key == name && k.Pos == idx {
				next = k
				break
			}
		}
		if next == nil {
			return nil
		}
		cur = next
	}
	return cur
}

func replayC20Extract(env *core.Env, a []json.RawMessage) {
	var tn string
	var seed uint64
	var nc bool
	json.Unmarshal(a[0], &tn)
	json.Unmarshal(a[1], &seed)
	json.Unmarshal(a[2], &nc)
	c20Extract(env, tn, seed, nc)
}

func runC20(env *core.Env) {
	n := 0
	mine := func() bool { n++; return env.Mine(n) }
	for _, md := range gen.ResourceTypes() {
		if mine() {
			c20Type(env, string(md.Name()))
		}
	}
	for _, bad := range []string{"", "patient", "Foo", "HumanName", "ContainedResource"} {
		if mine() {
			func() {
				defer env.In("type", bad)()
				var err error
				out := env.Guard("NewFromString "+bad, func() { _, err = resource.NewFromString(bad) })
				if out.Panicked {
					env.Violatef("C20/panic@"+out.Site+"/NewFromString", "resource.NewFromString(%q) panicked: %s", bad, out.PanicMsg)
				} else if err == nil || resource.IsType(bad) {
					env.Violatef("C20/new-by-name/accepts-invalid", "resource.NewFromString(%q) succeeded / IsType true", bad)
				}
			}()
		}
	}
	for i := range gen.ExtensionValueTypes() {
		if mine() {
			c20Ext(env, i)
		}
	}
	for k := 0; k < env.Size(4000, 60000); k++ {
		if mine() {
			c20Mut(env, env.Seed*7+uint64(k))
		}
	}
	for k := 0; k < env.Size(20, 400); k++ {
		if mine() {
			c20BundleOrder2(env, env.Seed*11+uint64(k))
		}
	}
	types := gen.ResourceTypes()
	per := env.Size(1, 30)
	for k := 0; k < per; k++ {
		for ti, md := range types {
			if mine() {
				// a third of the cases may carry resources in `contained` (an Any), also in the quick tier
				c20Extract(env, string(md.Name()), env.Seed*13+uint64(k), (k+ti)%3 != 2)
				if k == 0 {
					c20Extract(env, string(md.Name()), 1<<40+env.Seed, true)
				}
			}
		}
	}
}
