package props

import (
	"encoding/json"
	"fmt"
	"math"
	"sort"
	"strings"
	"time"

	"github.com/verily-src/fhirpath-go/fhirpath"
	"github.com/verily-src/fhirpath-go/fhirpath/evalopts"
	"github.com/verily-src/fhirpath-go/fhirpath/verifharness/core"
	"github.com/verily-src/fhirpath-go/fhirpath/verifharness/fx"
	"github.com/verily-src/fhirpath-go/fhirpath/verifharness/gen"
	"github.com/verily-src/fhirpath-go/internal/fhir"
	"google.golang.org/protobuf/reflect/protoreflect"
)

// C11 — parsing respects FHIRPath precedence, associativity and token boundaries.

func init() {
	core.Register(&core.Property{
		ID:   "C11",
		Rule: "expression trees up to depth 6 over all 13 precedence levels, function arguments and parenthesised sub-terms (grammar-directed generator, mostly well-typed) plus pure integer/Boolean/string operator trees with a harness-computed value; each tree rendered minimally parenthesised (precedence table, left associativity), fully parenthesised, with seeded token-gap decorations from {'', ' ', '\\n', '\\t', '/* c */', '// c\\n'} and as pure blank re-spellings of the minimal rendering; each also through Compile without options when the tree needs none: all renderings must compile or all must fail, evaluate to the same canonical result on every input of a fixed input set (clock fixed), Expression.String() must return the source, and every compiling source extended by a token that cannot continue an expression must be rejected. a tight re-spelling (blanks only where tokens would merge), every element name and function name directly after an operator symbol, type operators next to every binary operator in three groupings; distinct_nontrivial = distinct trees whose minimal and full renderings differ as text and which evaluate to a value",
		Assumptions: []string{"unsupported alternatives (|, in, contains, ~) make all renderings fail alike: consistent, not a violation here",
			"a string or unit word is never appended after a source ending in a NUMBER (that would form a quantity literal)"},
		Run:    runC11,
		Checks: map[string]func(*core.Env, []json.RawMessage){"tree": replayC11, "pure": replayC11Pure, "word": replayC11Word, "chain": replayC11Chain, "typechain": replayC11TypeChain, "deep": func(env *core.Env, a []json.RawMessage) {
			var d, v int
			json.Unmarshal(a[0], &d)
			json.Unmarshal(a[1], &v)
			c11Deep(env, d, v)
		}, "biglit": func(env *core.Env, a []json.RawMessage) {
			var lit string
			var shape int
			json.Unmarshal(a[0], &lit)
			json.Unmarshal(a[1], &shape)
			c11BigLiteral(env, lit, shape)
		}},
		Threshold: func(m *core.Merged) []string {
			var r []string
			for _, k := range []string{"tree", "compiled", "rejected-consistently", "decorated", "trailing-token", "pure-tree", "min-differs-from-full", "string-method", "keyword-member", "compiled-without-options", "operator-chain"} {
				if m.Cover[k] == 0 {
					r = append(r, "never observed: "+k)
				}
			}
			for lv := 1; lv <= 13; lv++ {
				if lv == 7 || lv == 10 {
					continue // union / membership: unsupported alternatives (still generated; counted under rejected-consistently)
				}
				if m.Cover[fmt.Sprintf("level%d", lv)] == 0 {
					r = append(r, fmt.Sprintf("precedence level %d never exercised in a compiling tree", lv))
				}
			}
			return r
		},
	})
}

var c11Clock = evalopts.OverrideTime(time.Date(2024, 2, 29, 13, 14, 15, 678000000, time.FixedZone("", -39600)))

func c11Inputs() [][]fhir.Resource {
	p := gen.StdPatient()
	q, _ := genResource("Patient", 4242, true)
	return [][]fhir.Resource{{p}, {q}}
}

func levelsOf(e *gen.Expr, into map[int]bool) {
	into[e.Level()] = true
	for _, k := range e.Kids {
		levelsOf(k, into)
	}
}

// c11Check compares the renderings of one tree.
func c11Check(env *core.Env, tree *gen.Expr, seed uint64, label string) {
	env.Case()
	env.Cover("tree")
	min := gen.Join(tree.Tokens(false))
	full := gen.Join(tree.Tokens(true))
	rng := core.NewRng(seed, "c11-decor", label)
	variants := []struct{ name, src string }{{"min", min}, {"full", full}, {"full-atoms", gen.Join(tree.TokensAtoms())}}
	for i := 0; i < 3; i++ {
		variants = append(variants, struct{ name, src string }{fmt.Sprintf("min-decorated-%d", i), gen.Decorate(tree.Tokens(false), rng)})
	}
	variants = append(variants, struct{ name, src string }{"full-decorated", gen.Decorate(tree.Tokens(true), rng)})
	// pure whitespace re-spellings of the minimal rendering (same tokens, same gap positions, other blanks)
	for i, sep := range []string{"\n", "  ", "\t", " \n "} {
		if i == int(seed%4) || i == int((seed/4)%4) {
			variants = append(variants, struct{ name, src string }{"min-blanks", gen.JoinWith(tree.Tokens(false), sep)})
		}
	}
	// no blanks except where two tokens would merge
	variants = append(variants, struct{ name, src string }{"min-blanks", gen.JoinTight(tree.Tokens(false))})
	if min != full {
		env.Cover("min-differs-from-full")
	}
	co := buildCompileOpts("experimental")
	eo := append(gen.EnvOpts(gen.StdEnv()), c11Clock)
	inputs := c11Inputs()
	var base []fx.Res
	var baseCompiled, plainBase bool
	for vi, v := range variants {
		if len(v.src) > 2000 {
			env.Skip("source-too-long")
			return
		}
		ex, cr := fx.Compile(env, v.src, co...)
		if cr.IsPanic() {
			env.Violatef(fx.PanicSig("C11", cr), "Compile(%q) => %s", v.src, cr.Short())
			return
		}
		if vi > 1 {
			env.Cover("decorated")
		}
		compiled := ex != nil
		if vi == 0 {
			baseCompiled = compiled
			if compiled {
				env.Cover("compiled")
				lv := map[int]bool{}
				levelsOf(tree, lv)
				for l := range lv {
					env.Cover(fmt.Sprintf("level%d", l))
				}
			} else {
				env.Cover("rejected-consistently")
			}
		} else if compiled != baseCompiled {
			env.Violatef("C11/compile-disagreement/"+variantClass(v.name), "renderings of one tree disagree on compilability: min %q compiles=%v, %s %q compiles=%v (%s)", min, baseCompiled, v.name, v.src, compiled, trunc(cr.Short(), 120))
			return
		}
		if !compiled {
			continue
		}
		env.Cover("string-method")
		if ex.String() != v.src {
			env.Violatef("C11/expression-string", "Expression.String() = %q for source %q", ex.String(), v.src)
		}
		// the same source through Compile without options (when the tree needs none): same acceptance, text and results
		var plain *fhirpath.Expression
		if vi == 0 || plainBase {
			var pr fx.Res
			plain, pr = fx.Compile(env, v.src)
			if pr.IsPanic() {
				env.Violatef(fx.PanicSig("C11", pr), "Compile(%q) without options => %s", v.src, pr.Short())
				return
			}
			if vi == 0 {
				plainBase = plain != nil
			} else if plain == nil {
				env.Violatef("C11/compile-disagreement/no-options/"+variantClass(v.name), "min %q compiles without options, %s %q does not: %s", min, v.name, v.src, trunc(pr.Short(), 120))
				return
			}
			if plain != nil {
				env.Cover("compiled-without-options")
				if plain.String() != v.src {
					env.Violatef("C11/expression-string", "Expression.String() = %q for source %q (Compile without options)", plain.String(), v.src)
				}
			}
		}
		for ii, in := range inputs {
			r := fx.Evaluate(env, ex, in, eo...)
			if r.IsPanic() {
				env.Violatef(fx.PanicSig("C11", r), "%q => %s", v.src, r.Short())
				return
			}
			if vi == 0 {
				base = append(base, r)
				continue
			}
			if !fx.Same(base[ii], r) {
				env.Violatef("C11/evaluation-disagreement/"+variantClass(v.name), "renderings of one tree evaluate differently on input %d: min %q => %s ; %s %q => %s", ii, min, trunc(base[ii].Short(), 120), v.name, v.src, trunc(r.Short(), 120))
				return
			}
			if plain != nil && ii == 0 {
				if pr := fx.Evaluate(env, plain, in, eo...); !fx.Same(base[ii], pr) {
					env.Violatef("C11/evaluation-disagreement/no-options/"+variantClass(v.name), "min %q => %s ; %s %q compiled without options => %s", min, trunc(base[ii].Short(), 120), v.name, v.src, trunc(pr.Short(), 120))
					return
				}
			}
		}
	}
	if baseCompiled {
		if min != full && len(base) > 0 && base[0].IsValue() {
			env.Distinct(min)
		}
		c11Trailing(env, min, co)
		env.SampleSpread(min, map[string]string{"min": min, "full": full, "decorated": variants[3].src, "result": trunc(base[0].Short(), 80)})
	}
}

func variantClass(name string) string {
	switch {
	case strings.HasPrefix(name, "min-decorated"):
		return "token-gaps"
	case name == "full-decorated":
		return "token-gaps-full"
	case name == "min-blanks":
		return "blanks"
	}
	return "parentheses"
}

// c11Trailing: a compiling source followed by a token that cannot continue an expression must be rejected.
func c11Trailing(env *core.Env, src string, co []fhirpath.CompileOption) {
	extra := []string{")", "]", ",", "}", " )", " ]", "\n,", " 1", " true", " @2020", " $this", " %x", " (1)", " {}", ")("}
	last := src[len(src)-1]
	if !(last >= '0' && last <= '9') {
		extra = append(extra, " 'x'", " year", " Patient")
	}
	// a source that ends in a name becomes a function invocation when "(1)" follows: that is a continuation
	endsInName := (last >= 'a' && last <= 'z') || (last >= 'A' && last <= 'Z') || last == '_' || last == '`'
	for _, t := range extra {
		if endsInName && (t == " (1)" || t == ")(") {
			continue
		}
		env.Cover("trailing-token")
		ex, cr := fx.Compile(env, src+t, co...)
		if cr.IsPanic() {
			env.Violatef(fx.PanicSig("C11", cr), "Compile(%q) => %s", src+t, cr.Short())
			continue
		}
		if ex != nil {
			env.Violatef("C11/trailing-text-accepted/"+strings.TrimSpace(t), "Compile accepts %q: the source has unparsed trailing text after %q", src+t, src)
		}
	}
	// characters that are no token of the language before the first token
	for _, t := range []string{"#", "^ ", "\\ ", "!", "?", ";", " # ", "/* c */ ^", "\"", "$ ", "# # ", "\u00a7", "\n#"} {
		env.Cover("leading-garbage")
		ex, cr := fx.Compile(env, t+src, co...)
		if cr.IsPanic() {
			env.Violatef(fx.PanicSig("C11", cr), "Compile(%q) => %s", t+src, cr.Short())
			continue
		}
		if ex != nil {
			env.Violatef("C11/leading-text-accepted/"+strings.TrimSpace(t), "Compile accepts %q: the source starts with characters that are no token, before %q", t+src, src)
		}
	}
}

func c11Tree(env *core.Env, seed uint64, cat string, depth int) {
	defer env.In("tree", seed, cat, depth)()
	g := &gen.ProgGen{R: core.NewRng(seed, "c11-tree"), Ctx: gen.StdProgCtx(funcNames())}
	tree := g.Gen(cat, depth)
	c11Check(env, tree, seed, cat)
}

func replayC11(env *core.Env, a []json.RawMessage) {
	var seed uint64
	var cat string
	var depth int
	json.Unmarshal(a[0], &seed)
	json.Unmarshal(a[1], &cat)
	json.Unmarshal(a[2], &depth)
	c11Tree(env, seed, cat, depth)
}

// ---- pure operator trees with a harness-computed value

type pv struct {
	kind string // int | bool | str | empty | err
	i    int64
	b    bool
	s    string
}

func genPure(r *core.Rng, kind string, depth int) (*gen.Expr, pv) {
	lit := func(t string) *gen.Expr { return &gen.Expr{K: "lit", Text: t} }
	bin := func(op string, l, rr *gen.Expr) *gen.Expr { return &gen.Expr{K: "bin", Text: op, Kids: []*gen.Expr{l, rr}} }
	if depth <= 0 {
		switch kind {
		case "int":
			v := int64(r.Intn(12))
			return lit(fmt.Sprint(v)), pv{kind: "int", i: v}
		case "bool":
			if r.Intn(5) == 0 {
				return &gen.Expr{K: "empty", Text: "{}"}, pv{kind: "empty"}
			}
			b := r.Bool()
			return lit(fmt.Sprint(b)), pv{kind: "bool", b: b}
		default:
			s := []string{"a", "b", "", "xy"}[r.Intn(4)]
			return lit("'" + s + "'"), pv{kind: "str", s: s}
		}
	}
	d := depth - 1
	switch kind {
	case "int":
		switch r.Intn(7) {
		case 0:
			e, v := genPure(r, "int", d)
			if v.kind == "int" {
				v.i = -v.i
			}
			return &gen.Expr{K: "unary", Text: "-", Kids: []*gen.Expr{e}}, v
		default:
			op := []string{"+", "-", "*", "div", "mod", "+", "-"}[r.Intn(7)]
			l, lv := genPure(r, "int", d)
			rr, rv := genPure(r, "int", d)
			out := pv{kind: "int"}
			switch {
			case lv.kind == "empty" || rv.kind == "empty":
				out = pv{kind: "empty"}
			case op == "+":
				out.i = lv.i + rv.i
			case op == "-":
				out.i = lv.i - rv.i
			case op == "*":
				out.i = lv.i * rv.i
			case op == "div":
				if rv.i == 0 {
					out = pv{kind: "empty"}
				} else {
					out.i = lv.i / rv.i
				}
			case op == "mod":
				if rv.i == 0 {
					out = pv{kind: "empty"}
				} else {
					out.i = lv.i % rv.i
				}
			}
			if out.kind == "int" && (out.i > math.MaxInt32 || out.i < math.MinInt32) {
				out = pv{kind: "empty"}
			}
			return bin(op, l, rr), out
		}
	case "bool":
		switch r.Intn(6) {
		case 0, 1:
			op := []string{"<", "<=", ">", ">=", "=", "!="}[r.Intn(6)]
			l, lv := genPure(r, "int", d)
			rr, rv := genPure(r, "int", d)
			if lv.kind == "empty" || rv.kind == "empty" {
				return bin(op, l, rr), pv{kind: "empty"}
			}
			var b bool
			switch op {
			case "<":
				b = lv.i < rv.i
			case "<=":
				b = lv.i <= rv.i
			case ">":
				b = lv.i > rv.i
			case ">=":
				b = lv.i >= rv.i
			case "=":
				b = lv.i == rv.i
			case "!=":
				b = lv.i != rv.i
			}
			return bin(op, l, rr), pv{kind: "bool", b: b}
		case 2:
			l, lv := genPure(r, "str", d)
			rr, rv := genPure(r, "str", d)
			return bin("=", l, rr), pv{kind: "bool", b: lv.s == rv.s}
		default:
			op := []string{"and", "or", "xor", "implies"}[r.Intn(4)]
			l, lv := genPure(r, "bool", d)
			rr, rv := genPure(r, "bool", d)
			tv := func(v pv) string {
				if v.kind == "empty" {
					return "E"
				}
				if v.b {
					return "T"
				}
				return "F"
			}
			switch logic3(op, tv(lv), tv(rv)) {
			case "T":
				return bin(op, l, rr), pv{kind: "bool", b: true}
			case "F":
				return bin(op, l, rr), pv{kind: "bool", b: false}
			}
			return bin(op, l, rr), pv{kind: "empty"}
		}
	default:
		l, lv := genPure(r, "str", d)
		rr, rv := genPure(r, "str", d)
		op := []string{"&", "+"}[r.Intn(2)]
		return bin(op, l, rr), pv{kind: "str", s: lv.s + rv.s}
	}
}

func c11Pure(env *core.Env, seed uint64, kind string, depth int) {
	defer env.In("pure", seed, kind, depth)()
	r := core.NewRng(seed, "c11-pure")
	tree, want := genPure(r, kind, depth)
	env.Cover("pure-tree")
	min := gen.Join(tree.Tokens(false))
	res := fx.E(env, min)
	if res.IsPanic() {
		env.Violatef(fx.PanicSig("C11", res), "`%s` => %s", min, res.Short())
		return
	}
	ok := false
	switch want.kind {
	case "empty":
		ok = res.Empty()
	case "int":
		it, s := res.Single()
		ok = s && it.K == "Integer" && it.T == fmt.Sprint(want.i)
	case "bool":
		ok = res.Bool3() == fmt.Sprint(want.b)
	case "str":
		it, s := res.Single()
		ok = s && it.K == "String" && it.T == want.s
	}
	if !ok {
		env.Violatef("C11/pure-tree-value/"+kind, "`%s` (full: `%s`): the tree denotes %+v, observed %s", min, gen.Join(tree.Tokens(true)), want, trunc(res.Short(), 100))
	}
	c11Check(env, tree, seed, "pure-"+kind)
}

// c11Words: reserved words, calendar-unit keywords and the four keywords that are also identifiers, used as
// member names, roots, function names and operands: however the token is classified, every rendering of the
// tree must be classified the same way.
var c11Words = []string{"day", "days", "year", "years", "month", "months", "week", "weeks", "hour", "hours", "minute", "minutes", "second", "seconds", "millisecond", "milliseconds",
	"div", "mod", "and", "or", "xor", "implies", "is", "as", "in", "contains", "true", "false", "$this", "$index", "$total", "where", "exists", "Patient", "Observation", "HumanName", "Resource", "name", "`day`", "`div`", "`given`"}

func c11Word(env *core.Env, word string, shape int) {
	defer env.In("word", word, shape)()
	w := &gen.Expr{K: "ident", Text: word}
	pat := &gen.Expr{K: "ident", Text: "Patient"}
	member := func(recv *gen.Expr, name string) *gen.Expr { return &gen.Expr{K: "member", Text: name, Kids: []*gen.Expr{recv}} }
	var tree *gen.Expr
	switch shape {
	case 0:
		tree = member(pat, word) // Patient.<word>
	case 1:
		tree = member(member(pat, "name"), word) // Patient.name.<word>
	case 2:
		tree = member(member(pat, word), "given") // Patient.<word>.given
	case 3:
		tree = w // <word>
	case 4:
		tree = &gen.Expr{K: "bin", Text: "=", Kids: []*gen.Expr{member(pat, word), {K: "lit", Text: "1"}}} // Patient.<word> = 1
	case 5:
		tree = &gen.Expr{K: "func", Text: "exists", Recv: true, Kids: []*gen.Expr{member(pat, "name"), member(&gen.Expr{K: "this", Text: "$this"}, word)}} // Patient.name.exists($this.<word>)
	case 6:
		tree = &gen.Expr{K: "bin", Text: "and", Kids: []*gen.Expr{member(pat, word), member(pat, "active")}}
	case 7:
		tree = &gen.Expr{K: "index", Kids: []*gen.Expr{member(member(pat, "name"), word), {K: "lit", Text: "0"}}}
	case 8:
		tree = member(&gen.Expr{K: "ident", Text: "name"}, word) // name.<word> (un-rooted)
	case 9:
		tree = member(member(&gen.Expr{K: "ident", Text: "contact"}, "name"), word) // contact.name.<word>
	case 11:
		tree = &gen.Expr{K: "bin", Text: "&", Kids: []*gen.Expr{{K: "lit", Text: "'x'"}, w}} // 'x'&<word>
	case 12:
		tree = &gen.Expr{K: "bin", Text: "&", Kids: []*gen.Expr{member(pat, "id"), {K: "func", Text: word, Kids: nil}}} // Patient.id&<word>()
	case 15:
		tree = &gen.Expr{K: "bin", Text: "=", Kids: []*gen.Expr{member(pat, "id"), member(pat, "id")}} // Patient.id = Patient.id
	case 16:
		tree = &gen.Expr{K: "bin", Text: "+", Kids: []*gen.Expr{{K: "func", Text: "count", Recv: true, Kids: []*gen.Expr{member(pat, "name")}}, {K: "unary", Text: "-", Kids: []*gen.Expr{{K: "func", Text: "count", Recv: true, Kids: []*gen.Expr{member(member(pat, "name"), "given")}}}}}}
	case 17:
		tree = &gen.Expr{K: "index", Kids: []*gen.Expr{member(pat, "name"), {K: "func", Text: "count", Recv: true, Kids: []*gen.Expr{member(pat, "telecom")}}}} // Patient.name[Patient.telecom.count()]
	case 13:
		tree = &gen.Expr{K: "bin", Text: "<", Kids: []*gen.Expr{{K: "lit", Text: "1"}, member(w, "value")}} // 1<<word>.value
	case 14:
		tree = &gen.Expr{K: "bin", Text: "|", Kids: []*gen.Expr{w, member(pat, word)}} // <word>|Patient.<word>
	default:
		tree = member(member(w, "name"), "given") // <word>.name.given
	}
	env.Cover("keyword-member")
	c11Check(env, tree, uint64(shape)*131+uint64(len(word)), "word")
}

// c11Chain: two binary operators applied in a chain, `1 op1 2 op2 3`, grouped to the left and to the right, for
// every pair of operators (also where the inner result cannot be an operand of the outer operator: whether such a
// program is accepted and what it yields must not depend on redundant parentheses or blanks).
var c11Ops = []string{"*", "/", "div", "mod", "+", "-", "&", "|", "<", "<=", ">", ">=", "=", "!=", "~", "!~", "in", "contains", "and", "or", "xor", "implies"}

// c11TypeChain: a type operator next to a binary operator, in the three possible groupings.
var c11TypeOps = []string{"is Integer", "as Integer", "is Boolean", "as Boolean", "is System.String", "as Quantity"}

func c11TypeChain(env *core.Env, op, typeOp string, operands int, grouping int) {
	defer env.In("typechain", op, typeOp, operands, grouping)()
	sets := [][2]string{{"1", "2"}, {"true", "false"}, {"'a'", "'b'"}, {"3", "2"}, {"{}", "1"}, {"2", "2"}}
	o := sets[operands%len(sets)]
	l := func(t string) *gen.Expr {
		if t == "{}" {
			return &gen.Expr{K: "empty", Text: "{}"}
		}
		return &gen.Expr{K: "lit", Text: t}
	}
	parts := strings.SplitN(typeOp, " ", 2)
	ty := func(e *gen.Expr) *gen.Expr {
		return &gen.Expr{K: "type", Text: parts[0], Kids: []*gen.Expr{e, {K: "lit", Text: parts[1]}}}
	}
	var tree *gen.Expr
	switch grouping {
	case 0:
		tree = ty(&gen.Expr{K: "bin", Text: op, Kids: []*gen.Expr{l(o[0]), l(o[1])}}) // (a op b) is T
	case 1:
		tree = &gen.Expr{K: "bin", Text: op, Kids: []*gen.Expr{l(o[0]), ty(l(o[1]))}} // a op (b is T)
	default:
		tree = &gen.Expr{K: "bin", Text: op, Kids: []*gen.Expr{ty(l(o[0])), l(o[1])}} // (a is T) op b
	}
	env.Cover("type-operator-chain")
	c11Check(env, tree, uint64(operands)*7+uint64(len(op))*131+uint64(len(typeOp))+uint64(grouping), "typechain")
}

func replayC11TypeChain(env *core.Env, a []json.RawMessage) {
	var op, typeOp string
	var operands, grouping int
	json.Unmarshal(a[0], &op)
	json.Unmarshal(a[1], &typeOp)
	json.Unmarshal(a[2], &operands)
	json.Unmarshal(a[3], &grouping)
	c11TypeChain(env, op, typeOp, operands, grouping)
}

// c11Deep: function arguments nested d levels deep, each level inside an operator: the fully parenthesised rendering is
// a much taller parse tree than the minimal one (a limit on the height of the parse tree shows there).
func c11Deep(env *core.Env, d int, variant int) {
	defer env.In("deep", d, variant)()
	var tree *gen.Expr = &gen.Expr{K: "lit", Text: "1"}
	for i := 0; i < d; i++ {
		inner := &gen.Expr{K: "bin", Text: []string{"+", "*", "-"}[(i+variant)%3], Kids: []*gen.Expr{tree, {K: "lit", Text: fmt.Sprint(i + 2)}}}
		switch (i + variant) % 3 {
		case 0:
			tree = &gen.Expr{K: "func", Text: "iif", Kids: []*gen.Expr{{K: "bin", Text: "=", Kids: []*gen.Expr{{K: "lit", Text: "1"}, {K: "lit", Text: "1"}}}, inner, {K: "lit", Text: "0"}}}
		case 1:
			tree = &gen.Expr{K: "func", Text: "select", Recv: true, Kids: []*gen.Expr{{K: "lit", Text: "1"}, inner}}
		default:
			tree = &gen.Expr{K: "func", Text: "abs", Recv: true, Kids: []*gen.Expr{inner}}
		}
	}
	env.Cover("deep-nesting")
	c11Check(env, tree, uint64(d)*17+uint64(variant), "deep")
}

func c11BigLiteral(env *core.Env, lit string, shape int) {
	defer env.In("biglit", lit, shape)()
	l := &gen.Expr{K: "lit", Text: lit}
	pat := &gen.Expr{K: "ident", Text: "Patient"}
	names := &gen.Expr{K: "member", Text: "name", Kids: []*gen.Expr{pat}}
	neg := &gen.Expr{K: "unary", Text: "-", Kids: []*gen.Expr{l}}
	var tree *gen.Expr
	switch shape {
	case 0:
		tree = &gen.Expr{K: "index", Kids: []*gen.Expr{names, l}} // Patient.name[N]
	case 1:
		tree = &gen.Expr{K: "index", Kids: []*gen.Expr{names, neg}} // Patient.name[-N]
	case 2:
		tree = &gen.Expr{K: "func", Text: "skip", Recv: true, Kids: []*gen.Expr{names, l}}
	case 3:
		tree = &gen.Expr{K: "func", Text: "take", Recv: true, Kids: []*gen.Expr{names, neg}}
	case 4:
		tree = &gen.Expr{K: "bin", Text: "+", Kids: []*gen.Expr{{K: "lit", Text: "1"}, l}}
	case 5:
		tree = &gen.Expr{K: "bin", Text: "=", Kids: []*gen.Expr{neg, l}}
	case 6:
		tree = &gen.Expr{K: "func", Text: "substring", Recv: true, Kids: []*gen.Expr{{K: "lit", Text: "'abc'"}, l, neg}}
	case 8:
		tree = &gen.Expr{K: "func", Text: "toString", Recv: true, Kids: []*gen.Expr{l}} // N.toString()
	case 9:
		tree = &gen.Expr{K: "index", Kids: []*gen.Expr{names, {K: "func", Text: "abs", Recv: true, Kids: []*gen.Expr{l}}}} // Patient.name[N.abs()]
	case 10:
		tree = &gen.Expr{K: "func", Text: "abs", Recv: true, Kids: []*gen.Expr{neg}} // (-N).abs() / -N.abs()
	case 11:
		tree = &gen.Expr{K: "bin", Text: "+", Kids: []*gen.Expr{{K: "func", Text: "abs", Recv: true, Kids: []*gen.Expr{l}}, {K: "member", Text: "value", Kids: []*gen.Expr{l}}}}
	default:
		tree = &gen.Expr{K: "index", Kids: []*gen.Expr{{K: "index", Kids: []*gen.Expr{names, l}}, {K: "bin", Text: "-", Kids: []*gen.Expr{l, l}}}} // Patient.name[N][N - N]
	}
	env.Cover("boundary-literal")
	c11Check(env, tree, uint64(shape)*31+uint64(len(lit)), "biglit")
}

// c11ElementNames: every element name of every resource type and data type reachable from the resource types.
func c11ElementNames() []string {
	seen := map[string]bool{}
	seenMsg := map[protoreflect.FullName]bool{}
	var walk func(d protoreflect.MessageDescriptor)
	walk = func(d protoreflect.MessageDescriptor) {
		if seenMsg[d.FullName()] {
			return
		}
		seenMsg[d.FullName()] = true
		fs := d.Fields()
		for i := 0; i < fs.Len(); i++ {
			seen[fs.Get(i).JSONName()] = true
			if m := fs.Get(i).Message(); m != nil && strings.HasPrefix(string(m.FullName()), "google.fhir.r4.core.") && m.Name() != "ContainedResource" {
				walk(m)
			}
		}
	}
	for _, md := range gen.ResourceTypes() {
		walk(md)
	}
	var names []string
	for n := range seen {
		if n != "" && n[0] >= 'a' && n[0] <= 'z' {
			names = append(names, n)
		}
	}
	sort.Strings(names)
	return names
}

func c11Chain(env *core.Env, op1, op2 string, operands int, right bool) {
	defer env.In("chain", op1, op2, operands, right)()
	sets := [][3]string{{"1", "2", "3"}, {"true", "false", "true"}, {"'a'", "'b'", "'c'"}, {"{}", "1", "2"}, {"3", "2", "1"}}
	o := sets[operands%len(sets)]
	l := func(t string) *gen.Expr {
		if t == "{}" {
			return &gen.Expr{K: "empty", Text: "{}"}
		}
		return &gen.Expr{K: "lit", Text: t}
	}
	var tree *gen.Expr
	if right {
		tree = &gen.Expr{K: "bin", Text: op1, Kids: []*gen.Expr{l(o[0]), {K: "bin", Text: op2, Kids: []*gen.Expr{l(o[1]), l(o[2])}}}}
	} else {
		tree = &gen.Expr{K: "bin", Text: op2, Kids: []*gen.Expr{{K: "bin", Text: op1, Kids: []*gen.Expr{l(o[0]), l(o[1])}}, l(o[2])}}
	}
	env.Cover("operator-chain")
	c11Check(env, tree, uint64(operands)*7+uint64(len(op1))*131+uint64(len(op2)), "chain")
}

func replayC11Chain(env *core.Env, a []json.RawMessage) {
	var op1, op2 string
	var operands int
	var right bool
	json.Unmarshal(a[0], &op1)
	json.Unmarshal(a[1], &op2)
	json.Unmarshal(a[2], &operands)
	json.Unmarshal(a[3], &right)
	c11Chain(env, op1, op2, operands, right)
}

func replayC11Word(env *core.Env, a []json.RawMessage) {
	var w string
	var sh int
	json.Unmarshal(a[0], &w)
	json.Unmarshal(a[1], &sh)
	c11Word(env, w, sh)
}

func replayC11Pure(env *core.Env, a []json.RawMessage) {
	var seed uint64
	var kind string
	var depth int
	json.Unmarshal(a[0], &seed)
	json.Unmarshal(a[1], &kind)
	json.Unmarshal(a[2], &depth)
	c11Pure(env, seed, kind, depth)
}

func runC11(env *core.Env) {
	rng := env.Rng("trees")
	cats := []string{"any", "num", "str", "bool", "date", "coll", "bool", "num"}
	total := env.Size(2500, 150000)
	for i := 0; i < total; i++ {
		seed := rng.Next()
		cat := cats[rng.Intn(len(cats))]
		depth := 1 + rng.Intn(6)
		if !env.Mine(i) {
			continue
		}
		c11Tree(env, seed, cat, depth)
	}
	k := 0
	for _, w := range c11Words {
		for shape := 0; shape < 18; shape++ {
			if shape == 12 {
				continue
			}
			k++
			if env.Mine(k) {
				c11Word(env, w, shape)
			}
		}
	}
	// every element name and function name directly after an operator symbol (no blank in the tight re-spelling)
	for _, w := range c11ElementNames() {
		for _, shape := range []int{11, 13, 14} {
			k++
			if env.Mine(k) {
				env.Cover("element-name-after-operator")
				c11Word(env, w, shape)
			}
		}
	}
	for _, w := range funcNames() {
		k++
		if env.Mine(k) {
			c11Word(env, w, 12)
		}
	}
	for d := 2; d <= 14; d++ {
		for variant := 0; variant < 3; variant++ {
			k++
			if env.Mine(k) {
				c11Deep(env, d, variant)
			}
		}
	}
	// integer literals at and beyond the Integer range, in every position a literal can stand (a literal means the same
	// with and without parentheses around it)
	for _, lit := range []string{"2147483647", "2147483648", "4294967296", "4294967297", "9223372036854775808", "99999999999999999999", "0", "00", "007"} {
		for shape := 0; shape < 13; shape++ {
			k++
			if env.Mine(k) {
				c11BigLiteral(env, lit, shape)
			}
		}
	}
	for i1, op := range c11Ops {
		for i2, typeOp := range c11TypeOps {
			for grouping := 0; grouping < 3; grouping++ {
				sets := []int{(i1 + i2) % 6, (i1 + i2 + 3) % 6}
				if !env.Quick() {
					sets = []int{0, 1, 2, 3, 4, 5}
				}
				for _, set := range sets {
					k++
					if env.Mine(k) {
						c11TypeChain(env, op, typeOp, set, grouping)
					}
				}
			}
		}
	}
	for i1, op1 := range c11Ops {
		for i2, op2 := range c11Ops {
			for _, right := range []bool{false, true} {
				sets := []int{(i1 + i2) % 5}
				if !env.Quick() {
					sets = []int{0, 1, 2, 3, 4}
				}
				for _, set := range sets {
					k++
					if env.Mine(k) {
						c11Chain(env, op1, op2, set, right)
					}
				}
			}
		}
	}
	totalPure := env.Size(1500, 100000)
	for i := 0; i < totalPure; i++ {
		seed := rng.Next()
		kind := []string{"int", "bool", "bool", "str"}[rng.Intn(4)]
		depth := 1 + rng.Intn(5)
		if !env.Mine(i) {
			continue
		}
		c11Pure(env, seed, kind, depth)
	}
}
