package props

import (
	"encoding/json"
	"fmt"
	"regexp"
	"strings"

	dtpb "github.com/google/fhir/go/proto/google/fhir/proto/r4/core/datatypes_go_proto"
	"github.com/verily-src/fhirpath-go/fhirpath"
	"github.com/verily-src/fhirpath-go/fhirpath/evalopts"
	"github.com/verily-src/fhirpath-go/fhirpath/system"
	"github.com/verily-src/fhirpath-go/fhirpath/verifharness/core"
	"github.com/verily-src/fhirpath-go/fhirpath/verifharness/fx"
	"github.com/verily-src/fhirpath-go/fhirpath/verifharness/gen"
	"github.com/verily-src/fhirpath-go/fhirpath/verifharness/model"
	"google.golang.org/protobuf/proto"
)

// C13 — conversion functions are mutually consistent and round-trip through strings.

func init() {
	core.Register(&core.Property{
		ID:   "C13",
		Rule: "items = System value pool (every type, precision, boundary) ∪ FHIR primitive and complex elements (fixed carriers incl. date / coarse dateTime elements whose instant lies inside their period, and every element of generated resources of all 146 R4 types, model value taken from the FHIR JSON) ∪ seeded one/two-edit mutants of valid renderings ∪ strings from a grammar of valid / near-valid renderings (incl. ' 1', '+1', '1e3', 'T', 'yes', '2020-13-01', '24:00', \"5 'mg'\", '5', '5 days'); for every (item, target T in the 8 System types): convertsToT ⇔ toT non-empty, unconvertible ⇒ empty, result is of type T, toT idempotent, x.toString().toT() = x for x of type T, success set = FHIRPath conversion table (DESIGN A.4). $this used by two conversions (all 64 target pairs) and the caller's collection compared afterwards; distinct_nontrivial = distinct (item, target) pairs the conversion table decides as convertible, excluding identity conversions",
		Assumptions: []string{"the conversion table of DESIGN A.4 (from N1 §5.5) decides strings by regular expressions; renderings the table does not mention (trailing 'T' on partial DateTimes, Decimal 1.00 -> Boolean) are only subject to the consistency laws"},
		Run:    runC13,
		Checks: map[string]func(*core.Env, []json.RawMessage){"conv": replayC13, "conv-res": replayC13Res, "conv-str": replayC13Str},
		Threshold: func(m *core.Merged) []string {
			var r []string
			for _, t := range c13Targets {
				if m.Cover["target:"+t] == 0 {
					r = append(r, "never observed target "+t)
				}
				if m.Cover["convertible:"+t] == 0 {
					r = append(r, "no convertible item observed for "+t)
				}
			}
			for _, k := range []string{"unconvertible", "roundtrip", "item:fhir", "item:complex", "item:string-grammar", "item:fhir-gen", "item:complex-gen", "item:string-mutant", "gen-kind:Boolean", "gen-kind:Integer", "gen-kind:Decimal", "gen-kind:String", "gen-kind:Date", "gen-kind:DateTime", "gen-kind:Time", "gen-kind:Complex"} {
				if m.Cover[k] == 0 {
					r = append(r, "never observed: "+k)
				}
			}
			return r
		},
	})
}

var c13Targets = []string{"Boolean", "Integer", "Decimal", "String", "Date", "DateTime", "Time", "Quantity"}

type c13Item struct {
	Key   string // description / source
	Class string // sys | fhir | complex | string-grammar
	Val   any    // runtime value
	M     model.CVal
}

var (
	reInt  = regexp.MustCompile(`^(\+|-)?\d+$`)
	reDec  = regexp.MustCompile(`^(\+|-)?\d+(\.\d+)?$`)
	reQty  = regexp.MustCompile(`^(\+|-)?\d+(\.\d+)?\s*('[^']+'|[a-zA-Z]+)?$`)
	reWideOffset = regexp.MustCompile(`[+-](1[4-9]|2[0-3]):[0-5]\d$`)
	reTime = regexp.MustCompile(`^\d\d(:\d\d(:\d\d(\.\d+)?)?)?$`)
)

// convertible: "yes" | "no" | "" (table does not decide)
func convertible(m model.CVal, target string) string {
	yn := func(b bool) string {
		if b {
			return "yes"
		}
		return "no"
	}
	if m.Kind == "Complex" {
		return "no"
	}
	if m.Kind == "Unknown" {
		return ""
	}
	if m.Kind == target {
		return "yes"
	}
	switch target {
	case "String":
		return "yes"
	case "Boolean":
		switch m.Kind {
		case "Integer":
			return yn(m.N.IsInt() && (m.N.Num().Int64() == 0 || m.N.Num().Int64() == 1) && m.N.Num().IsInt64())
		case "Decimal":
			if m.N.IsInt() && m.N.Num().IsInt64() && (m.N.Num().Int64() == 0 || m.N.Num().Int64() == 1) {
				if m.S == "1.0" || m.S == "0.0" {
					return "yes"
				}
				return ""
			}
			return "no"
		case "String":
			switch strings.ToLower(m.S) {
			case "true", "t", "yes", "y", "1", "1.0", "false", "f", "no", "n", "0", "0.0":
				return "yes"
			}
			return "no"
		}
		return "no"
	case "Integer":
		switch m.Kind {
		case "Boolean":
			return "yes"
		case "String":
			if !reInt.MatchString(m.S) {
				return "no"
			}
			r, _ := model.ParseNum(strings.TrimPrefix(m.S, "+"))
			return yn(model.FitsInt32(r))
		}
		return "no"
	case "Decimal":
		switch m.Kind {
		case "Integer", "Boolean":
			return "yes"
		case "String":
			return yn(reDec.MatchString(m.S))
		}
		return "no"
	case "Date":
		switch m.Kind {
		case "DateTime":
			return "yes"
		case "String":
			_, ok := model.ParseTemporal("Date", m.S)
			if strings.HasPrefix(m.S, "@") {
				return "no"
			}
			return yn(ok)
		}
		return "no"
	case "DateTime":
		switch m.Kind {
		case "Date":
			return "yes"
		case "String":
			if strings.HasPrefix(m.S, "@") {
				return "no"
			}
			t, ok := model.ParseTemporal("DateTime", m.S)
			if !ok {
				if reWideOffset.MatchString(m.S) {
					return "" // an offset beyond +-14:00: FHIR forbids it, the FHIRPath string form does not say
				}
				return "no"
			}
			if strings.HasSuffix(m.S, "T") {
				return "" // partial value with a trailing T: not covered by the table
			}
			if t.Frac != "" && len(t.Frac) != 3 {
				return ""
			}
			return "yes"
		}
		return "no"
	case "Time":
		switch m.Kind {
		case "String":
			if !reTime.MatchString(m.S) {
				return "no"
			}
			t, ok := model.ParseTemporal("Time", m.S)
			if !ok {
				return "no"
			}
			if t.Frac != "" && len(t.Frac) != 3 {
				return ""
			}
			return "yes"
		}
		return "no"
	case "Quantity":
		switch m.Kind {
		case "Integer", "Decimal", "Boolean":
			return "yes"
		case "String":
			return yn(reQty.MatchString(m.S))
		}
		return "no"
	}
	return ""
}

var c13Compiled = map[string]*fhirpath.Expression{}

func c13Eval(env *core.Env, src string, x any) fx.Res {
	ex := c13Compiled[src]
	if ex == nil {
		var cr fx.Res
		ex, cr = fx.Compile(env, src)
		if ex == nil {
			return cr
		}
		c13Compiled[src] = ex
	}
	return fx.Evaluate(env, ex, nil, evalopts.EnvVariable("x", x))
}

// c13SharedCarrier: the item is read twice through one carrier - `$this` used twice in a projection, and a
// one-item collection variable used by two conversions and across evaluations. A conversion yields a new value;
// the item it was given is still the item.
func c13SharedCarrier(env *core.Env, it c13Item, t1 string) {
	coll := system.Collection{it.Val}
	for _, t2 := range c13Targets {
		sep := c13Eval(env, "%x.convertsTo"+t1+"() and %x.convertsTo"+t2+"()", it.Val)
		for _, form := range []string{"%x.select($this.convertsTo" + t1 + "() and $this.convertsTo" + t2 + "())", "%x.select(convertsTo" + t1 + "() and convertsTo" + t2 + "())"} {
			joint := c13Eval(env, form, coll)
			env.Cover("shared-carrier")
			if joint.IsPanic() {
				env.Violatef(fx.PanicSig("C13", joint), "`%s` with %%x = {%s} => %s", form, it.Key, joint.Short())
				continue
			}
			if strings.Contains(form, ".all(") {
				if sep.IsValue() && joint.Bool3() == "false" {
					env.Violatef("C13/shared-carrier/this-changed-by-conversion", "`%s` with %%x = {%s[%s]} is false: converting the item changed what $this / %%x denote", form, it.Key, it.Class)
				}
				continue
			}
			if sep.IsValue() && joint.IsValue() && !fx.Same(sep, joint) {
				env.Violatef("C13/shared-carrier/this-changed-by-conversion", "`%s` with %%x = {%s[%s]} gives %s, the two conversions asked separately give %s", form, it.Key, it.Class, trunc(joint.Short(), 60), trunc(sep.Short(), 60))
			}
		}
	}
	if len(coll) != 1 || !sameItem(coll[0], it.Val) {
		env.Violatef("C13/shared-carrier/variable-collection-modified", "after converting %%x = {%s[%s]} to %s the caller's collection holds %s", it.Key, it.Class, t1, trunc(fx.Render(coll[0]).String(), 80))
	}
}

func c13Check(env *core.Env, idx int, target string) {
	defer env.In("conv", idx, target)()
	items := c13Items(env)
	c13CheckItem(env, items[idx], target)
	c13SharedCarrier(env, items[idx], target)
}

func c13CheckItem(env *core.Env, it c13Item, target string) {
	env.Case()
	env.Cover("target:" + target)
	env.Cover("item:" + it.Class)
	desc := fmt.Sprintf("%s[%s]", it.Key, it.Class)
	to := c13Eval(env, "%x.to"+target+"()", it.Val)
	conv := c13Eval(env, "%x.convertsTo"+target+"()", it.Val)
	cls := it.M.Kind + "->" + target
	if to.IsPanic() {
		env.Violatef(fx.PanicSig("C13", to), "%s.to%s() => %s", desc, target, to.Short())
		return
	}
	if conv.IsPanic() {
		env.Violatef(fx.PanicSig("C13", conv), "%s.convertsTo%s() => %s", desc, target, conv.Short())
		return
	}
	want := convertible(it.M, target)
	env.SampleSpread(desc+target, map[string]string{"item": desc, "target": target, "table": want, "toT": trunc(to.Short(), 80), "convertsToT": trunc(conv.Short(), 40)})
	// (b) unconvertible => empty, not an error, not a value
	if want == "no" {
		env.Cover("unconvertible")
		if !to.Empty() {
			kind := "value-instead-of-empty"
			if to.IsError() {
				kind = "error-instead-of-empty"
			} else if len(to.Items) > 0 {
				kind += ":" + to.Items[0].K
				if to.Items[0].K == "Boolean" {
					kind += "(" + to.Items[0].T + ")"
				}
			}
			env.Violatef("C13/"+cls+"/unconvertible/"+kind, "%s.to%s(): the conversion table says not convertible => must be empty, observed %s", desc, target, trunc(to.Short(), 160))
		}
		if conv.Bool3() != "false" {
			env.Violatef("C13/"+cls+"/unconvertible/convertsTo-not-false", "%s.convertsTo%s(): expected false, observed %s", desc, target, trunc(conv.Short(), 120))
		}
		return
	}
	if want == "yes" {
		env.Cover("convertible:" + target)
		if it.M.Kind != target {
			env.Distinct(it.Key + "|" + it.Class + "|" + target)
		}
		single, ok := to.Single()
		if !ok {
			env.Violatef("C13/"+cls+"/convertible/no-value", "%s.to%s(): the conversion table says convertible, observed %s", desc, target, trunc(to.Short(), 160))
			return
		}
		if single.K != target {
			env.Violatef("C13/"+cls+"/convertible/wrong-type", "%s.to%s() returned %s", desc, target, single)
			return
		}
		if conv.Bool3() != "true" {
			env.Violatef("C13/"+cls+"/convertible/convertsTo-not-true", "%s.convertsTo%s(): expected true, observed %s", desc, target, trunc(conv.Short(), 120))
		}
	}
	// toString() of an element the library treats as complex answering the Boolean false: one defect, one signature
	if target == "String" && it.Class == "fhir-gen" && it.M.Kind == "Unknown" && len(to.Items) == 1 && to.Items[0].K == "Boolean" && to.Items[0].T == "false" {
		if _, isMsg := it.Val.(proto.Message); isMsg && !gen.IsPrimitive(it.Val.(proto.Message).ProtoReflect().Descriptor()) {
			env.Violatef("C13/Complex->String/unconvertible/value-instead-of-empty:Boolean(false)", "%s.toString() returned the Boolean false", desc)
			if conv.Bool3() != "false" {
				env.Violatef("C13/Complex->String/convertsTo-inconsistent", "%s: toString() yields no String, but convertsToString() = %s", desc, trunc(conv.Short(), 60))
			}
			return
		}
	}
	// (a) consistency for every item, also undecided ones
	if to.IsError() {
		env.Violatef("C13/"+cls+"/toT-error", "%s.to%s() is an error (must be a value or empty): %s", desc, target, trunc(to.Short(), 160))
		return
	}
	nonEmpty := to.IsValue() && len(to.Items) > 0
	if b := conv.Bool3(); (b == "true") != nonEmpty || (b != "true" && b != "false") {
		env.Violatef("C13/"+cls+"/convertsTo-inconsistent", "%s: convertsTo%s() = %s but to%s() = %s", desc, target, trunc(conv.Short(), 60), target, trunc(to.Short(), 100))
	}
	if !nonEmpty {
		return
	}
	// (c) result type
	if len(to.Items) != 1 || to.Items[0].K != target {
		env.Violatef("C13/"+cls+"/result-type", "%s.to%s() returned %s", desc, target, trunc(to.Short(), 120))
		return
	}
	// (d) idempotent
	twice := c13Eval(env, "%x.to"+target+"().to"+target+"()", it.Val)
	if !fx.Same(twice, to) {
		env.Violatef("C13/"+cls+"/not-idempotent", "%s: to%s() = %s but applied twice = %s", desc, target, trunc(to.Short(), 100), trunc(twice.Short(), 100))
	}
	// (e') the result y = x.toT() is itself of type T, so the round-trip law applies to it as well: y.toString().toT() = y
	if it.M.Kind != target && target != "String" && it.Class != "complex" {
		env.Cover("result-roundtrip")
		rt := c13Eval(env, "%x.to"+target+"().toString().to"+target+"() = %x.to"+target+"()", it.Val)
		if rt.Bool3() != "true" {
			sub := ""
			if target == "Quantity" {
				// (the unquoted-unit rendering of Quantity.toString() is a recorded finding; classify like (e))
				q := to.Items[0].T
				sub = "/empty-unit"
				if i := strings.IndexByte(q, ' '); i >= 0 && strings.Trim(q[i+1:], "' ") != "" {
					sub = "/alphabetic-unit"
					for _, c := range strings.Trim(q[i+1:], "'") {
						if !(c >= 'a' && c <= 'z' || c >= 'A' && c <= 'Z') {
							sub = "/non-alphabetic-unit"
						}
					}
				}
			}
			env.Violatef("C13/"+target+"/string-roundtrip"+sub, "%s: y = x.to%s() = %s, but y.toString().to%s() = y is %s", desc, target, trunc(to.Short(), 80), target, trunc(rt.Short(), 80))
		}
	}
	// (g) the value of a Date <-> DateTime conversion is the same calendar text at the same precision
	if (it.M.Kind == "DateTime" && target == "Date") || (it.M.Kind == "Date" && target == "DateTime") {
		env.Cover("temporal-conversion-value")
		comps := it.M.T.Comps
		if comps > 3 {
			comps = 3
		}
		want := fmt.Sprintf("%04d", it.M.T.Y)
		if comps >= 2 {
			want += fmt.Sprintf("-%02d", it.M.T.Mo)
		}
		if comps >= 3 {
			want += fmt.Sprintf("-%02d", it.M.T.D)
		}
		got := strings.TrimSuffix(to.Items[0].T, "T")
		if got != want {
			env.Violatef("C13/"+cls+"/wrong-value", "%s.to%s() = %s, expected the calendar date %s as written", desc, target, to.Items[0], want)
		}
	}
	// (e) round trip through the string form for items already of type T
	if it.M.Kind == target && it.Class != "complex" {
		env.Cover("roundtrip")
		rt := c13Eval(env, "%x.toString().to"+target+"() = %x", it.Val)
		if rt.Bool3() != "true" {
			str := c13Eval(env, "%x.toString()", it.Val)
			sub := ""
			if target == "Quantity" {
				sub = "/alphabetic-unit"
				for _, c := range it.M.Unit {
					if !(c >= 'a' && c <= 'z' || c >= 'A' && c <= 'Z') {
						sub = "/non-alphabetic-unit"
					}
				}
			}
			env.Violatef("C13/"+target+"/string-roundtrip"+sub, "%s: x.toString().to%s() = x is %s (toString() = %s)", desc, target, trunc(rt.Short(), 100), trunc(str.Short(), 80))
		}
	}
}

func replayC13(env *core.Env, a []json.RawMessage) {
	var idx int
	var target string
	json.Unmarshal(a[0], &idx)
	json.Unmarshal(a[1], &target)
	c13Check(env, idx, target)
	it := c13Items(env)[idx]
	fmt.Printf("item %d = %s [%s], target %s, table says %q\n", idx, it.Key, it.Class, target, convertible(it.M, target))
}

var c13ItemCache []c13Item

func c13Items(env *core.Env) []c13Item {
	if c13ItemCache != nil {
		return c13ItemCache
	}
	var out []c13Item
	var srcs []string
	for _, g := range [][]string{gen.IntSrcs, gen.DecSrcs, gen.BoolSrcs, gen.DateSrcs, gen.DTSrcs, gen.TimeSrcs, gen.QtySrcs} {
		for _, s := range g {
			if !strings.HasPrefix(s, "%") {
				srcs = append(srcs, s)
			}
		}
	}
	srcs = append(srcs, "'abc'", "''", "'é'")
	for _, s := range srcs {
		m, ok := model.ParseLiteral(s)
		if !ok {
			continue
		}
		if m.Kind == "Decimal" {
			m.S = strings.Trim(s, "()-")
		}
		r := fx.E(env, s)
		if v, ok := r.Single(); ok && len(r.Raw) == 1 {
			_ = v
			out = append(out, c13Item{s, "sys", r.Raw[0], m})
			for variant := 0; variant < 3; variant++ {
				// variant 2: a date / coarse dateTime element built from a point in time inside its period (not its first instant)
				if variant == 2 && !(m.Kind == "Date" || (m.Kind == "DateTime" && m.T.Comps <= 3)) {
					break
				}
				if fv, ok := fhirCarrier(m, variant); ok {
					out = append(out, c13Item{s, "fhir", fv, m})
				}
			}
		}
	}
	// string grammar
	strs := []string{"1", "0", "-1", "+1", " 1", "1 ", "01", "1.0", "0.0", "1.00", "1.", ".5", "1e3", "1E3", "0x10", "2147483647", "2147483648", "-2147483648", "-2147483649", "99999999999", "1,5",
		"true", "false", "TRUE", "t", "T", "f", "yes", "YES", "no", "y", "n", "Y", "maybe", "tru", "tRUE", "TrUe", "fALSE", "FaLsE", "yEs", "nO", "True", "False", "F", "N", "NO", "1.0", "0.00",
		"2020", "2020-01", "2020-01-02", "2020-13-01", "2020-02-30", "2020-1-1", "20200101", "2020-01-02T", "2020T", "2020-01T", "@2020", "2020-01-02T10", "2020-01-02T10:30", "2020-01-02T10:30:00", "2020-01-02T10:30:00.123", "2020-01-02T10:30:00Z", "2020-01-02T10:30:00+05:30", "2020-01-02T10:30:00.123-11:00", "2020-01-02T24:00:00", "2020-01-02T10:60", "2020-01-02 10:30", "2020-01-02T10:30:00+25:00", "2020-01-02T10:30:00.1234Z", "2020-01-02T10Z",
		"10", "10:30", "10:30:00", "10:30:00.123", "24:00", "25:00", "10:60", "10:30:60", "T10:30", "@T10:30", "1:30", "10:30:00.1", "10:30Z",
		"5", "5 'mg'", "5'mg'", "5 mg", "5 days", "5 day", "5.5 'kg'", "+5 'mg'", "-5.0 'mg'", "5 'mg", "'mg'", "mg", "5  'mg'", "5 'kg/m2'", "5 '1'", "5\t mg", "5\tmg", "1.5\r days", "5 'm g'", "5\n'mg'", "5 \t 'mg'", "1 year", "1 'wk'", "five", "5 5", "",
		"abc", "é", "null", "NaN", "Infinity", "-"}
	for _, s := range strs {
		out = append(out, c13Item{model.QuoteStr(s), "string-grammar", system.String(s), model.CVal{Kind: "String", S: s}})
	}
	// FHIR decimal elements written with an exponent (legal FHIR decimals; the same numbers as the plain spellings)
	for _, e := range [][2]string{{"1.5E2", "150"}, {"1e3", "1000"}, {"2E-2", "0.02"}, {"-4.2e+1", "-42"}, {"1.50e0", "1.50"}, {"25e-1", "2.5"}} {
		if m, ok := model.ParseLiteral(e[1]); ok {
			if m.Kind == "Integer" {
				m, _ = model.ParseLiteral(e[1] + ".0")
			}
			m.S = e[1]
			out = append(out, c13Item{"fhir decimal '" + e[0] + "'", "fhir", &dtpb.Decimal{Value: e[0]}, m})
		}
	}
	// a FHIR string element carrying a convertible rendering, a code, and complex items
	out = append(out, c13Item{"fhir string '12'", "fhir", &dtpb.String{Value: "12"}, model.CVal{Kind: "String", S: "12"}})
	out = append(out, c13Item{"fhir code 'true'", "fhir", &dtpb.Code{Value: "true"}, model.CVal{Kind: "String", S: "true"}})
	out = append(out, c13Item{"fhir uri", "fhir", &dtpb.Uri{Value: "http://x"}, model.CVal{Kind: "String", S: "http://x"}})
	for _, e := range gen.StdEnv() {
		if e.Class == "elem-complex" || e.Class == "resource" {
			out = append(out, c13Item{"%" + e.Name, "complex", e.Value, model.CVal{Kind: "Complex"}})
		}
	}
	c13ItemCache = out
	return out
}

// c13NodeModel derives the comparison-model value of a generated resource's element from its FHIR JSON.
func c13NodeModel(nd *model.Node) model.CVal {
	unknown := model.CVal{Kind: "Unknown"}
	if nd.MD == nil {
		return unknown
	}
	if !nd.IsPrim {
		switch string(nd.MD.Name()) {
		case "Quantity", "Age", "Duration", "SimpleQuantity", "Count", "Distance", "MoneyQuantity":
			return unknown // FHIR quantities map to System Quantity when they carry a value: laws only
		}
		return model.CVal{Kind: "Complex"}
	}
	if nd.JSON == nil {
		return unknown // value-less primitive (extension only)
	}
	name := string(nd.MD.Name())
	switch jv := nd.JSON.(type) {
	case bool:
		return model.CVal{Kind: "Boolean", B: jv}
	case json.Number:
		txt := jv.String()
		if strings.ContainsAny(txt, "eE") {
			return unknown
		}
		r, ok := model.ParseNum(txt)
		if !ok {
			return unknown
		}
		if name == "Decimal" {
			return model.CVal{Kind: "Decimal", N: r, S: strings.TrimPrefix(txt, "-")}
		}
		if !model.FitsInt32(r) {
			return unknown
		}
		return model.CVal{Kind: "Integer", N: r}
	case string:
		switch name {
		case "Date":
			if t, ok := model.ParseTemporal("Date", jv); ok {
				return model.CVal{Kind: "Date", T: t}
			}
			return unknown
		case "DateTime", "Instant":
			if t, ok := model.ParseTemporal("DateTime", jv); ok {
				return model.CVal{Kind: "DateTime", T: t}
			}
			return unknown
		case "Time":
			if t, ok := model.ParseTemporal("Time", jv); ok {
				return model.CVal{Kind: "Time", T: t}
			}
			return unknown
		case "Decimal":
			return unknown
		}
		return model.CVal{Kind: "String", S: jv}
	}
	return unknown
}

// c13Resource checks every element of a generated resource against the eight targets.
func c13Resource(env *core.Env, tn string, seed uint64, rich bool, only int) {
	defer env.In("conv-res", tn, seed, rich, only)()
	res, _ := genResource(tn, seed, rich)
	tree, err := model.BuildTree(res)
	if err != nil {
		env.Skip("resource-not-marshallable")
		return
	}
	nodes := tree.All()
	step := 1
	if only < 0 && len(nodes) > 160 {
		step = len(nodes)/160 + 1
	}
	for i, nd := range nodes {
		if nd.Msg == nil || nd.Synth != nil || (only >= 0 && i != only) || (only < 0 && i%step != 0) {
			continue
		}
		m := c13NodeModel(nd)
		cls := "fhir-gen"
		if m.Kind == "Complex" {
			cls = "complex-gen"
		}
		env.Cover("gen-kind:" + m.Kind)
		it := c13Item{Key: fmt.Sprintf("%s(seed %d) node %d %s %s", tn, seed, i, strings.Join(nd.PathTo(), "."), nd.MD.Name()), Class: cls, Val: nd.Msg, M: m}
		for _, t := range c13Targets {
			c13CheckItem(env, it, t)
		}
	}
}

func replayC13Res(env *core.Env, a []json.RawMessage) {
	var tn string
	var seed uint64
	var rich bool
	only := -1
	json.Unmarshal(a[0], &tn)
	json.Unmarshal(a[1], &seed)
	json.Unmarshal(a[2], &rich)
	json.Unmarshal(a[3], &only)
	c13Resource(env, tn, seed, rich, only)
}

// c13Mutants: seeded single/double edits of the grammar strings over the alphabet of the renderings.
func c13Mutants(env *core.Env, count int) []string {
	base := []string{"1", "-1", "+1", "1.0", "0.0", "10.50", "2147483647", "-2147483648", "true", "false", "t", "yes", "no", "y", "n",
		"2020", "2020-01", "2020-01-02", "2020-12-31", "2020-02-29", "2020-01-02T10", "2020-01-02T10:30", "2020-01-02T10:30:00", "2020-01-02T10:30:00.123", "2020-01-02T10:30:00Z", "2020-01-02T10:30:00+05:30", "2020-01-02T10:30:00.123-11:00",
		"10", "10:30", "10:30:00", "10:30:00.123", "23:59:59.999", "5 'mg'", "5.5 'kg'", "5 days", "1 year", "1 'wk'", "5", "-5.0 'mg'"}
	alphabet := []string{"0", "1", "2", "3", "5", "6", "9", "+", "-", ".", ":", "T", "Z", "'", " ", "e", "a", "m", "g", "y", "é", "/", "@", "\t", "\n", "\r", "  "}
	rng := env.Rng("c13-mutants")
	seen := map[string]bool{}
	var out []string
	for k := 0; k < count*3 && len(out) < count; k++ {
		b := []rune(base[rng.Intn(len(base))])
		for e := 1 + rng.Intn(2); e > 0; e-- {
			pos := rng.Intn(len(b) + 1)
			switch rng.Intn(4) {
			case 0: // insert
				ins := []rune(alphabet[rng.Intn(len(alphabet))])
				b = append(append(append([]rune{}, b[:pos]...), ins...), b[pos:]...)
			case 1: // delete
				if pos < len(b) {
					b = append(append([]rune{}, b[:pos]...), b[pos+1:]...)
				}
			case 2: // replace
				if pos < len(b) {
					b = append(append(append([]rune{}, b[:pos]...), []rune(alphabet[rng.Intn(len(alphabet))])...), b[pos+1:]...)
				}
			default: // duplicate a character
				if pos < len(b) {
					b = append(append(append([]rune{}, b[:pos]...), b[pos]), b[pos:]...)
				}
			}
		}
		str := string(b)
		if !seen[str] {
			seen[str] = true
			out = append(out, str)
		}
	}
	return out
}

func c13Mutant(env *core.Env, str string) {
	defer env.In("conv-str", str)()
	env.Cover("item:string-mutant")
	it := c13Item{model.QuoteStr(str), "string-mutant", system.String(str), model.CVal{Kind: "String", S: str}}
	for _, t := range c13Targets {
		c13CheckItem(env, it, t)
	}
}

func replayC13Str(env *core.Env, a []json.RawMessage) {
	var str string
	json.Unmarshal(a[0], &str)
	c13Mutant(env, str)
}

func runC13(env *core.Env) {
	items := c13Items(env)
	n := 0
	for i := range items {
		for _, t := range c13Targets {
			n++
			if env.Mine(n) {
				c13Check(env, i, t)
			}
		}
	}
	// every element of generated resources of every type
	per := env.Size(1, 12)
	for k := 0; k < per; k++ {
		for _, md := range gen.ResourceTypes() {
			n++
			if env.Mine(n) {
				c13Resource(env, string(md.Name()), env.Seed*1000+uint64(k), k%2 == 1, -1)
			}
		}
	}
	// mutated renderings
	for _, str := range c13Mutants(env, env.Size(600, 20000)) {
		n++
		if env.Mine(n) {
			c13Mutant(env, str)
		}
	}
}
