package props

import (
	"sort"

	"github.com/verily-src/fhirpath-go/fhirpath/internal/funcs"
)

// tableEntry is what the monitors read from the function table (through the
// exported funcs.Clone / funcs.AddExperimentalFuncs, i.e. the same tables Compile uses).
type tableEntry struct {
	Name         string
	Min, Max     int
	Experimental bool
}

func readTable() []tableEntry {
	base := funcs.Clone()
	all := funcs.AddExperimentalFuncs(funcs.Clone())
	var out []tableEntry
	for k, f := range all {
		_, inBase := base[k]
		out = append(out, tableEntry{Name: k, Min: f.MinArity, Max: f.MaxArity, Experimental: !inBase})
	}
	// plus whatever the process-wide tables hold (read through the verif hook) that the per-Compile copies lack:
	// such a name is "in the table" all the same, and must resolve
	for _, e := range funcs.VerifTables() {
		if _, ok := all[e.Name]; !ok {
			out = append(out, tableEntry{Name: e.Name, Min: e.MinArity, Max: e.MaxArity, Experimental: e.Table == "experimental"})
		}
	}
	sort.Slice(out, func(i, j int) bool { return out[i].Name < out[j].Name })
	return out
}

// specFn describes a function of the N1 / R4 specification: allowed argument counts, a receiver and
// well-typed arguments, and behavioural fingerprints (boolean programs that must be true) per count.
type specFn struct {
	Name   string
	Counts []int
	Recv   string            // a receiver the function is defined on
	Args   []string          // well-typed arguments (prefix used per count)
	Finger map[int][]string  // argument count -> programs that must evaluate to true
	Impl   bool              // implemented in this library (pinned; see DESIGN 5.16)
	Exp    bool              // experimental table
	Aggregate bool           // documented aggregate: defined on empty input
	SingleArg []int          // argument positions where a single value is required (C07)
}

var specList = []specFn{
	{Name: "empty", Counts: []int{0}, Recv: "%multi", Impl: true, Aggregate: true, Finger: map[int][]string{0: {"{}.empty()", "%multi.empty() = false"}}},
	{Name: "exists", Counts: []int{0, 1}, Recv: "%multi", Args: []string{"$this = 2"}, Impl: true, Aggregate: true, Finger: map[int][]string{0: {"%multi.exists()", "{}.exists() = false"}, 1: {"%multi.exists($this = 2)", "%multi.exists($this = 9) = false"}}},
	{Name: "all", Counts: []int{1}, Recv: "%multi", Args: []string{"$this > 0"}, Impl: true, Aggregate: true, Finger: map[int][]string{1: {"%multi.all($this > 0)", "%multi.all($this > 1) = false"}}},
	{Name: "allTrue", Counts: []int{0}, Recv: "%multib", Impl: true, Aggregate: true, Finger: map[int][]string{0: {"{}.allTrue()", "%multib.allTrue() = false", "%allt.allTrue()"}}},
	{Name: "anyTrue", Counts: []int{0}, Recv: "%multib", Impl: true, Aggregate: true, Finger: map[int][]string{0: {"{}.anyTrue() = false", "%multib.anyTrue()", "%allf.anyTrue() = false"}}},
	{Name: "allFalse", Counts: []int{0}, Recv: "%multib", Impl: true, Aggregate: true, Finger: map[int][]string{0: {"{}.allFalse()", "%multib.allFalse() = false", "%allf.allFalse()"}}},
	{Name: "anyFalse", Counts: []int{0}, Recv: "%multib", Impl: true, Aggregate: true, Finger: map[int][]string{0: {"{}.anyFalse() = false", "%multib.anyFalse()", "%allt.anyFalse() = false"}}},
	{Name: "subsetOf", Counts: []int{1}, Recv: "%multi", Args: []string{"%multi"}},
	{Name: "supersetOf", Counts: []int{1}, Recv: "%multi", Args: []string{"%multi"}},
	{Name: "count", Counts: []int{0}, Recv: "%multi", Impl: true, Aggregate: true, Finger: map[int][]string{0: {"%multi.count() = 3", "{}.count() = 0"}}},
	{Name: "distinct", Counts: []int{0}, Recv: "%dups", Impl: true, Finger: map[int][]string{0: {"%dups.distinct().count() = 2", "%multi.distinct().count() = 3"}}},
	{Name: "isDistinct", Counts: []int{0}, Recv: "%dups", Impl: true, Aggregate: true, Finger: map[int][]string{0: {"%multi.isDistinct()", "%dups.isDistinct() = false"}}},
	{Name: "where", Counts: []int{1}, Recv: "%multi", Args: []string{"$this > 1"}, Impl: true, Finger: map[int][]string{1: {"%multi.where($this > 1).count() = 2", "%multi.where($this > 1).first() = 2"}}},
	{Name: "select", Counts: []int{1}, Recv: "%multi", Args: []string{"$this + 1"}, Impl: true, Finger: map[int][]string{1: {"%multi.select($this + 1).first() = 2", "%multi.select($this + 1).count() = 3"}}},
	{Name: "repeat", Counts: []int{1}, Recv: "%multi", Args: []string{"$this"}},
	{Name: "ofType", Counts: []int{1}, Recv: "%multi", Args: []string{"Integer"}},
	{Name: "single", Counts: []int{0}, Recv: "%multi.first()"},
	{Name: "first", Counts: []int{0}, Recv: "%multi", Impl: true, Finger: map[int][]string{0: {"%dups.tail().first() = 1", "%multi.first() = 1"}}},
	{Name: "last", Counts: []int{0}, Recv: "%multi", Impl: true, Finger: map[int][]string{0: {"%dups.last() = 2", "%multi.last() = 3"}}},
	{Name: "tail", Counts: []int{0}, Recv: "%multi", Impl: true, Finger: map[int][]string{0: {"%multi.tail().count() = 2", "%multi.tail().first() = 2"}}},
	{Name: "skip", Counts: []int{1}, Recv: "%multi", Args: []string{"1"}, Impl: true, SingleArg: []int{0}, Finger: map[int][]string{1: {"%multi.skip(2).first() = 3", "%multi.skip(1).first() = 2", "%multi.skip(1).count() = 2"}}},
	{Name: "take", Counts: []int{1}, Recv: "%multi", Args: []string{"2"}, Impl: true, SingleArg: []int{0}, Finger: map[int][]string{1: {"%multi.take(1).count() = 1", "%multi.take(2).count() = 2", "%multi.take(2).last() = 2"}}},
	{Name: "intersect", Counts: []int{1}, Recv: "%multi", Args: []string{"%dups"}, Impl: true, Finger: map[int][]string{1: {"%multi.intersect(%dups).count() = 2"}}},
	{Name: "exclude", Counts: []int{1}, Recv: "%multi", Args: []string{"%dups"}, Impl: true, Finger: map[int][]string{1: {"%multi.exclude(%dups).count() = 1", "%multi.exclude(%dups).first() = 3"}}},
	{Name: "union", Counts: []int{1}, Recv: "%multi", Args: []string{"%dups"}},
	{Name: "combine", Counts: []int{1}, Recv: "%multi", Args: []string{"%dups"}},
	{Name: "iif", Counts: []int{2, 3}, Recv: "", Args: []string{"true", "1", "2"}, Impl: true, Aggregate: true, Finger: map[int][]string{2: {"iif(true, 1) = 1", "iif(false, 1).empty()"}, 3: {"iif(false, 1, 2) = 2", "iif(true, 1, 2) = 1"}}},
	{Name: "toBoolean", Counts: []int{0}, Recv: "'true'", Impl: true, Finger: map[int][]string{0: {"'true'.toBoolean()", "'false'.toBoolean() = false"}}},
	{Name: "convertsToBoolean", Counts: []int{0}, Recv: "'true'", Impl: true, Finger: map[int][]string{0: {"'yes'.convertsToBoolean()", "'maybe'.convertsToBoolean() = false"}}},
	{Name: "toInteger", Counts: []int{0}, Recv: "'12'", Impl: true, Finger: map[int][]string{0: {"'12'.toInteger() is System.Integer", "'12'.toInteger() = 12", "true.toInteger() = 1"}}},
	{Name: "convertsToInteger", Counts: []int{0}, Recv: "'12'", Impl: true, Finger: map[int][]string{0: {"'99'.convertsToInteger()", "'12'.convertsToInteger()", "1.5.convertsToInteger() = false"}}},
	{Name: "toDate", Counts: []int{0}, Recv: "'2020-01-02'", Impl: true, Finger: map[int][]string{0: {"'2020-01-02'.toDate() is System.Date", "'2020-01-02'.toDate() = @2020-01-02"}}},
	{Name: "convertsToDate", Counts: []int{0}, Recv: "'2020-01-02'", Impl: true, Finger: map[int][]string{0: {"'2020-01-02T10:00:00Z'.convertsToDate() = false", "'2020-01-02'.convertsToDate()", "'10:00'.convertsToDate() = false"}}},
	{Name: "toDateTime", Counts: []int{0}, Recv: "'2020-01-02T10:00:00Z'", Impl: true, Finger: map[int][]string{0: {"'2020-01-02T10:00:00Z'.toDateTime() is System.DateTime", "'2020-01-02T10:00:00Z'.toDateTime() = @2020-01-02T10:00:00Z"}}},
	{Name: "convertsToDateTime", Counts: []int{0}, Recv: "'2020-01-01T10:00:00Z'", Impl: true, Finger: map[int][]string{0: {"'2020-01-01T10:00:00Z'.convertsToDateTime()", "'10:00'.convertsToDateTime() = false"}}},
	{Name: "toDecimal", Counts: []int{0}, Recv: "'1.5'", Impl: true, Finger: map[int][]string{0: {"'1.5'.toDecimal() is System.Decimal", "'1.5'.toDecimal() = 1.5", "true.toDecimal() = 1.0"}}},
	{Name: "convertsToDecimal", Counts: []int{0}, Recv: "'1.5'", Impl: true, Finger: map[int][]string{0: {"'1 \\'mg\\''.convertsToDecimal() = false", "'1.5'.convertsToDecimal()", "'x'.convertsToDecimal() = false"}}},
	{Name: "toQuantity", Counts: []int{0, 1}, Recv: "5", Args: []string{"'days'"}, Impl: true, SingleArg: []int{0}, Finger: map[int][]string{0: {"5.toQuantity() is System.Quantity", "5.toQuantity() = 5 '1'", "'1 \\'wk\\''.toQuantity() is System.Quantity"}}},
	{Name: "convertsToQuantity", Counts: []int{0, 1}, Recv: "5", Args: []string{"'days'"}, Impl: true, SingleArg: []int{0}, Finger: map[int][]string{0: {"'5 \\'mg\\''.convertsToQuantity()", "'x'.convertsToQuantity() = false", "Patient.name.first().convertsToQuantity() = false"}, 1: {"5.convertsToQuantity('mg')", "'5 mg'.convertsToQuantity({}).empty()", "5.convertsToQuantity('days')"}}},
	{Name: "toString", Counts: []int{0}, Recv: "12", Impl: true, Finger: map[int][]string{0: {"12.toString() is System.String", "12.toString() = '12'", "true.toString() = 'true'"}}},
	{Name: "convertsToString", Counts: []int{0}, Recv: "12", Impl: true, Finger: map[int][]string{0: {"'abc'.convertsToString()", "{}.convertsToString().empty()", "12.convertsToString()", "Patient.name.first().convertsToString() = false", "Patient.convertsToString() = false"}}},
	{Name: "toTime", Counts: []int{0}, Recv: "'10:30'", Impl: true, Finger: map[int][]string{0: {"'10:30'.toTime() is System.Time", "'10:30'.toTime() = @T10:30"}}},
	{Name: "convertsToTime", Counts: []int{0}, Recv: "'10:30'", Impl: true, Finger: map[int][]string{0: {"'10:30'.convertsToTime()", "'2020'.convertsToTime() = false"}}},
	{Name: "indexOf", Counts: []int{1}, Recv: "'abcdefg'", Args: []string{"'cd'"}, Impl: true, SingleArg: []int{0}, Finger: map[int][]string{1: {"'abcdefg'.indexOf('cd') = 2", "'abcdefg'.indexOf($this.substring(2, 2)) = 2", "'abcdefg'.indexOf('x') = -1"}}},
	{Name: "substring", Counts: []int{1, 2}, Recv: "'abcdefg'", Args: []string{"1", "2"}, Impl: true, SingleArg: []int{0, 1}, Finger: map[int][]string{1: {"'abcdefg'.substring(3) = 'defg'", "'abcdefg'.substring($this.length() - 2) = 'fg'"}, 2: {"'abcdefg'.substring(1, 2) = 'bc'", "'abcdefg'.substring(1, $this.length() - 5) = 'bc'"}}},
	{Name: "startsWith", Counts: []int{1}, Recv: "'abc'", Args: []string{"'ab'"}, Impl: true, SingleArg: []int{0}, Finger: map[int][]string{1: {"'abc'.startsWith('ab')", "'abcabc'.startsWith($this.substring(0, 3))", "'abc'.startsWith('bc') = false"}}},
	{Name: "endsWith", Counts: []int{1}, Recv: "'abc'", Args: []string{"'bc'"}, Impl: true, SingleArg: []int{0}, Finger: map[int][]string{1: {"'abc'.endsWith('bc')", "'abcabc'.endsWith($this.substring(3))", "'abc'.endsWith('ab') = false"}}},
	{Name: "contains", Counts: []int{1}, Recv: "'abc'", Args: []string{"'b'"}, Impl: true, SingleArg: []int{0}, Finger: map[int][]string{1: {"'abc'.contains('a.c') = false", "'abc'.contains('b')", "'abc'.contains($this.substring(1, 1))", "'abc'.contains('x') = false"}}},
	{Name: "upper", Counts: []int{0}, Recv: "'abc'", Impl: true, Finger: map[int][]string{0: {"'abc'.upper() = 'ABC'"}}},
	{Name: "lower", Counts: []int{0}, Recv: "'ABC'", Impl: true, Finger: map[int][]string{0: {"'ABC'.lower() = 'abc'"}}},
	{Name: "replace", Counts: []int{2}, Recv: "'abcdefg'", Args: []string{"'cde'", "'123'"}, Impl: true, SingleArg: []int{0, 1}, Finger: map[int][]string{2: {"'a.c'.replace('.', 'X') = 'aXc'", "'abcabc'.replace($this.substring(0, 1), $this.substring(1, 1)) = 'bbcbbc'", "'abcdefg'.replace('cde', '123') = 'ab123fg'"}}},
	{Name: "matches", Counts: []int{1}, Recv: "'abc'", Args: []string{"'^a.c$'"}, Impl: true, SingleArg: []int{0}, Finger: map[int][]string{1: {"'abc'.matches('b') ", "'abc'.matches($this)", "'a.c'.matches('a\\\\.c')", "'abc'.matches('^a.c$')", "'abd'.matches('^a.c$') = false"}}},
	{Name: "replaceMatches", Counts: []int{2}, Recv: "'abc'", Args: []string{"'b'", "'X'"}, Impl: true, SingleArg: []int{0, 1}, Finger: map[int][]string{2: {"'abc'.replaceMatches('[ab]', 'X') = 'XXc'", "'abc'.replaceMatches($this.substring(1, 1), 'X') = 'aXc'", "'abc'.replaceMatches('b', 'X') = 'aXc'"}}},
	{Name: "length", Counts: []int{0}, Recv: "'abc'", Impl: true, Finger: map[int][]string{0: {"'abc'.length() = 3"}}},
	{Name: "toChars", Counts: []int{0}, Recv: "'abc'", Impl: true, Finger: map[int][]string{0: {"'abc'.toChars().count() = 3", "'abc'.toChars().last() = 'c'"}}},
	{Name: "abs", Counts: []int{0}, Recv: "5", Impl: true, Finger: map[int][]string{0: {"(-5).abs() = 5", "5.abs() = 5"}}},
	{Name: "ceiling", Counts: []int{0}, Recv: "1.1", Impl: true, Finger: map[int][]string{0: {"1.1.ceiling() = 2", "(-1.1).ceiling() = -1"}}},
	{Name: "exp", Counts: []int{0}, Recv: "0", Impl: true, Finger: map[int][]string{0: {"1.exp() > 2.7", "0.exp() = 1.0"}}},
	{Name: "floor", Counts: []int{0}, Recv: "1.9", Impl: true, Finger: map[int][]string{0: {"1.9.floor() = 1", "(-1.1).floor() = -2"}}},
	{Name: "ln", Counts: []int{0}, Recv: "1", Impl: true, Finger: map[int][]string{0: {"1.ln() = 0.0"}}},
	{Name: "log", Counts: []int{1}, Recv: "16", Args: []string{"2"}, Impl: true, SingleArg: []int{0}, Finger: map[int][]string{1: {"16.log(2) = 4.0"}}},
	{Name: "power", Counts: []int{1}, Recv: "2", Args: []string{"3"}, Impl: true, SingleArg: []int{0}, Finger: map[int][]string{1: {"2.power(3) = 8", "2.5.power(2) = 6.25"}}},
	{Name: "round", Counts: []int{0, 1}, Recv: "3.14159", Args: []string{"3"}, Impl: true, SingleArg: []int{0}, Finger: map[int][]string{0: {"3.14159.round() = 3", "1.5.round() = 2"}, 1: {"3.14159.round(3) = 3.142"}}},
	{Name: "sqrt", Counts: []int{0}, Recv: "16", Impl: true, Finger: map[int][]string{0: {"16.sqrt() = 4.0"}}},
	{Name: "truncate", Counts: []int{0}, Recv: "1.9", Impl: true, Finger: map[int][]string{0: {"1.9.truncate() = 1", "(-1.9).truncate() = -1"}}},
	{Name: "children", Counts: []int{0}, Recv: "Patient.name[0]", Impl: true, Finger: map[int][]string{0: {"Patient.contact[0].children().count() = 1", "Patient.name[0].children().count() = 4", "Patient.name[0].children().count() > 0"}}},
	{Name: "descendants", Counts: []int{0}, Recv: "Patient", Impl: true, Finger: map[int][]string{0: {"Patient.contact[0].descendants().count() = 2", "Patient.descendants().count() > Patient.children().count()"}}},
	{Name: "trace", Counts: []int{1, 2}, Recv: "%multi", Args: []string{"'t'", "$this"}},
	{Name: "now", Counts: []int{0}, Recv: "", Impl: true, Aggregate: true, Finger: map[int][]string{0: {"now() is DateTime"}}},
	{Name: "timeOfDay", Counts: []int{0}, Recv: "", Impl: true, Aggregate: true, Finger: map[int][]string{0: {"timeOfDay() is Time"}}},
	{Name: "today", Counts: []int{0}, Recv: "", Impl: true, Aggregate: true, Finger: map[int][]string{0: {"today() is Date"}}},
	{Name: "not", Counts: []int{0}, Recv: "true", Impl: true, Finger: map[int][]string{0: {"{}.not().empty()", "true.not() = false", "false.not()"}}},
	{Name: "extension", Counts: []int{1}, Recv: "%pext", Args: []string{"'http://e/x'"}, Impl: true, SingleArg: []int{0}, Finger: map[int][]string{1: {"%pext.extension('http://e/x').count() = 1", "%pext.extension('http://e/none').empty()"}}},
	{Name: "join", Counts: []int{0, 1}, Recv: "%multis", Args: []string{"','"}, Impl: true, Exp: true, SingleArg: []int{0}, Finger: map[int][]string{0: {"%multis.join() = 'ab'"}, 1: {"%multis.join(',') = 'a,b'"}}},
}

func specByName(name string) *specFn {
	for i := range specList {
		if specList[i].Name == name {
			return &specList[i]
		}
	}
	return nil
}
