package props

import (
	"fmt"

	"github.com/verily-src/fhirpath-go/fhirpath/verifharness/core"
	"github.com/verily-src/fhirpath-go/fhirpath/verifharness/fx"
)

// Probe evaluates sources on the standard inputs (developer aid).
func Probe(srcs []string) {
	env, _ := core.NewEnv("PROBE", "quick", 1, 0, 1, "")
	for _, s := range srcs {
		in, eo := stdInputs()
		r := fx.Eval(env, s, in, buildCompileOpts("experimental"), eo)
		fmt.Printf("%-60s => %s\n", s, r.Short())
	}
}
