package props

import (
	"fmt"

	"github.com/verily-src/fhirpath-go/fhirpath/verifharness/core"
	"github.com/verily-src/fhirpath-go/fhirpath/verifharness/fx"
	"github.com/verily-src/fhirpath-go/fhirpath/verifharness/model"
	"github.com/verily-src/fhirpath-go/internal/fhir"
)

// Probe evaluates sources on the standard inputs (developer aid).
func Probe(srcs []string) {
	env, _ := core.NewEnv("PROBE", "quick", 1, 0, 1, "")
	for _, s := range srcs {
		in, eo := stdInputs()
		r := fx.Eval(env, s, in, buildCompileOpts("experimental"), eo)
		fmt.Printf("%-60s => %s\n", s, r.Short())
	}
}

// ProbeRes prints the JSON of a generated resource and evaluates paths on it.
func ProbeRes(args []string) {
	var seed uint64
	fmt.Sscan(args[1], &seed)
	res, _ := genResource(args[0], seed, args[2] == "true")
	b, err := model.MarshalJSON(res)
	fmt.Println(string(b), err)
	env, _ := core.NewEnv("PROBE", "quick", 1, 0, 1, "")
	for _, s := range args[3:] {
		r := fx.Eval(env, s, []fhir.Resource{res}, nil, nil)
		fmt.Printf("%-60s => %s\n", s, r.Short())
	}
}
