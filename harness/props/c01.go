package props

import (
	"encoding/json"
	"fmt"
	"sort"
	"strings"

	"github.com/verily-src/fhirpath-go/fhirpath"
	"github.com/verily-src/fhirpath-go/fhirpath/compopts"
	"github.com/verily-src/fhirpath-go/fhirpath/evalopts"
	"github.com/verily-src/fhirpath-go/fhirpath/system"
	"github.com/verily-src/fhirpath-go/fhirpath/internal/funcs"
	"github.com/verily-src/fhirpath-go/internal/fhir"
	"github.com/verily-src/fhirpath-go/fhirpath/verifharness/core"
	"github.com/verily-src/fhirpath-go/fhirpath/verifharness/fx"
	"github.com/verily-src/fhirpath-go/fhirpath/verifharness/gen"
)

// C01 — Compile, Evaluate and Patch are total: never panic or hang.
//
// Events: outcome of every public call. Oracle: outcome ∈ {value, error}.

func init() {
	core.Register(&core.Property{
		ID:   "C01",
		Rule: "streams: (1) every binary/unary operator x boundary-pool operand pairs, every function-table name x arity 0..4 x receiver pool x argument pool; (2) grammar-directed expression trees on generated resources of R4 types with option sets; (2m) navigation over Bundles / contained lists mixing resource types that share a backbone element name, and un-rooted paths evaluated on resources of different types in turn; (2e) every element (choice wrappers, code wrappers, value-less primitives, partially populated complex types included) of generated resources of every type x 36 operations that convert, compare or combine it; (3) byte-mutated sources; (4) patch operation x path x value x index. a history stream (orderly failing inputs and custom functions with failing argument binding evaluated repeatedly in one process), mixed containers also under Permissive, wrappers as variables; distinct_nontrivial counts distinct (stream, operator-or-function, operand-class tuple, outcome-kind) keys whose outcome was a value or an error produced by the library (not a compile rejection of the harness' own malformed text)",
		Assumptions: []string{
			"domain bound: source <= 2 KiB, nesting depth <= 64, resources <= ~400 nodes (ANTLR prediction cost is super-linear beyond that)",
			"nil entries inside the input slice, nil option values and typed-nil elements are caller errors (outside the domain)",
			"non-termination is refuted only up to a 5 s (re-run: 50 s) process-CPU budget per call",
		},
		Run:    runC01,
		Checks: map[string]func(*core.Env, []json.RawMessage){"expr": replayC01Expr, "patch": replayC01Patch, "src": replayC01Src, "mixed": replayC01Mixed, "elements": replayC01Elements},
		Threshold: func(m *core.Merged) []string {
			var r []string
			for _, k := range []string{"stream1/binop", "stream1/func", "stream2/tree", "stream2/mixed", "stream2/elements", "stream3/mutated", "stream4/patch"} {
				if m.Cover[k] == 0 {
					r = append(r, "stream not observed: "+k)
				}
			}
			return r
		},
	})
}

var binOps = []string{"*", "/", "div", "mod", "+", "-", "&", "|", "<", "<=", ">", ">=", "=", "!=", "~", "!~", "in", "contains", "and", "or", "xor", "implies"}

func stdInputs() ([]fhir.Resource, []fhirpath.EvaluateOption) {
	return []fhir.Resource{gen.StdPatient()}, gen.EnvOpts(gen.StdEnv())
}

// funcNames returns the names of the function table (base + experimental), sorted.
func funcNames() []string {
	t := funcs.AddExperimentalFuncs(funcs.Clone())
	var names []string
	for k := range t {
		names = append(names, k)
	}
	sort.Strings(names)
	return names
}

// c01Expr evaluates one source on the standard inputs and checks totality.
func c01Expr(env *core.Env, stream, opKey, src string, experimental bool) fx.Res {
	defer env.In("expr", stream, opKey, src, experimental)()
	in, eo := stdInputs()
	var co []fhirpath.CompileOption
	if experimental {
		co = append(co, compopts.WithExperimentalFuncs())
	}
	r := fx.Eval(env, src, in, co, eo)
	env.Case()
	c01Judge(env, stream, opKey, src, r)
	return r
}

func c01Judge(env *core.Env, stream, opKey, src string, r fx.Res) {
	if r.Kind == "dead" {
		return // the parent process already attributes the death / hang of the earlier attempt to this call
	}
	if r.IsPanic() {
		env.Violatef(fx.PanicSig("C01", r), "%s: `%s` => %s", stream, src, r.Short())
		return
	}
	if r.Kind != "cerror" {
		env.Distinct(stream + "|" + opKey + "|" + r.Kind)
	}
	env.SampleSpread(src, map[string]string{"stream": stream, "src": src, "outcome": r.Short()})
}

func replayC01Expr(env *core.Env, a []json.RawMessage) {
	var stream, opKey, src string
	var exp bool
	json.Unmarshal(a[0], &stream)
	json.Unmarshal(a[1], &opKey)
	json.Unmarshal(a[2], &src)
	json.Unmarshal(a[3], &exp)
	r := c01Expr(env, stream, opKey, src, exp)
	fmt.Printf("`%s` => %s\n", src, r.Short())
}

func runC01(env *core.Env) {
	c01History(env)
	c01Stream1(env)
	c01Stream2(env)
	c01Stream2m(env)
	c01Stream2e(env)
	c01Stream3(env)
	c01Stream4(env)
}

// c01History: inputs whose first evaluation fails in an orderly way are evaluated again, from freshly compiled and
// from reused expressions, in the same process (anything remembered from the failed attempt is used now).
func c01History(env *core.Env) {
	n := 0
	for _, pat := range []string{"'(['", "'['", "'('", "'*'", "'a{2,1}'", "'\\\\'", "'(?P<n'", "'[[:foo:]]'", "'a**'", "'\\\\p{Foo}'", "'(?<!a)b'", "''", "'.*'"} {
		for _, tmpl := range []string{"'abc'.matches(%s)", "'abc'.replaceMatches(%s, 'x')", "'abc'.matches(%s) or true", "Patient.name.given.select($this.matches(%s))", "'a,b'.split(%s)", "'abc'.contains(%s)", "'abc'.replace(%s, 'x')", "'abc'.indexOf(%s)"} {
			n++
			if !env.Mine(n) {
				continue
			}
			src := fmt.Sprintf(tmpl, pat)
			for k := 0; k < 3; k++ {
				c01Expr(env, "history", "repeat:"+tmpl, src, true)
			}
			env.Cover("history/repeated-failing-input")
		}
	}
	// a custom function whose argument binding fails for some evaluations and succeeds for others, on one compiled expression
	n++
	if env.Mine(n) {
		tag := func(in system.Collection, s system.String) (system.Collection, error) { return system.Collection{s + "!"}, nil }
		two := func(in system.Collection, a system.Integer, b system.String) (system.Collection, error) {
			return system.Collection{b}, nil
		}
		named := gen.StdPatient()
		nameless := gen.StdPatient()
		nameless.Name = nil
		co := []fhirpath.CompileOption{compopts.AddFunction("tag", tag), compopts.AddFunction("two", two)}
		for _, src := range []string{"tag(Patient.name.given.first().toString())", "Patient.tag(name.given.first().toString())", "Patient.name.select(tag(given.first().toString()))", "Patient.tag(name.given.toString())", "two(Patient.name.count(), Patient.name.first().family.toString())",
			"Patient.name.select(two(given.count(), family.toString()))", "tag(1)", "tag(Patient.name.nosuch)", "Patient.name.select(tag(iif(use.exists(), family.toString(), nosuch)))", "tag(%v)", "two(%v, 'x')", "two(1, %v)"} {
			ex, cr := fx.Compile(env, src, co...)
			if ex == nil {
				if cr.IsPanic() {
					env.Violatef(fx.PanicSig("C01", cr), "history: Compile(`%s`) => %s", src, cr.Short())
				}
				continue
			}
			vals := []any{system.String("s"), system.Collection{}, system.Integer(3), system.Collection{system.String("a"), system.String("b")}, system.Boolean(true), system.String("t"), system.Collection(nil), system.Integer(4)}
			for k := 0; k < 8; k++ {
				in := []fhir.Resource{named}
				if k%2 == 0 {
					in = []fhir.Resource{nameless}
				}
				r := fx.Evaluate(env, ex, in, evalopts.EnvVariable("v", vals[k]))
				env.Case()
				env.Cover("history/custom-function-binding")
				c01Judge(env, "history", "custom-function", src, r)
			}
		}
	}
	for _, src := range []string{"'x'.toInteger()", "'5 zz'.toQuantity()", "@2020-01-31 + 1 'kg'", "1 / 0", "(1 | 2).single()", "%nosuch", "'abc'.substring('a')", "Patient.nosuch", "'2020-13-01'.toDate()", "'25:00'.toTime()", "'1e400'.toDecimal()", "1.5.round(-1)", "%multi.skip('x')", "2147483647 + 1", "@9999-12-31 + 1 day", "'a'.toChars().join(1)"} {
		n++
		if !env.Mine(n) {
			continue
		}
		for k := 0; k < 3; k++ {
			c01Expr(env, "history", "repeat", src, true)
		}
		env.Cover("history/repeated-failing-input")
	}
}

func c01Stream1(env *core.Env) {
	pool := gen.AllPool()
	small := gen.SmallPool()
	n := 0
	// binary operators x pool x pool (full pool on the left, full on the right for
	// arithmetic, representative subset otherwise in the quick tier)
	for _, op := range binOps {
		right := pool
		if env.Quick() && !(op == "/" || op == "div" || op == "mod" || op == "*" || op == "+" || op == "-") {
			right = small
		}
		for _, a := range pool {
			for _, b := range right {
				n++
				if !env.Mine(n) {
					continue
				}
				src := a.Src + " " + op + " " + b.Src
				c01Expr(env, "stream1", "binop:"+op+":"+a.Class+":"+b.Class, src, false)
				env.Cover("stream1/binop")
			}
		}
	}
	// unary, indexer, type operators
	for _, a := range pool {
		for _, tmpl := range []string{"-%s", "+%s", "(%s)[0]", "(%s)[-1]", "(%s)[2147483647]", "(%s)['a']", "(%s)[{}]", "(%s)[%%multi]",
			"%s is Integer", "%s is System.String", "%s as Quantity", "%s as FHIR.string", "%s is Patient", "%s as HumanName", "%s is boolean"} {
			n++
			if !env.Mine(n) {
				continue
			}
			op := strings.ReplaceAll(tmpl, "%s", "_")
			c01Expr(env, "stream1", "unop:"+op+":"+a.Class, fmt.Sprintf(tmpl, a.Src), false)
			env.Cover("stream1/unop")
		}
	}
	// functions x arity x receiver x args
	names := funcNames()
	argPool := small
	if !env.Quick() {
		argPool = pool
	}
	rng := env.Rng("stream1-func")
	var ints []gen.PV
	for _, a := range pool {
		if a.Class == "int" {
			ints = append(ints, a)
		}
	}
	for _, name := range names {
		for _, recv := range pool {
			// arity 0
			n++
			if env.Mine(n) {
				c01Expr(env, "stream1", "func:"+name+"/0:"+recv.Class, fmt.Sprintf("(%s).%s()", recv.Src, name), true)
				env.Cover("stream1/func")
			}
			// arity 1: full arg pool
			for _, a := range argPool {
				n++
				if env.Mine(n) {
					c01Expr(env, "stream1", "func:"+name+"/1:"+recv.Class+":"+a.Class, fmt.Sprintf("(%s).%s(%s)", recv.Src, name, a.Src), true)
					env.Cover("stream1/func")
				}
			}
			// string receivers x every integer (positions and lengths around the character / byte counts)
			if env.Quick() && recv.Class == "str" {
				for _, a := range pool {
					if a.Class != "int" {
						continue
					}
					n++
					if env.Mine(n) {
						c01Expr(env, "stream1", "func:"+name+"/1:"+recv.Class+":"+a.Class, fmt.Sprintf("(%s).%s(%s)", recv.Src, name, a.Src), true)
					}
					n++
					if env.Mine(n) {
						// (second argument chosen without touching the shared stream: every worker walks the same list)
						b := ints[int(core.Hash64(recv.Src+a.Src+name)%uint64(len(ints)))]
						c01Expr(env, "stream1", "func:"+name+"/2:"+recv.Class+":int,int", fmt.Sprintf("(%s).%s(%s, %s)", recv.Src, name, a.Src, b.Src), true)
					}
				}
			}
			// arity 2..4: sampled tuples (deterministic stream, drawn for all shards alike)
			for ar := 2; ar <= 4; ar++ {
				k := env.Size(6, 40)
				if ar > 2 {
					k = env.Size(2, 8)
				}
				for j := 0; j < k; j++ {
					var args, cls []string
					for x := 0; x < ar; x++ {
						a := core.Pick(rng, pool)
						args = append(args, a.Src)
						cls = append(cls, a.Class)
					}
					n++
					if env.Mine(n) {
						c01Expr(env, "stream1", fmt.Sprintf("func:%s/%d:%s:%s", name, ar, recv.Class, strings.Join(cls, ",")), fmt.Sprintf("(%s).%s(%s)", recv.Src, name, strings.Join(args, ", ")), true)
						env.Cover("stream1/func")
					}
				}
			}
		}
		// $this-based and criteria-style arguments for the functions taking expressions
		for _, recv := range pool {
			for _, arg := range []string{"$this", "$this = 1", "$this.length() > 1", "given", "$this / 0", "$this.substring(-1)", "%multi", "{}", "true", "1 | 2", "$index", "$total", "$index = 0", "$total + 1"} {
				n++
				if env.Mine(n) {
					c01Expr(env, "stream1", "func:"+name+"/1x:"+recv.Class, fmt.Sprintf("(%s).%s(%s)", recv.Src, name, arg), true)
				}
			}
		}
	}
}
