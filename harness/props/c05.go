package props

import (
	"encoding/json"
	"fmt"
	"strings"
	"time"

	dtpb "github.com/google/fhir/go/proto/google/fhir/proto/r4/core/datatypes_go_proto"
	"github.com/verily-src/fhirpath-go/fhirpath"
	"github.com/verily-src/fhirpath-go/fhirpath/evalopts"
	"github.com/verily-src/fhirpath-go/fhirpath/system"
	"github.com/verily-src/fhirpath-go/fhirpath/verifharness/core"
	"github.com/verily-src/fhirpath-go/fhirpath/verifharness/fx"
	"github.com/verily-src/fhirpath-go/fhirpath/verifharness/gen"
	"github.com/verily-src/fhirpath-go/fhirpath/verifharness/model"
	"google.golang.org/protobuf/reflect/protoreflect"
)

// C05 — equality and ordering operators form one consistent partial order.

func init() {
	core.Register(&core.Property{
		ID:   "C05",
		Rule: "value pool covering every System type, every Date/DateTime/Time precision x {no offset, Z, +05:30, -11:00}, numeric scale variants, quantities with equal/different/calendar units, each also carried as a FHIR primitive element where representable (strings also as xhtml, markdown, uri, url, canonical, id, oid, uuid elements), plus complex elements, plus every value of every value-set bound code element (4751 values; compared with their FHIR code strings in one process, both orders); all ordered pairs x {=,!=,<,<=,>,>=} (operands as %env values through pre-compiled expressions, and as literal source text for a seeded sample); compared with the comparison model where the statement defines the answer, and with the relational laws (symmetry, negation, converse, trichotomy, transitivity of < within each kind) on every pair; collections of length 0..4 differing at each position, primitive and complex. one compiled comparison per (literal operand, operator, side) evaluated over the whole pool forwards and backwards from several starting points, each outcome equal to the all-variable form; distinct_nontrivial = distinct (left value, right value) pairs on which the model gives an absolute answer and the operands are not identical sources",
		Assumptions: []string{"mixed kinds, Boolean ordering, offset vs no offset, number vs Quantity and singular/plural unit spellings are only subject to the laws (the statement does not define them)",
			"a partial-precision DateTime cannot be shifted by an offset: pairs with different offsets are decided only at second precision or finer"},
		Run:    runC05,
		Checks: map[string]func(*core.Env, []json.RawMessage){"pair": replayC05Pair, "coll": replayC05Coll, "codes": replayC05Codes, "litop": replayC05LitOp},
		Threshold: func(m *core.Merged) []string {
			var r []string
			for _, k := range []string{"model-decided", "law-only", "kind:Integer", "kind:Decimal", "kind:String", "kind:Date", "kind:DateTime", "kind:Time", "kind:Quantity", "kind:Boolean", "kind:Complex", "carrier:fhir", "literal-path", "transitivity", "collection", "collection-complex", "precision-mismatch-empty", "offset-normalised", "code-element"} {
				if m.Cover[k] == 0 {
					r = append(r, "never observed: "+k)
				}
			}
			return r
		},
	})
}

type c05Val struct {
	Src     string
	Carrier string // sys | fhir | complex
	M       model.CVal
}

func c05Sources(env *core.Env) []string {
	src := []string{
		"0", "1", "2", "-1", "2147483647", "(-2147483647 - 1)", "10",
		"0.0", "1.0", "1.00", "0.5", "1.5", "-1.0", "2147483647.0", "10.0", "1.000000000000000000001", "0.999999999999999999999",
		// scales far apart (a comparison that avoids aligning exponents must still order negatives correctly)
		"0." + strings.Repeat("0", 69) + "1", "(-0." + strings.Repeat("0", 69) + "1)", "(-0." + strings.Repeat("0", 69) + "2)", "(-2)", "(-1.5)", "1" + strings.Repeat("0", 70) + ".0", "(-1" + strings.Repeat("0", 70) + ".0)", "(-1" + strings.Repeat("0", 70) + ".5)",
		"''", "'a'", "'A'", "'b'", "'ab'", "'é'", "'z'", "'€'", "'😀'", "'1'", "'a '",
		"true", "false",
		"@2020", "@2021", "@2020-01", "@2020-02", "@2020-01-01", "@2020-01-31", "@2019-12-31", "@2020-02-29", "@2020-03", "@2019-12", "@2019", "@2020-03-01", "@2020-02-28",
		"@2020T", "@2020-01T", "@2020-01-01T", "@2020-01-01T10", "@2020-01-01T10:30", "@2020-01-01T10:30:00", "@2020-01-01T10:30:00.000", "@2020-01-01T10:30:00.500", "@2020-01-01T11",
		"@2020-01-01T10:30:00Z", "@2020-01-01T10:30:00+05:30", "@2020-01-01T16:00:00+05:30", "@2020-01-01T10:30:00-11:00", "@2020-01-01T10:30:00.000Z", "@2020-01-01T10:30:00.001Z", "@2020-01-01T10Z", "@2020-01-01T10:30Z", "@2020-01-01T10:30+05:30", "@2020-01-02T00:00:00+14:00", "@2019-12-31T23:59:59Z",
		// same fractional-hour offset at different precisions, crossing an hour/day boundary once shifted to UTC
		"@2020-01-01T23+05:30", "@2020-01-01T23:40+05:30", "@2020-01-01T23:40:10+05:30", "@2020-01-01T00-03:30", "@2020-01-01T00:45-03:30", "@2020-01-01T00:15:00.000-03:30",
		"@T10", "@T10:30", "@T10:30:00", "@T10:30:00.000", "@T10:30:00.5", "@T11", "@T10:31", "@T00:00:00", "@T23:59:59.999",
		"1 'mg'", "2 'mg'", "1.0 'mg'", "1 'kg'", "1 year", "1 years", "2 years", "12 months", "1 'a'", "7 days", "1 week", "1 'wk'", "0 'mg'", "1 '1'", "5 'g'", "5 'gs'", "6 'g'", "5 'lb'", "5 'lbs'",
		"{}",
	}
	if !env.Quick() {
		src = append(src, "3", "-2", "46341", "0.1", "0.10", "100.0", "-0.5", "'B'", "'aa'", "'ä'", "@2020-12", "@2020-12-31", "@0001-01-01", "@9999-12-31",
			"@2020-06-15T12:00:00", "@2020-06-15T12:00:00.123", "@2020-06-15T12:00:00+01:00", "@2020-06-15T11:00:00Z", "@2020-06-15T12:00:01Z", "@2020-06-15T", "@2020-06T", "@T12", "@T12:00", "@T12:00:00.123",
			"3 'mg'", "1.5 'kg'", "24 hours", "1 day", "1 'd'", "60 minutes", "1 hour", "1000 milliseconds", "1 second", "1 's'")
	}
	if !env.Quick() {
		// seeded random temporal / numeric / string values from narrow ranges (many ties and near-ties)
		rng := env.Rng("pool")
		seen := map[string]bool{}
		for _, x := range src {
			seen[x] = true
		}
		add := func(x string) {
			if !seen[x] {
				seen[x] = true
				src = append(src, x)
			}
		}
		for k := 0; k < 420; k++ {
			y := []int{2019, 2020, 2021}[rng.Intn(3)]
			mo := []int{1, 2, 12}[rng.Intn(3)]
			d := []int{1, 2, 28}[rng.Intn(3)]
			h := []int{0, 10, 23}[rng.Intn(3)]
			mi := []int{0, 30, 59}[rng.Intn(3)]
			sec := []int{0, 30, 59}[rng.Intn(3)]
			frac := []string{"", ".000", ".001", ".500"}[rng.Intn(4)]
			tz := []string{"", "Z", "+05:30", "-11:00", "-03:30", "+05:45"}[rng.Intn(6)]
			switch rng.Intn(6) {
			case 0:
				add([]string{fmt.Sprintf("@%04d", y), fmt.Sprintf("@%04d-%02d", y, mo), fmt.Sprintf("@%04d-%02d-%02d", y, mo, d)}[rng.Intn(3)])
			case 1, 2, 3:
				comps := 1 + rng.Intn(6)
				t := fmt.Sprintf("@%04d", y)
				if comps >= 2 {
					t += fmt.Sprintf("-%02d", mo)
				}
				if comps >= 3 {
					t += fmt.Sprintf("-%02d", d)
				}
				t += "T"
				if comps >= 4 {
					t += fmt.Sprintf("%02d", h)
				}
				if comps >= 5 {
					t += fmt.Sprintf(":%02d", mi)
				}
				if comps >= 6 {
					t += fmt.Sprintf(":%02d%s", sec, frac)
				}
				if comps >= 4 {
					t += tz
				}
				add(t)
			case 4:
				comps := 1 + rng.Intn(3)
				t := fmt.Sprintf("@T%02d", h)
				if comps >= 2 {
					t += fmt.Sprintf(":%02d", mi)
				}
				if comps >= 3 {
					t += fmt.Sprintf(":%02d%s", sec, frac)
				}
				add(t)
			default:
				switch rng.Intn(3) {
				case 0:
					add(fmt.Sprint(rng.Intn(7) - 3))
				case 1:
					add(fmt.Sprintf("%d.%s", rng.Intn(4), []string{"0", "5", "50", "25", "000"}[rng.Intn(5)]))
				default:
					add(fmt.Sprintf("%d %s", rng.Intn(3), []string{"'mg'", "'kg'", "days", "day", "years", "'wk'"}[rng.Intn(6)]))
				}
			}
		}
	}
	return src
}

func fhirCarrier(m model.CVal, variant int) (any, bool) {
	switch m.Kind {
	case "Integer":
		if !model.FitsInt32(m.N) {
			return nil, false
		}
		i := m.N.Num().Int64()
		if i > 0 && variant%2 == 1 {
			return &dtpb.PositiveInt{Value: uint32(i)}, true
		}
		return &dtpb.Integer{Value: int32(i)}, true
	case "Decimal":
		return &dtpb.Decimal{Value: m.N.FloatString(decScale(m.N))}, true
	case "String":
		if variant%2 == 1 {
			return &dtpb.Code{Value: m.S}, true
		}
		return &dtpb.String{Value: m.S}, true
	case "Boolean":
		return &dtpb.Boolean{Value: m.B}, true
	case "Date":
		// variant 1: the same civil date held in a non-UTC zone (a date has no offset; jsonformat keeps its default zone)
		loc, tz := time.UTC, "UTC"
		if variant%2 == 1 {
			tz = []string{"+05:30", "-11:00", "-03:30", "-00:30"}[(m.T.Y+m.T.Mo+m.T.D)%4]
			loc = gen.TZLoc(tz)
		}
		t := time.Date(m.T.Y, time.Month(m.T.Mo), m.T.D, 0, 0, 0, 0, loc)
		if variant >= 2 {
			// the same civil date, the instant late in its evening (an element built from a point in time)
			tz = []string{"-03:30", "-09:30", "+05:45", "-00:30"}[(m.T.Y+m.T.Mo+m.T.D)%4]
			mo, d := m.T.Mo, m.T.D
			if m.T.Comps < 2 {
				mo = 12
			}
			if m.T.Comps < 3 {
				d = 28
			}
			t = time.Date(m.T.Y, time.Month(mo), d, 23, 45, 0, 0, gen.TZLoc(tz))
		}
		p := []dtpb.Date_Precision{0, dtpb.Date_YEAR, dtpb.Date_MONTH, dtpb.Date_DAY}[m.T.Comps]
		return &dtpb.Date{ValueUs: t.UnixMicro(), Timezone: tz, Precision: p}, true
	case "DateTime":
		switch {
		case m.T.Comps <= 3:
			loc, tz := time.UTC, "UTC"
			if variant%2 == 1 {
				tz = []string{"+05:30", "-11:00", "-03:30", "-00:30"}[(m.T.Y+m.T.Mo+m.T.D)%4]
				loc = gen.TZLoc(tz)
			}
			t := time.Date(m.T.Y, time.Month(m.T.Mo), m.T.D, 0, 0, 0, 0, loc)
			if variant >= 2 {
				tz = []string{"-03:30", "-09:30", "+05:45", "-00:30"}[(m.T.Y+m.T.Mo+m.T.D)%4]
				mo, d := m.T.Mo, m.T.D
				if m.T.Comps < 2 {
					mo = 12
				}
				if m.T.Comps < 3 {
					d = 28
				}
				t = time.Date(m.T.Y, time.Month(mo), d, 23, 45, 0, 0, gen.TZLoc(tz))
			}
			p := []dtpb.DateTime_Precision{0, dtpb.DateTime_YEAR, dtpb.DateTime_MONTH, dtpb.DateTime_DAY}[m.T.Comps]
			return &dtpb.DateTime{ValueUs: t.UnixMicro(), Timezone: tz, Precision: p}, true
		case m.T.Comps == 6 && m.T.HasTZ:
			p := dtpb.DateTime_SECOND
			if m.T.Frac != "" {
				p = dtpb.DateTime_MILLISECOND
			}
			tz := "Z"
			if m.T.TZMin != 0 {
				sgn, mm := "+", m.T.TZMin
				if mm < 0 {
					sgn, mm = "-", -mm
				}
				tz = fmt.Sprintf("%s%02d:%02d", sgn, mm/60, mm%60)
			}
			return &dtpb.DateTime{ValueUs: m.T.EpochMicros(), Timezone: tz, Precision: p}, true
		}
		return nil, false
	case "Time":
		if m.T.Comps != 3 {
			return nil, false
		}
		p := dtpb.Time_SECOND
		if m.T.Frac != "" {
			p = dtpb.Time_MILLISECOND
		}
		us := (int64(m.T.H)*3600+int64(m.T.Mi)*60+int64(m.T.S))*1000000 + int64(m.T.FracMicros())
		return &dtpb.Time{ValueUs: us, Precision: p}, true
	case "Quantity":
		return &dtpb.Quantity{Value: &dtpb.Decimal{Value: m.N.FloatString(decScale(m.N))}, Code: &dtpb.Code{Value: m.Unit}, Unit: &dtpb.String{Value: m.Unit}}, true
	}
	return nil, false
}

// decScale: number of fraction digits needed to print the rational exactly (it has a finite expansion).
func decScale(r interface{ FloatString(int) string }) int {
	orig, _ := model.ParseNum(r.FloatString(450))
	for s := 0; s <= 400; s++ {
		txt := r.FloatString(s)
		back, ok := model.ParseNum(txt)
		if ok && back.Cmp(orig) == 0 {
			return s
		}
	}
	return 400
}

// c05Codes: bound code elements (every value of every value-set bound code message reachable from the resource
// types) compare as the strings of their FHIR codes, all in one process and in two orders.
func c05Codes(env *core.Env, reverse bool) {
	defer env.In("codes", reverse)()
	ws := codeWrappers()
	if reverse {
		for i, j := 0, len(ws)-1; i < j; i, j = i+1, j-1 {
			ws[i], ws[j] = ws[j], ws[i]
		}
	}
	type probe struct {
		src  string
		want string
		ex   *fhirpath.Expression
	}
	probes := []*probe{{src: "%x = %c", want: "true"}, {src: "%c = %x", want: "true"}, {src: "%x != %c", want: "false"}, {src: "%x = %o", want: "false"}, {src: "%o != %x", want: "true"},
		{src: "%x < %c", want: "false"}, {src: "%x <= %c", want: "true"}, {src: "%x >= %c", want: "true"}, {src: "%x = %y", want: "true"}, {src: "%x != %y", want: "false"}}
	for _, p := range probes {
		p.ex, _ = fx.Compile(env, p.src)
		if p.ex == nil {
			env.Skip("code-probe-does-not-compile")
			return
		}
	}
	for _, md := range ws {
		vf := md.Fields().ByName("value")
		vals := vf.Enum().Values()
		for i := 0; i < vals.Len(); i++ {
			ev := vals.Get(i)
			if ev.Number() == 0 {
				continue
			}
			code := gen.OriginalCode(ev)
			other := "not-" + code
			m := gen.NewMessage(md)
			m.Set(vf, protoreflect.ValueOfEnum(ev.Number()))
			m2 := gen.NewMessage(md)
			m2.Set(vf, protoreflect.ValueOfEnum(ev.Number()))
			eo := []fhirpath.EvaluateOption{evalopts.EnvVariable("x", m.Interface()), evalopts.EnvVariable("y", m2.Interface()), evalopts.EnvVariable("c", system.String(code)), evalopts.EnvVariable("o", system.String(other))}
			env.Case()
			env.Cover("code-element")
			for _, p := range probes {
				r := fx.Evaluate(env, p.ex, nil, eo...)
				if r.IsPanic() {
					env.Violatef(fx.PanicSig("C05", r), "`%s` with %%x = %s value %s => %s", p.src, md.FullName(), ev.Name(), r.Short())
					break
				}
				if r.Bool3() != p.want {
					env.Violatef("C05/code-element/"+strings.ReplaceAll(strings.ReplaceAll(p.src, "%", ""), " ", "")+"/want-"+p.want, "`%s` with %%x = %%y = %s value %s (FHIR code %q), %%c = '%s', %%o = '%s': expected %s, observed %s", p.src, md.FullName(), ev.Name(), code, code, other, p.want, trunc(r.Short(), 80))
					break
				}
			}
		}
	}
}

func replayC05Codes(env *core.Env, a []json.RawMessage) {
	var rev bool
	json.Unmarshal(a[0], &rev)
	c05Codes(env, rev)
}

type c05Pool struct {
	vals    []c05Val
	runtime []any // runtime value of each pool entry (system value or element)
}

func c05Build(env *core.Env) *c05Pool {
	p := &c05Pool{}
	for _, s := range c05Sources(env) {
		m, ok := model.ParseLiteral(s)
		if !ok {
			env.Skip("pool-literal-unparsed")
			continue
		}
		// runtime System value: evaluate the literal once
		r := fx.E(env, s)
		if r.IsValue() && len(r.Raw) <= 1 {
			var v any = system.Collection{}
			if len(r.Raw) == 1 {
				v = r.Raw[0]
			}
			p.vals = append(p.vals, c05Val{s, "sys", m})
			p.runtime = append(p.runtime, v)
		} else {
			env.Skip("pool-literal-not-a-value")
		}
		// the same value produced by an operation instead of a literal (a computed value may carry other hidden state)
		if calc := map[string]string{"Time": "(" + s + " - 24 hours)", "Integer": "(" + s + " + 0)", "String": "(" + s + " & '')"}[m.Kind]; calc != "" {
			if rc := fx.E(env, calc); rc.IsValue() && len(rc.Raw) == 1 {
				p.vals = append(p.vals, c05Val{calc, "calc", m})
				p.runtime = append(p.runtime, rc.Raw[0])
			}
		}
		// a full-precision DateTime with an offset also as an instant element that carries no precision
		if m.Kind == "DateTime" && m.T.Comps == 6 && m.T.HasTZ && m.T.Frac != "" && len(m.T.Frac) >= 3 {
			if fv, ok := fhirCarrier(m, 0); ok {
				dt := fv.(*dtpb.DateTime)
				p.vals = append(p.vals, c05Val{s, "fhir", m})
				p.runtime = append(p.runtime, &dtpb.Instant{ValueUs: dt.ValueUs, Timezone: dt.Timezone})
			}
		}
		// a string value also held by the other string-valued element types (each reads as a System String)
		if m.Kind == "String" {
			for _, fv := range []any{&dtpb.Xhtml{Value: m.S}, &dtpb.Markdown{Value: m.S}, &dtpb.Uri{Value: m.S}, &dtpb.Url{Value: m.S}, &dtpb.Canonical{Value: m.S}, &dtpb.Id{Value: m.S}, &dtpb.Oid{Value: m.S}, &dtpb.Uuid{Value: m.S}} {
				p.vals = append(p.vals, c05Val{s, "fhir", m})
				p.runtime = append(p.runtime, fv)
			}
		}
		for variant := 0; variant < 3; variant++ {
			if variant == 2 && !(m.Kind == "Date" || (m.Kind == "DateTime" && m.T.Comps <= 3)) {
				break
			}
			if fv, ok := fhirCarrier(m, variant); ok {
				if variant == 1 && m.Kind != "Integer" && m.Kind != "String" && m.Kind != "Date" && !(m.Kind == "DateTime" && m.T.Comps <= 3) {
					break
				}
				p.vals = append(p.vals, c05Val{s, "fhir", m})
				p.runtime = append(p.runtime, fv)
			}
		}
	}
	// dateTime / instant elements finer than a millisecond, before and after the Unix epoch: the value is the element's
	// value cut to the millisecond (the comparison model knows milliseconds)
	for _, c := range []struct {
		lit string
		us  int64
	}{{"@1969-12-31T23:59:59.999Z", -500}, {"@1969-12-31T23:59:59.999Z", -1}, {"@1969-12-31T23:59:59.998Z", -1001}, {"@1970-01-01T00:00:00.000Z", 999}, {"@1970-01-01T00:00:00.001Z", 1500}, {"@1969-12-31T23:59:58.123Z", -1876400}, {"@1960-06-15T12:00:00.000Z", -301233599999001}} {
		m, ok := model.ParseLiteral(c.lit)
		if !ok {
			continue
		}
		if rl := fx.E(env, c.lit); rl.IsValue() && len(rl.Raw) == 1 {
			p.vals = append(p.vals, c05Val{c.lit, "sys", m})
			p.runtime = append(p.runtime, rl.Raw[0])
		}
		p.vals = append(p.vals, c05Val{c.lit, "fhir", m}, c05Val{c.lit, "fhir", m}, c05Val{c.lit, "fhir", m})
		p.runtime = append(p.runtime, &dtpb.DateTime{ValueUs: c.us, Timezone: "Z", Precision: dtpb.DateTime_MICROSECOND}, &dtpb.Instant{ValueUs: c.us, Timezone: "Z", Precision: dtpb.Instant_MICROSECOND}, &dtpb.DateTime{ValueUs: c.us, Timezone: "Z"})
	}
	// complex elements: two structurally equal objects, one different
	hn := func(f string) *dtpb.HumanName { return &dtpb.HumanName{Family: &dtpb.String{Value: f}} }
	for _, c := range []struct {
		key string
		v   any
	}{{"hn:Smith#1", hn("Smith")}, {"hn:Smith#2", hn("Smith")}, {"hn:Jones", hn("Jones")}, {"coding", &dtpb.Coding{Code: &dtpb.Code{Value: "x"}}}} {
		p.vals = append(p.vals, c05Val{c.key, "complex", model.CVal{Kind: "Complex", S: strings.Split(c.key, "#")[0]}})
		p.runtime = append(p.runtime, c.v)
	}
	return p
}

var c05Ops = []string{"=", "!=", "<", "<=", ">", ">="}

func c05Obs(r fx.Res) string {
	o := obs3(r)
	return o
}

var c05Compiled = map[string]*fhirpath.Expression{}

func c05EvalOp(env *core.Env, op string, a, b any) fx.Res {
	ex := c05Compiled[op]
	if ex == nil {
		var cr fx.Res
		ex, cr = fx.Compile(env, "%a "+op+" %b")
		if ex == nil {
			return cr
		}
		c05Compiled[op] = ex
	}
	return fx.Evaluate(env, ex, nil, evalopts.EnvVariable("a", a), evalopts.EnvVariable("b", b))
}

func modelRel(a, b c05Val) string {
	if a.M.Kind == "Complex" || b.M.Kind == "Complex" {
		if a.M.Kind == "Complex" && b.M.Kind == "Complex" {
			if a.M.S == b.M.S {
				return "eq"
			}
			return "ne"
		}
		if a.M.Kind == "Empty" || b.M.Kind == "Empty" {
			return "empty"
		}
		return "undef"
	}
	return model.Compare(a.M, b.M)
}

// c05Pair evaluates all six operators on (a,b) and (b,a) and checks model + laws.
func c05Pair(env *core.Env, ia, ib int, literal bool) map[string]string {
	defer env.In("pair", ia, ib, literal)()
	p := c05Build0(env)
	a, b := p.vals[ia], p.vals[ib]
	env.Case()
	env.Cover("kind:" + a.M.Kind)
	env.Cover("carrier:" + a.Carrier)
	obs := map[string]string{}
	eval := func(op string, x, y int) fx.Res {
		if literal {
			env.Cover("literal-path")
			return fx.E(env, p.vals[x].Src+" "+op+" "+p.vals[y].Src)
		}
		return c05EvalOp(env, op, p.runtime[x], p.runtime[y])
	}
	desc := func(op string) string {
		return fmt.Sprintf("%s[%s] %s %s[%s]", a.Src, a.Carrier, op, b.Src, b.Carrier)
	}
	rel := modelRel(a, b)
	if rel == "undef" {
		env.Cover("law-only")
	} else {
		env.Cover("model-decided")
		if a.Src != b.Src {
			env.Distinct(fmt.Sprintf("%s|%s|%s|%s", a.Src, a.Carrier, b.Src, b.Carrier))
		}
		if rel == "empty" && a.M.Kind != "Empty" && b.M.Kind != "Empty" && a.M.Kind != "Quantity" {
			env.Cover("precision-mismatch-empty")
		}
		if a.M.T.HasTZ && b.M.T.HasTZ && a.M.T.TZMin != b.M.T.TZMin {
			env.Cover("offset-normalised")
		}
	}
	cls := a.M.Kind + "," + b.M.Kind
	for _, op := range c05Ops {
		r := eval(op, ia, ib)
		if r.IsPanic() {
			env.Violatef(fx.PanicSig("C05", r), "%s => %s", desc(op), r.Short())
			obs[op] = "PANIC"
			continue
		}
		o := c05Obs(r)
		obs[op] = o
		// complex operands: ordering is undefined; equality defined
		want := model.Expect(rel, op)
		if (a.M.Kind == "Complex" || b.M.Kind == "Complex" || a.M.Kind == "Boolean") && op != "=" && op != "!=" {
			want = "" // ordering of Booleans / complex elements is not defined by the statement
		}
		if want != "" && o != want {
			env.Violatef(fmt.Sprintf("C05/model/%s/%s/want-%s-got-%s", op, cls, want, o), "%s: model says %s (relation %s), observed %s (%s)", desc(op), want, rel, o, trunc(r.Short(), 120))
		}
		env.SampleSpread(desc(op), map[string]string{"program": desc(op), "model": want, "observed": o})
	}
	// laws within this pair
	eq, ne, lt, le, gt, ge := obs["="], obs["!="], obs["<"], obs["<="], obs[">"], obs[">="]
	neg := map[string]string{"T": "F", "F": "T", "E": "E", "ERR": "ERR", "OTHER": "OTHER", "PANIC": "PANIC"}
	if ne != neg[eq] {
		env.Violatef("C05/law/negation/"+cls, "%s: `=` is %s but `!=` is %s", desc("=/!="), eq, ne)
	}
	tf := func(s string) bool { return s == "T" || s == "F" }
	if tf(le) && tf(gt) && le != neg[gt] {
		env.Violatef("C05/law/le-not-gt/"+cls, "%s: `<=` is %s but `>` is %s", desc("<=/>"), le, gt)
	}
	if tf(ge) && tf(lt) && ge != neg[lt] {
		env.Violatef("C05/law/ge-not-lt/"+cls, "%s: `>=` is %s but `<` is %s", desc(">=/<"), ge, lt)
	}
	cnt := 0
	for _, x := range []string{lt, eq, gt} {
		if x == "T" {
			cnt++
		}
	}
	if cnt > 1 {
		env.Violatef("C05/law/trichotomy/"+cls, "%s: more than one of <,=,> holds (<:%s =:%s >:%s)", desc("?"), lt, eq, gt)
	}
	return obs
}

var c05PoolCache *c05Pool

func c05Build0(env *core.Env) *c05Pool {
	if c05PoolCache == nil {
		c05PoolCache = c05Build(env)
	}
	return c05PoolCache
}

func replayC05Pair(env *core.Env, a []json.RawMessage) {
	var ia, ib int
	var lit bool
	json.Unmarshal(a[0], &ia)
	json.Unmarshal(a[1], &ib)
	json.Unmarshal(a[2], &lit)
	obs := c05Pair(env, ia, ib, lit)
	p := c05Build0(env)
	fmt.Printf("%s[%s] vs %s[%s]: %v\n", p.vals[ia].Src, p.vals[ia].Carrier, p.vals[ib].Src, p.vals[ib].Carrier, obs)
	c05Pair(env, ib, ia, lit)
}

func runC05(env *core.Env) {
	for k, rev := range []bool{false, true} {
		if env.Mine(k + 3) {
			c05Codes(env, rev)
		}
	}
	p := c05Build0(env)
	n := len(p.vals)
	if env.Shard == 0 {
		env.SetExtra("pool_size", float64(n))
	}
	rng := env.Rng("literal-sample")
	// The converse law (a<b iff b>a, a=b iff b=a) needs both orders: each worker owns unordered pairs.
	type key struct{ a, b int }
	obsTab := map[key]map[string]string{}
	idx := 0
	for i := 0; i < n; i++ {
		for j := i; j < n; j++ {
			lit := rng.Intn(12) == 0 && p.vals[i].Carrier == "sys" && p.vals[j].Carrier == "sys"
			idx++
			if !env.Mine(idx) {
				continue
			}
			o1 := c05Pair(env, i, j, false)
			o2 := c05Pair(env, j, i, false)
			obsTab[key{i, j}], obsTab[key{j, i}] = o1, o2
			c05Converse(env, p, i, j, o1, o2)
			if lit {
				l1 := c05Pair(env, i, j, true)
				l2 := c05Pair(env, j, i, true)
				c05Converse(env, p, i, j, l1, l2)
				// literal path and env path must agree
				for _, op := range c05Ops {
					if l1[op] != o1[op] {
						env.Violatef("C05/literal-vs-env/"+op, "`%s %s %s`: literal operands give %s, the same values as %%env give %s", p.vals[i].Src, op, p.vals[j].Src, l1[op], o1[op])
					}
				}
			}
		}
	}
	// one compiled comparison with a literal operand, evaluated over every pool value in turn
	perKind := map[string]int{}
	for li := 0; li < n; li++ {
		if p.vals[li].Carrier != "sys" {
			continue
		}
		perKind[p.vals[li].M.Kind]++
		if env.Quick() && perKind[p.vals[li].M.Kind] > 3 {
			continue
		}
		for _, op := range c05Ops {
			for _, left := range []bool{false, true} {
				idx++
				if env.Mine(idx) {
					c05LiteralOperand(env, li, op, left)
				}
			}
		}
	}
	// transitivity of < within each kind (shard 0 re-evaluates the `<` matrix of each kind: small)
	if env.Shard == 0 || env.NShards == 1 {
		c05Transitivity(env, p)
	}
	c05Collections(env)
}

// c05LiteralOperand: `%a op L` (or `L op %a`) compiled once and evaluated with every pool value as %a, forwards then
// backwards; each outcome must be the outcome of the all-variable form on the same two values.
func c05LiteralOperand(env *core.Env, li int, op string, literalLeft bool) {
	defer env.In("litop", li, op, literalLeft)()
	p := c05Build0(env)
	src := "%a " + op + " " + p.vals[li].Src
	if literalLeft {
		src = p.vals[li].Src + " " + op + " %a"
	}
	env.Case()
	env.Cover("literal-operand")
	// one freshly compiled expression per starting point: the first value of each (kind, carrier) class comes first once
	var starts []int
	seen := map[string]bool{}
	for i, v := range p.vals {
		if k := v.M.Kind + "/" + v.Carrier; !seen[k] {
			seen[k] = true
			starts = append(starts, i)
		}
	}
	for _, st := range starts {
		c05LiteralRun(env, p, src, li, op, literalLeft, st)
	}
}

func c05LiteralRun(env *core.Env, p *c05Pool, src string, li int, op string, literalLeft bool, st int) {
	ex, cr := fx.Compile(env, src)
	if ex == nil {
		env.Violatef("C05/literal-operand/does-not-compile", "`%s`: %s", src, cr.Short())
		return
	}
	n := len(p.vals)
	for k := 0; k < 2*n; k++ {
		x := (st + k) % n
		if k >= n {
			x = (st + 2*n - 1 - k) % n
		}
		got := c05Obs(fx.Evaluate(env, ex, nil, evalopts.EnvVariable("a", p.runtime[x])))
		var ref fx.Res
		if literalLeft {
			ref = c05EvalOp(env, op, p.runtime[li], p.runtime[x])
		} else {
			ref = c05EvalOp(env, op, p.runtime[x], p.runtime[li])
		}
		if want := c05Obs(ref); got != want {
			env.Violatef("C05/literal-operand-vs-env/"+op, "`%s` with %%a = %s[%s] (evaluation %d of one compiled expression) gives %s, `%%a %s %%b` on the same two values gives %s", src, p.vals[x].Src, p.vals[x].Carrier, k+1, got, op, want)
			return
		}
	}
}

func replayC05LitOp(env *core.Env, a []json.RawMessage) {
	var li int
	var op string
	var left bool
	json.Unmarshal(a[0], &li)
	json.Unmarshal(a[1], &op)
	json.Unmarshal(a[2], &left)
	c05LiteralOperand(env, li, op, left)
}

func c05Converse(env *core.Env, p *c05Pool, i, j int, ab, ba map[string]string) {
	a, b := p.vals[i], p.vals[j]
	cls := a.M.Kind + "," + b.M.Kind
	d := fmt.Sprintf("%s[%s] vs %s[%s]", a.Src, a.Carrier, b.Src, b.Carrier)
	if ab["="] != ba["="] {
		env.Violatef("C05/law/symmetry/"+cls, "%s: a=b is %s but b=a is %s", d, ab["="], ba["="])
	}
	if ab["<"] != ba[">"] {
		env.Violatef("C05/law/converse/"+cls, "%s: a<b is %s but b>a is %s", d, ab["<"], ba[">"])
	}
	if ab[">"] != ba["<"] {
		env.Violatef("C05/law/converse/"+cls, "%s: a>b is %s but b<a is %s", d, ab[">"], ba["<"])
	}
}

func c05Transitivity(env *core.Env, p *c05Pool) {
	defer env.In("pair", 0, 0, false)()
	byKind := map[string][]int{}
	for i, v := range p.vals {
		k := v.M.Kind
		if k == "Integer" || k == "Decimal" {
			k = "Number"
		}
		if k == "Date" {
			k = "DateTime"
		}
		byKind[k] = append(byKind[k], i)
	}
	for k, idxs := range byKind {
		if k == "Complex" || k == "Empty" || k == "Boolean" {
			continue
		}
		lt := map[[2]int]bool{}
		for _, i := range idxs {
			for _, j := range idxs {
				r := c05EvalOp(env, "<", p.runtime[i], p.runtime[j])
				lt[[2]int{i, j}] = r.Bool3() == "true"
			}
		}
		for _, a := range idxs {
			for _, b := range idxs {
				if !lt[[2]int{a, b}] {
					continue
				}
				for _, c := range idxs {
					if lt[[2]int{b, c}] {
						env.Cover("transitivity")
						if !lt[[2]int{a, c}] {
							// with partial precision, a<b and b<c with a,c incomparable is possible only if a and c share components that are equal — which contradicts a<b<c through a coarser b. Report.
							env.Violatef("C05/law/transitivity/"+k, "%s < %s and %s < %s but not %s < %s", p.vals[a].Src, p.vals[b].Src, p.vals[b].Src, p.vals[c].Src, p.vals[a].Src, p.vals[c].Src)
						}
					}
				}
			}
		}
	}
}

// ---- collections

func c05CollCheck(env *core.Env, kind string, base []int, changePos int, otherLen int) {
	defer env.In("coll", kind, base, changePos, otherLen)()
	env.Case()
	mk := func(vals []int) system.Collection {
		c := system.Collection{}
		for _, v := range vals {
			switch kind {
			case "int":
				c = append(c, system.Integer(v))
			case "fhir-str":
				c = append(c, &dtpb.String{Value: fmt.Sprint("s", v)})
			case "complex":
				c = append(c, &dtpb.HumanName{Family: &dtpb.String{Value: fmt.Sprint("F", v)}, Given: []*dtpb.String{{Value: "G"}}})
			case "mixed":
				if v%2 == 0 {
					c = append(c, system.Integer(v))
				} else {
					c = append(c, &dtpb.HumanName{Family: &dtpb.String{Value: fmt.Sprint("F", v)}})
				}
			}
		}
		return c
	}
	other := append([]int{}, base...)
	if otherLen >= 0 {
		for len(other) < otherLen {
			other = append(other, 100+len(other))
		}
		other = other[:otherLen]
	}
	if changePos >= 0 && changePos < len(other) {
		other[changePos] += 2 // keeps parity (mixed kind stays the same shape)
	}
	a, b := mk(base), mk(other)
	want := "T"
	switch {
	case len(a) == 0 || len(b) == 0:
		want = "E"
	case len(a) != len(b):
		want = "F"
	default:
		for i := range base {
			if base[i] != other[i] {
				want = "F"
			}
		}
	}
	r := c05EvalOp(env, "=", a, b)
	rn := c05EvalOp(env, "!=", a, b)
	rr := c05EvalOp(env, "=", b, a)
	env.Cover("collection")
	if kind == "complex" || kind == "mixed" {
		env.Cover("collection-complex")
	}
	d := fmt.Sprintf("%s collections %v vs %v", kind, base, other)
	if r.IsPanic() {
		env.Violatef(fx.PanicSig("C05", r), "%s => %s", d, r.Short())
		return
	}
	if o := c05Obs(r); o != want {
		env.Violatef(fmt.Sprintf("C05/collection/%s/want-%s-got-%s", kind, want, o), "%s: `=` expected %s, observed %s", d, want, o)
	}
	neg := map[string]string{"T": "F", "F": "T", "E": "E"}
	if o := c05Obs(rn); o != neg[want] {
		env.Violatef(fmt.Sprintf("C05/collection/%s/neq-want-%s-got-%s", kind, neg[want], o), "%s: `!=` expected %s, observed %s", d, neg[want], o)
	}
	if c05Obs(rr) != c05Obs(r) {
		env.Violatef("C05/collection/"+kind+"/symmetry", "%s: a=b is %s but b=a is %s", d, c05Obs(r), c05Obs(rr))
	}
	if want != "E" {
		env.Distinct(fmt.Sprintf("coll|%s|%v|%d|%d", kind, base, changePos, otherLen))
	}
}

func replayC05Coll(env *core.Env, a []json.RawMessage) {
	var kind string
	var base []int
	var cp, ol int
	json.Unmarshal(a[0], &kind)
	json.Unmarshal(a[1], &base)
	json.Unmarshal(a[2], &cp)
	json.Unmarshal(a[3], &ol)
	c05CollCheck(env, kind, base, cp, ol)
}

func c05Collections(env *core.Env) {
	n := 0
	for _, kind := range []string{"int", "fhir-str", "complex", "mixed"} {
		for l := 0; l <= 4; l++ {
			base := make([]int, l)
			for i := range base {
				base[i] = i * 2
				if kind == "mixed" {
					base[i] = i // alternate parity
				}
			}
			// identical, differing at each position, shorter, longer
			for cp := -1; cp < l; cp++ {
				n++
				if env.Mine(n) {
					c05CollCheck(env, kind, base, cp, -1)
				}
			}
			for _, ol := range []int{l - 1, l + 1, 0} {
				if ol < 0 {
					continue
				}
				n++
				if env.Mine(n) {
					c05CollCheck(env, kind, base, -1, ol)
				}
			}
		}
	}
}
