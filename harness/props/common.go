package props

import (
	"encoding/json"
	"fmt"

	"github.com/verily-src/fhirpath-go/fhirpath/system"
	"github.com/verily-src/fhirpath-go/fhirpath/verifharness/fx"
	"github.com/verily-src/fhirpath-go/fhirpath/verifharness/model"
	"google.golang.org/protobuf/proto"
)

// itemIsNode reports whether a result item is the expected tree node
// (identity; proto.Equal under unpacked contained resources; value for synthesized reference strings).
func itemIsNode(got any, want *model.Node) (bool, string) {
	if want.Synth != nil {
		s, ok := got.(interface{ GetValue() string })
		if !ok || s.GetValue() != *want.Synth {
			return false, fmt.Sprintf("want reference string %q, got %s", *want.Synth, fx.Render(got))
		}
		return true, ""
	}
	gm, ok := got.(proto.Message)
	if !ok {
		return false, fmt.Sprintf("got %T, want element %s", got, want.MD.Name())
	}
	if want.UnderFresh() {
		if !proto.Equal(gm, want.Msg) {
			return false, fmt.Sprintf("not structurally the expected %s (under contained)", want.MD.Name())
		}
		return true, ""
	}
	if gm != want.Msg {
		return false, fmt.Sprintf("not the input's own node (want %s #%d, got %s)", want.MD.Name(), want.Index, fx.Render(got))
	}
	return true, ""
}

// nodesMatch compares a result with an expected node list (count, order, identity).
func nodesMatch(r fx.Res, expect []*model.Node) (bool, string) {
	if !r.IsValue() {
		return false, "not a value: " + trunc(r.Short(), 160)
	}
	if len(r.Raw) != len(expect) {
		return false, fmt.Sprintf("count %d != expected %d", len(r.Raw), len(expect))
	}
	for i, w := range expect {
		if ok, why := itemIsNode(r.Raw[i], w); !ok {
			return false, fmt.Sprintf("item %d: %s", i, why)
		}
	}
	return true, ""
}

// sameItems: two results hold the same items in the same order (identity for elements, rendering for System values).
func sameItems(a, b system.Collection) (bool, string) {
	if len(a) != len(b) {
		return false, fmt.Sprintf("lengths %d vs %d", len(a), len(b))
	}
	for i := range a {
		if !sameItem(a[i], b[i]) {
			return false, fmt.Sprintf("item %d: %s vs %s", i, fx.Render(a[i]), fx.Render(b[i]))
		}
	}
	return true, ""
}

func sameItem(x, y any) bool {
	xm, ok1 := x.(proto.Message)
	ym, ok2 := y.(proto.Message)
	if ok1 != ok2 {
		return false
	}
	if ok1 {
		if xm == ym {
			return true
		}
		// synthesized / unpacked elements are fresh objects: fall back to structure
		return fx.Render(x) == fx.Render(y) && proto.Equal(xm, ym)
	}
	return fx.Render(x) == fx.Render(y)
}

func hasNil(c system.Collection) bool {
	for _, v := range c {
		if fx.Render(v).K == "Nil" {
			return true
		}
	}
	return false
}

// primKey gives an equality key for a primitive tree node from its JSON value (independent of the code under test).
func primKey(n *model.Node) (string, bool) {
	switch v := n.JSON.(type) {
	case string:
		return "s:" + v, true
	case bool:
		return fmt.Sprint("b:", v), true
	case json.Number:
		r, ok := model.ParseNum(v.String())
		if !ok {
			return "", false
		}
		return "n:" + r.RatString(), true
	}
	return "", false
}
