package props

import (
	"fmt"

	"github.com/verily-src/fhirpath-go/fhirpath/verifharness/core"
	"github.com/verily-src/fhirpath-go/fhirpath/verifharness/gen"
	"github.com/verily-src/fhirpath-go/fhirpath/verifharness/model"
)

// SelfTest exercises the generators and models against each other (no code under test involved).
func SelfTest() int {
	bad := 0
	types := gen.ResourceTypes()
	fmt.Println("resource types:", len(types))
	nodes := 0
	for rich := 0; rich < 2; rich++ {
		for i, md := range types {
			for k := 0; k < 6; k++ {
				g := gen.NewResGen(core.NewRng(uint64(k), "selftest", string(md.Name())), rich == 1)
				r := g.Resource(md)
				t, err := model.BuildTree(r)
				if err != nil {
					bad++
					if bad < 15 {
						fmt.Printf("%d %s rich=%d k=%d: %v\n", i, md.Name(), rich, k, err)
					}
					continue
				}
				nodes += len(t.All())
			}
		}
	}
	fmt.Println("nodes:", nodes, "bad:", bad)
	return bad
}
