package props

import (
	"encoding/json"
	"errors"
	"fmt"
	"math"
	"strings"

	dtpb "github.com/google/fhir/go/proto/google/fhir/proto/r4/core/datatypes_go_proto"
	"github.com/verily-src/fhirpath-go/fhirpath"
	"github.com/verily-src/fhirpath-go/fhirpath/evalopts"
	"github.com/verily-src/fhirpath-go/fhirpath/system"
	"github.com/verily-src/fhirpath-go/fhirpath/verifharness/core"
	"github.com/verily-src/fhirpath-go/fhirpath/verifharness/fx"
	"github.com/verily-src/fhirpath-go/fhirpath/verifharness/gen"
	"github.com/verily-src/fhirpath-go/fhirpath/verifharness/model"
	"github.com/verily-src/fhirpath-go/internal/fhir"
	"github.com/shopspring/decimal"
	"google.golang.org/protobuf/proto"
)

// C10 — filtering, projection, subsetting and set functions obey the collection algebra.

func init() {
	core.Register(&core.Property{
		ID:   "C10",
		Rule: "collections obtained from every element path of generated resources of all R4 types (primitive, complex, with structural duplicates) and from %env collections (integers, decimals of different scale, strings, mixed, duplicates): count/empty/exists; first=[0]=take(1), tail=skip(1), last=skip(count()-1); take(n)++skip(n)=c for n in [-3,count+3] ∪ {MinInt32,MaxInt32}; where/exists/all against the harness' own filtering for criteria field.exists(), field = literal, $this = literal; select(e) = concatenation of per-item select; extension(u) = extension.where(url=u); distinct/isDistinct, exclude, intersect against equality classes computed from the JSON values / structural equality; no nil item in any result. mixed-type resource collections for select / exists / where, value-less primitive elements, url edge cases of extension(u), focus-dependent skip / take arguments; projections that hand on a prefix / suffix of the caller's own collection (%c.select(%c.take(k))) with %c read again afterwards; distinct_nontrivial = distinct (resource type, path, law) applications on collections with at least two items",
		Assumptions: []string{"equality classes for the set functions are computed from JSON values (strings, numbers numerically, booleans) and proto.Equal for complex elements; collections of date/time primitives are excluded from the set-function checks (their equality depends on precision/offset rules covered by C05)",
			"intersect may return primitive elements of c as System values; it returns c's items (never the argument's equal copies), with c's type and precision, in c's order"},
		Run:    runC10,
		Checks: map[string]func(*core.Env, []json.RawMessage){"resource": replayC10, "envcoll": replayC10Env, "extedge": func(env *core.Env, a []json.RawMessage) { c10ExtensionEdge(env) }, "mixedtypes": func(env *core.Env, a []json.RawMessage) {
			var seed uint64
			json.Unmarshal(a[0], &seed)
			c10MixedTypes(env, seed)
		}},
		Threshold: func(m *core.Merged) []string {
			var r []string
			for _, k := range []string{"subsetting", "partition", "where-exists", "where-eq", "where-this", "all", "select", "select-identity", "extension", "distinct", "exclude", "intersect", "multi-item", "complex-collection", "primitive-collection", "duplicates"} {
				if m.Cover[k] == 0 {
					r = append(r, "never observed: "+k)
				}
			}
			return r
		},
	})
}

var c10Compiled = map[string]*fhirpath.Expression{}

func c10Eval(env *core.Env, src string, eo ...fhirpath.EvaluateOption) fx.Res {
	ex := c10Compiled[src]
	if ex == nil {
		var cr fx.Res
		ex, cr = fx.Compile(env, src)
		if ex == nil {
			return cr
		}
		if len(c10Compiled) < 20000 {
			c10Compiled[src] = ex
		}
	}
	return fx.Evaluate(env, ex, nil, eo...)
}

type c10Coll struct {
	Desc  string
	C     system.Collection
	Keys  []string      // equality-class key per item ("" = undecided)
	Nodes []*model.Node // tree nodes (nil for env collections)
}

func (c *c10Coll) keyed() bool {
	for _, k := range c.Keys {
		if k == "" {
			return false
		}
	}
	return true
}

func c10Battery(env *core.Env, cc *c10Coll) {
	n := len(cc.C)
	cv := evalopts.EnvVariable("c", cc.C)
	fail := func(law, format string, a ...any) {
		env.Violatef("C10/"+law, "%s: "+format, append([]any{cc.Desc}, a...)...)
	}
	panicked := func(r fx.Res, src string) bool {
		if r.IsPanic() {
			env.Violatef(fx.PanicSig("C10", r), "%s: `%s` => %s", cc.Desc, src, r.Short())
			return true
		}
		return false
	}
	if n >= 2 {
		env.Cover("multi-item")
		env.Distinct(cc.Desc)
	}
	expectItems := func(law, src string, want system.Collection, eo ...fhirpath.EvaluateOption) {
		r := c10Eval(env, src, append([]fhirpath.EvaluateOption{cv}, eo...)...)
		if panicked(r, src) {
			return
		}
		if !r.IsValue() {
			fail(law+"/error", "`%s` => %s", src, trunc(r.Short(), 140))
			return
		}
		if hasNil(r.Raw) {
			fail(law+"/nil-item", "`%s` yields a nil item: %s", src, trunc(r.Short(), 140))
			return
		}
		if ok, why := sameItems(r.Raw, want); !ok {
			fail(law+"/wrong-items", "`%s`: %s (expected %d items, observed %s)", src, why, len(want), trunc(r.Short(), 140))
		}
	}
	expectBool := func(law, src string, want bool, eo ...fhirpath.EvaluateOption) {
		r := c10Eval(env, src, append([]fhirpath.EvaluateOption{cv}, eo...)...)
		if panicked(r, src) {
			return
		}
		if r.Bool3() != fmt.Sprint(want) {
			fail(law+"/wrong-boolean", "`%s`: expected %v, observed %s", src, want, trunc(r.Short(), 100))
		}
	}
	// count / empty / exists
	r := c10Eval(env, "%c.count()", cv)
	if it, ok := r.Single(); !ok || it.T != fmt.Sprint(n) {
		fail("count", "`%%c.count()` = %s, expected %d", trunc(r.Short(), 60), n)
	}
	expectBool("empty", "%c.empty()", n == 0)
	expectBool("empty", "%c.empty() = (%c.count() = 0)", true)
	expectBool("exists", "%c.exists()", n > 0)
	// subsetting with the number held in a variable (one compiled expression, another number at each evaluation)
	for k := 0; k <= n+1; k++ {
		lo := k
		if lo > n {
			lo = n
		}
		nv := evalopts.EnvVariable("n", system.Integer(k))
		env.Cover("subsetting-variable-argument")
		expectItems("take-variable", "%c.take(%n)", cc.C[:lo], nv)
		expectItems("skip-variable", "%c.skip(%n)", cc.C[lo:], nv)
		expectItems("skip-take-variable", "%c.skip(%n).take(%n + 1)", cc.C[lo:minInt(n, lo+k+1)], nv)
		if k < n {
			expectItems("index-variable", "%c[%n]", cc.C[k:k+1], nv)
		}
	}
	// projections and criteria that hand the item itself on: the in-order concatenation is c again
	env.Cover("select-identity")
	for _, e := range []string{"$this", "$this.take(1)", "iif(true, $this)", "$this.skip(0)", "$this.where(true)", "$this.first()", "$this.select($this)"} {
		expectItems("select-identity", "%c.select("+e+")", orEmpty(cc.C))
	}
	// projections that hand on a prefix of the caller's own collection (a slice that still has spare capacity behind
	// it): the result is the concatenation, and %c reads afterwards as it did before
	if n >= 2 && n <= 12 {
		env.Cover("select-alias")
		snap := append(system.Collection(nil), cc.C...)
		var w1, w2, w3 system.Collection
		for range snap {
			w1 = append(w1, snap[0])
			w2 = append(w2, snap[:n-1]...)
			w3 = append(w3, snap[1:]...)
		}
		expectItems("select-alias", "%c.select(%c.take(1))", w1)
		expectItems("select-alias/after", "%c.skip(1)", snap[1:])
		expectItems("select-alias", "%c.select(%c.take(%c.count() - 1))", w2)
		expectItems("select-alias/after", "%c", snap)
		expectItems("select-alias", "%c.select(%c.first())", w1)
		expectItems("select-alias", "%c.select(%c.skip(1))", w3)
		expectItems("select-alias/after", "%c.take(1).select(%c.take(1)).select(%c)", snap)
		expectItems("select-alias/after", "%c.last()", snap[n-1:])
		if ok, why := sameItems(cc.C, snap); !ok {
			fail("select-alias/caller-collection-changed", "the collection bound to %%c differs after `%%c.select(%%c.take(k))`: %s", why)
			copy(cc.C, snap)
		}
	}
	if e1, e2 := c10Eval(env, "%c.exists($this)", cv), c10Eval(env, "%c.where($this).exists()", cv); !e1.IsPanic() && !e2.IsPanic() && !(e1.IsError() && e2.IsError()) && !fx.Same(e1, e2) {
		env.Violatef("C10/exists-criterion/differs-from-where-exists", "%s: `%%c.exists($this)` = %s but `%%c.where($this).exists()` = %s", cc.Desc, trunc(e1.Short(), 80), trunc(e2.Short(), 80))
	}
	expectItems("select-identity", "%c.where(true)", orEmpty(cc.C))
	expectItems("select-identity", "%c.where($this.exists())", orEmpty(cc.C))
	expectItems("select-identity", "%c.where(false)", system.Collection{})
	expectItems("select-identity", "%c.select({})", system.Collection{})
	// positional subsetting
	env.Cover("subsetting")
	first := system.Collection{}
	if n > 0 {
		first = cc.C[:1]
	}
	expectItems("first", "%c.first()", first)
	expectItems("first", "%c[0]", first)
	expectItems("first", "%c.take(1)", first)
	tail := system.Collection{}
	if n > 1 {
		tail = cc.C[1:]
	}
	expectItems("tail", "%c.tail()", tail)
	expectItems("tail", "%c.skip(1)", tail)
	last := system.Collection{}
	if n > 0 {
		last = cc.C[n-1:]
	}
	expectItems("last", "%c.last()", last)
	expectItems("last", "%c.skip(%c.count() - 1)", last)
	// the argument as the statement writes it: computed from the collection the function is applied to
	if n > 0 {
		expectItems("last", "%c.skip(count() - 1)", last)
		expectItems("partition", "%c.take(count() - 1)", cc.C[:n-1])
		expectItems("partition", "%c.skip(count())", system.Collection{})
		expectItems("partition", "%c.take(count())", cc.C)
	}
	for i := 0; i < n && i < 4; i++ {
		expectItems("index", fmt.Sprintf("%%c[%d]", i), cc.C[i:i+1])
	}
	expectItems("index", fmt.Sprintf("%%c[%d]", n), system.Collection{})
	expectItems("index", "%c[-1]", system.Collection{})
	// take(n) ++ skip(n) partitions c
	env.Cover("partition")
	ks := []int64{math.MinInt32, math.MaxInt32}
	for k := -3; k <= n+3; k++ {
		ks = append(ks, int64(k))
	}
	for _, k := range ks {
		kv := evalopts.EnvVariable("k", system.Integer(int32(k)))
		tk := c10Eval(env, "%c.take(%k)", cv, kv)
		sk := c10Eval(env, "%c.skip(%k)", cv, kv)
		if panicked(tk, "%c.take(k)") || panicked(sk, "%c.skip(k)") {
			continue
		}
		if !tk.IsValue() || !sk.IsValue() {
			fail("partition/error", "take(%d) => %s ; skip(%d) => %s", k, trunc(tk.Short(), 80), k, trunc(sk.Short(), 80))
			continue
		}
		joined := append(append(system.Collection{}, tk.Raw...), sk.Raw...)
		if ok, why := sameItems(joined, cc.C); !ok {
			fail("partition/not-a-partition", "take(%d) ++ skip(%d) != c: %s (take=%d items, skip=%d items, c=%d items)", k, k, why, len(tk.Raw), len(sk.Raw), n)
		}
		wantTake := int64(0)
		if k > 0 {
			wantTake = k
			if wantTake > int64(n) {
				wantTake = int64(n)
			}
		}
		if int64(len(tk.Raw)) != wantTake {
			fail("partition/take-length", "take(%d) has %d items, expected %d", k, len(tk.Raw), wantTake)
		}
	}
	// criteria against the tree
	if cc.Nodes != nil && n > 0 {
		c10Criteria(env, cc, cv, expectItems, expectBool)
	}
	// primitive $this criteria and set functions from keys
	if cc.keyed() && n > 0 {
		c10Sets(env, cc, cv, expectItems, expectBool, fail, panicked)
	}
}

func c10Criteria(env *core.Env, cc *c10Coll, cv fhirpath.EvaluateOption, expectItems func(string, string, system.Collection, ...fhirpath.EvaluateOption), expectBool func(string, string, bool, ...fhirpath.EvaluateOption)) {
	nodes := cc.Nodes
	if nodes[0].IsPrim || nodes[0].Synth != nil {
		return
	}
	if !sameTypes(nodes) {
		return
	}
	env.Cover("complex-collection")
	// candidate fields: names present on at least one node
	seen := map[string]bool{}
	var fields []string
	for _, nd := range nodes {
		for _, kn := range nd.KidNames() {
			if !seen[kn] && !lexicallyOdd(kn) {
				seen[kn] = true
				fields = append(fields, kn)
			}
		}
	}
	if len(fields) > 4 {
		fields = fields[:4]
	}
	for _, f := range fields {
		fs := model.IdentSrc(f)
		var with, kidsAll system.Collection
		all := true
		for i, nd := range nodes {
			ks := nd.KidsNamed(f)
			if len(ks) > 0 {
				with = append(with, cc.C[i])
			} else {
				all = false
			}
		}
		env.Cover("where-exists")
		expectItems("where-exists", "%c.where("+fs+".exists())", orEmpty(with))
		expectBool("exists-criterion", "%c.exists("+fs+".exists())", len(with) > 0)
		expectBool("exists-criterion", "%c.exists("+fs+".exists()) = %c.where("+fs+".exists()).exists()", true)
		// a criterion that yields the child itself (a non-Boolean singleton counts as true; more than one child is
		// an error): exists(p) and where(p).exists() agree, whatever p yields
		ea := c10Eval(env, "%c.exists("+fs+")", cv)
		eb := c10Eval(env, "%c.where("+fs+").exists()", cv)
		if !ea.IsPanic() && !eb.IsPanic() && !(ea.IsError() && eb.IsError()) && !fx.Same(ea, eb) {
			env.Violatef("C10/exists-criterion/differs-from-where-exists", "%s: `%%c.exists(%s)` = %s but `%%c.where(%s).exists()` = %s", cc.Desc, fs, trunc(ea.Short(), 80), fs, trunc(eb.Short(), 80))
		}
		aa := c10Eval(env, "%c.all("+fs+")", cv)
		ab := c10Eval(env, "%c.where("+fs+").count() = %c.count()", cv)
		if !aa.IsPanic() && !ab.IsPanic() && !aa.IsError() && !ab.IsError() && !fx.Same(aa, ab) {
			env.Violatef("C10/all/differs-from-where-count", "%s: `%%c.all(%s)` = %s but `%%c.where(%s).count() = %%c.count()` = %s", cc.Desc, fs, trunc(aa.Short(), 80), fs, trunc(ab.Short(), 80))
		}
		env.Cover("all")
		expectBool("all", "%c.all("+fs+".exists())", all)
		expectBool("all", "%c.all("+fs+".empty())", len(with) == 0)
		// projections made of path steps and an indexer: still one evaluation per item
		for _, proj := range []string{fs + "[0]", fs + ".first()", fs + "[1]", "$this." + fs + "[0]", fs + ".last()", fs + ".tail()"} {
			selp := c10Eval(env, "%c.select("+proj+")", cv)
			if !selp.IsValue() {
				continue
			}
			var concat system.Collection
			okAll := true
			for i := range cc.C {
				one := c10Eval(env, "%c.select("+proj+")", evalopts.EnvVariable("c", system.Collection{cc.C[i]}))
				if !one.IsValue() {
					okAll = false
					break
				}
				concat = append(concat, one.Raw...)
			}
			if okAll {
				if ok, why := sameItems(selp.Raw, orEmpty(concat)); !ok {
					env.Violatef("C10/select/not-concatenation/indexed-projection", "%s: `%%c.select(%s)` differs from the concatenation of the per-item results: %s", cc.Desc, proj, why)
				}
			}
		}
		// select(f) = concatenation over items; compared with the per-item evaluation and the tree
		env.Cover("select")
		sel := c10Eval(env, "%c.select("+fs+")", cv)
		if sel.IsValue() {
			var concat system.Collection
			okAll := true
			for i := range cc.C {
				one := c10Eval(env, "%c.select("+fs+")", evalopts.EnvVariable("c", system.Collection{cc.C[i]}))
				if !one.IsValue() {
					okAll = false
					break
				}
				concat = append(concat, one.Raw...)
			}
			if okAll {
				if ok, why := sameItems(sel.Raw, concat); !ok {
					env.Violatef("C10/select/not-concatenation", "%s: `%%c.select(%s)` differs from the concatenation of the per-item results: %s", cc.Desc, fs, why)
				}
			}
			// expected from the tree (identity)
			var want []*model.Node
			for _, nd := range nodes {
				want = append(want, nd.KidsNamed(f)...)
			}
			if ok, why := nodesMatch(sel, want); !ok {
				env.Violatef("C10/select/wrong-items", "%s: `%%c.select(%s)`: %s", cc.Desc, fs, why)
			}
			if hasNil(sel.Raw) {
				env.Violatef("C10/select/nil-item", "%s: `%%c.select(%s)` yields a nil item", cc.Desc, fs)
			}
		} else if sel.IsPanic() {
			env.Violatef(fx.PanicSig("C10", sel), "%s: `%%c.select(%s)` => %s", cc.Desc, fs, sel.Short())
		}
		_ = kidsAll
		// where(f = 'lit') for single string-valued primitive kids
		var lit string
		found := false
		for _, nd := range nodes {
			ks := nd.KidsNamed(f)
			if len(ks) == 1 && ks[0].IsPrim && ks[0].ChoiceMsg == "" {
				if s, ok := ks[0].JSON.(string); ok && isStringLike(ks[0]) {
					lit, found = s, true
					break
				}
			}
		}
		if found {
			var eqItems system.Collection
			decidable := true
			for i, nd := range nodes {
				ks := nd.KidsNamed(f)
				if len(ks) == 1 {
					s, ok := ks[0].JSON.(string)
					if !ok || !isStringLike(ks[0]) {
						decidable = false
					}
					if s == lit {
						eqItems = append(eqItems, cc.C[i])
					}
				}
			}
			if decidable {
				env.Cover("where-eq")
				q := model.QuoteStr(lit)
				if !strings.ContainsAny(lit, "\\") {
					expectItems("where-eq", "%c.where("+fs+" = "+q+")", orEmpty(eqItems))
					expectBool("exists-criterion", "%c.exists("+fs+" = "+q+")", len(eqItems) > 0)
				}
			}
		}
	}
	// extension(u) = extension.where(url = u)
	for _, u := range []string{"http://example.org/ext/a", "http://example.org/ext/b", "http://none", "http://example.org/ext/A", "http://Example.org/ext/a", "http://example.org/ext/a/", "HTTP://EXAMPLE.ORG/EXT/A", "http://example.org/ext/", "http://example.org/ext/ab"} {
		var want []*model.Node
		any := false
		for _, nd := range nodes {
			for _, e := range nd.KidsNamed("extension") {
				any = true
				us := e.KidsNamed("url")
				if len(us) == 1 {
					if s, _ := us[0].JSON.(string); s == u {
						want = append(want, e)
					}
				}
			}
		}
		if !any {
			continue
		}
		env.Cover("extension")
		a := c10Eval(env, "%c.extension('"+u+"')", cv)
		b := c10Eval(env, "%c.extension.where(url = '"+u+"')", cv)
		if a.IsPanic() {
			env.Violatef(fx.PanicSig("C10", a), "%s: extension(%s) => %s", cc.Desc, u, a.Short())
			continue
		}
		if ok, why := nodesMatch(a, want); !ok {
			env.Violatef("C10/extension/wrong-items", "%s: `%%c.extension('%s')`: %s", cc.Desc, u, why)
		}
		if a.IsValue() && b.IsValue() {
			if ok, why := sameItems(a.Raw, b.Raw); !ok {
				env.Violatef("C10/extension/not-equal-to-where", "%s: extension('%s') != extension.where(url = '%s'): %s", cc.Desc, u, u, why)
			}
		}
	}
}

func isStringLike(n *model.Node) bool {
	if n.MD == nil {
		return n.Synth != nil
	}
	switch string(n.MD.Name()) {
	case "String", "Code", "Id", "Uri", "Url", "Canonical", "Markdown", "Oid", "Uuid":
		return true
	}
	return gen.IsCodeWrapper(n.MD)
}

func orEmpty(c system.Collection) system.Collection {
	if c == nil {
		return system.Collection{}
	}
	return c
}

func c10Sets(env *core.Env, cc *c10Coll, cv fhirpath.EvaluateOption, expectItems func(string, string, system.Collection, ...fhirpath.EvaluateOption), expectBool func(string, string, bool, ...fhirpath.EvaluateOption), fail func(string, string, ...any), panicked func(fx.Res, string) bool) {
	n := len(cc.C)
	classes := map[string]int{}
	var order []string
	for _, k := range cc.Keys {
		if _, ok := classes[k]; !ok {
			order = append(order, k)
		}
		classes[k]++
	}
	if len(order) < n {
		env.Cover("duplicates")
	}
	keyOf := func(v any) string {
		for i, it := range cc.C {
			if sameItem(it, v) {
				return cc.Keys[i]
			}
		}
		// System value produced from an element (intersect): match by rendering against System renderings of c
		rv := fx.Render(v)
		for i, it := range cc.C {
			if sv, err := system.From(it); err == nil && fx.Render(sv) == rv {
				return cc.Keys[i]
			}
		}
		return "?"
	}
	// distinct
	env.Cover("distinct")
	d := c10Eval(env, "%c.distinct()", cv)
	if !panicked(d, "%c.distinct()") {
		if !d.IsValue() {
			fail("distinct/error", "`%%c.distinct()` => %s", trunc(d.Short(), 120))
		} else {
			seen := map[string]bool{}
			bad := ""
			for _, it := range d.Raw {
				k := keyOf(it)
				if k == "?" {
					bad = "an item that is not in c: " + fx.Render(it).String()
				} else if seen[k] {
					bad = "two items of one equality class: " + k
				}
				seen[k] = true
			}
			if bad == "" && len(seen) != len(order) {
				bad = fmt.Sprintf("%d classes represented, c has %d", len(seen), len(order))
			}
			if hasNil(d.Raw) {
				bad = "a nil item"
			}
			if bad != "" {
				fail("distinct/wrong", "`%%c.distinct()` has %s (observed %s)", bad, trunc(d.Short(), 140))
			}
		}
	}
	expectBool("isDistinct", "%c.isDistinct()", len(order) == n)
	expectBool("isDistinct", "%c.isDistinct() = (%c.count() = %c.distinct().count())", true)
	// exclude / intersect with controlled overlap
	type other struct {
		name   string
		d      system.Collection
		keys   []string
		cloned bool
	}
	others := []other{
		{"self", cc.C, cc.Keys, false},
		{"take1", cc.C[:1], cc.Keys[:1], false},
		{"tail", cc.C[1:], cc.Keys[1:], false},
		{"empty", system.Collection{}, nil, false},
	}
	foreign := system.String("\u0001not-an-item-of-c")
	others = append(others, other{"foreign", system.Collection{cc.C[n-1], foreign}, []string{cc.Keys[n-1], "s:\u0001not-an-item-of-c"}, false})
	if n >= 3 {
		others = append(others, other{"middle", cc.C[1:2], cc.Keys[1:2], false})
		// a shorter argument holding equal copies of c's last and first item, in that (reversed) order
		cp := func(v any) any {
			if m, ok := v.(proto.Message); ok {
				return proto.Clone(m)
			}
			return v
		}
		others = append(others, other{"reversed-copies", system.Collection{cp(cc.C[n-1]), cp(cc.C[0])}, []string{cc.Keys[n-1], cc.Keys[0]}, true})
		// equal numbers of the other numeric type / another scale
		var alt system.Collection
		var altKeys []string
		for i, it := range cc.C {
			if len(alt) >= 2 {
				break
			}
			switch v := it.(type) {
			case system.Integer:
				alt = append(alt, system.MustParseDecimal(fmt.Sprintf("%d.0", int32(v))))
				altKeys = append(altKeys, cc.Keys[i])
			case system.Decimal:
				t := fx.Render(v).T
				if strings.Contains(t, ".") {
					t += "0"
				} else {
					t += ".0"
				}
				alt = append(alt, system.MustParseDecimal(t))
				altKeys = append(altKeys, cc.Keys[i])
			}
		}
		if len(alt) > 0 {
			others = append(others, other{"other-numeric-type", alt, altKeys, false})
		}
	}
	for _, o := range others {
		inD := map[string]bool{}
		for _, k := range o.keys {
			inD[k] = true
		}
		dv := evalopts.EnvVariable("d", o.d)
		// exclude: items of c equal to no item of d, order and duplicates preserved
		env.Cover("exclude")
		var wantEx system.Collection
		for i, it := range cc.C {
			if !inD[cc.Keys[i]] {
				wantEx = append(wantEx, it)
			}
		}
		ex := c10Eval(env, "%c.exclude(%d)", cv, dv)
		if !panicked(ex, "%c.exclude(%d)") {
			if !ex.IsValue() {
				fail("exclude/error", "exclude(%s) => %s", o.name, trunc(ex.Short(), 120))
			} else if hasNil(ex.Raw) {
				fail("exclude/nil-item", "exclude(%s) yields a nil item", o.name)
			} else if ok, why := sameItems(ex.Raw, orEmpty(wantEx)); !ok {
				// value predicate of the recorded finding: the result is the expected items followed by
				// exactly the items of d that equal no item of c (symmetric difference)
				inC := map[string]bool{}
				for _, k := range cc.Keys {
					inC[k] = true
				}
				symm := append(system.Collection{}, wantEx...)
				for i, it := range o.d {
					if !inC[o.keys[i]] {
						symm = append(symm, it)
					}
				}
				if same, _ := sameItems(ex.Raw, symm); same {
					fail("exclude/appends-items-of-argument", "exclude(%s) also returns the items of its argument that are not in the input: expected %d items, observed %s", o.name, len(wantEx), trunc(ex.Short(), 140))
				} else {
					fail("exclude/wrong-items", "exclude(%s): %s; expected %d items, observed %s", o.name, why, len(wantEx), trunc(ex.Short(), 140))
				}
			}
		}
		// intersect: duplicate-free set of items of c equal to some item of d
		env.Cover("intersect")
		wantIn := map[string]bool{}
		for _, k := range cc.Keys {
			if inD[k] {
				wantIn[k] = true
			}
		}
		in := c10Eval(env, "%c.intersect(%d)", cv, dv)
		if !panicked(in, "%c.intersect(%d)") {
			if !in.IsValue() {
				fail("intersect/error", "intersect(%s) => %s", o.name, trunc(in.Short(), 120))
				continue
			}
			if hasNil(in.Raw) {
				fail("intersect/nil-item", "intersect(%s) yields a nil item: %s", o.name, trunc(in.Short(), 120))
				continue
			}
			got := map[string]int{}
			for _, it := range in.Raw {
				got[keyOf(it)]++
			}
			bad := ""
			// the result holds c's items: in the order in which c holds their classes, never an object that
			// belongs to the argument only, and values with the type and precision c has them in (keyOf)
			lastIdx := -1
			for _, it := range in.Raw {
				k := keyOf(it)
				at := -1
				for i, ck := range cc.Keys {
					if ck == k {
						at = i
						break
					}
				}
				if at >= 0 && at < lastIdx {
					bad = "the classes in another order than c holds them"
				}
				if at > lastIdx {
					lastIdx = at
				}
				if m, isMsg := it.(proto.Message); isMsg && o.cloned {
					for _, di := range o.d {
						if dm, ok := di.(proto.Message); ok && dm == m {
							bad = "an element object of the argument instead of the equal item of c"
						}
					}
				}
			}
			for k, c := range got {
				if k == "?" || !wantIn[k] {
					bad = "an item outside the intersection"
				} else if c > 1 {
					bad = "a duplicate (class " + k + ")"
				}
			}
			if bad == "" && len(got) != len(wantIn) {
				bad = fmt.Sprintf("%d classes, expected %d", len(got), len(wantIn))
			}
			if bad != "" {
				fail("intersect/wrong", "intersect(%s) has %s (observed %s)", o.name, bad, trunc(in.Short(), 140))
			}
		}
	}
	// $this = literal criterion on primitive collections
	if cc.Nodes != nil && cc.Nodes[0].IsPrim && !strings.HasPrefix(cc.Keys[0], "s:") {
		return
	}
	if strings.HasPrefix(cc.Keys[0], "s:") && !strings.ContainsAny(cc.Keys[0], "\\") {
		lit := model.QuoteStr(cc.Keys[0][2:])
		var want system.Collection
		for i := range cc.C {
			if cc.Keys[i] == cc.Keys[0] {
				want = append(want, cc.C[i])
			}
		}
		env.Cover("where-this")
		expectItems("where-this", "%c.where($this = "+lit+")", want)
		expectBool("exists-criterion", "%c.exists($this = "+lit+")", true)
		expectBool("all", "%c.all($this = "+lit+")", len(want) == n)
	}
}

func c10Resource(env *core.Env, tn string, seed uint64, rich bool) {
	defer env.In("resource", tn, seed, rich)()
	res, _ := genResource(tn, seed, rich)
	tree, err := model.BuildTree(res)
	if err != nil {
		env.Skip("resource-not-marshallable")
		return
	}
	env.Case()
	in := []fhir.Resource{res}
	// candidate paths: every distinct name path (bounded), evaluated through the API
	type entry struct {
		names []string
		nodes []*model.Node
	}
	queue := []entry{{nil, []*model.Node{tree}}}
	done := 0
	for len(queue) > 0 && done < 40 {
		cur := queue[0]
		queue = queue[1:]
		if len(cur.names) > 0 && len(cur.names) <= 5 && (len(cur.nodes) >= 2 || done%3 == 0) {
			src := model.RenderPath(tn, namesToSteps(cur.names))
			r := fx.Eval(env, src, in, nil, nil)
			if ok, _ := nodesMatch(r, cur.nodes); ok {
				cc := &c10Coll{Desc: tn + ":" + src, C: r.Raw, Nodes: cur.nodes}
				// equality keys
				for _, nd := range cur.nodes {
					k := ""
					switch {
					case nd.Synth != nil:
						k = "s:" + *nd.Synth
					case nd.IsPrim:
						switch string(nd.MD.Name()) {
						case "Date", "DateTime", "Instant", "Time", "Base64Binary":
						default:
							if pk, ok := primKey(nd); ok && nd.JSON != nil {
								k = pk
							}
						}
					default:
						switch string(nd.MD.Name()) {
						case "Quantity", "Age", "Count", "Distance", "Duration", "MoneyQuantity", "SimpleQuantity":
							// converts implicitly to System.Quantity: its equality with numbers is not defined by the statement
						default:
							k = "c:" + string(nd.MD.FullName()) + ":" + fx.Digest(nd.Msg)
						}
					}
					cc.Keys = append(cc.Keys, k)
				}
				if cur.nodes[0].IsPrim {
					env.Cover("primitive-collection")
				}
				c10Battery(env, cc)
				done++
			} else {
				env.Skip("path-not-navigable(C02)")
			}
		}
		if len(cur.names) >= 5 {
			continue
		}
		seen := map[string]bool{}
		for _, nd := range cur.nodes {
			for _, kn := range nd.KidNames() {
				if seen[kn] || !validOnAll(cur.nodes, kn) || lexicallyOdd(kn) {
					continue
				}
				seen[kn] = true
				var kids []*model.Node
				for _, n2 := range cur.nodes {
					kids = append(kids, n2.KidsNamed(kn)...)
				}
				queue = append(queue, entry{append(append([]string{}, cur.names...), kn), kids})
			}
		}
	}
}

func replayC10(env *core.Env, a []json.RawMessage) {
	var tn string
	var seed uint64
	var rich bool
	json.Unmarshal(a[0], &tn)
	json.Unmarshal(a[1], &seed)
	json.Unmarshal(a[2], &rich)
	c10Resource(env, tn, seed, rich)
}

func c10EnvColls() []*c10Coll {
	dec := func(s string) system.Decimal { d, _ := decimal.NewFromString(s); return system.Decimal(d) }
	hn := func(f string) proto.Message { return gen.StdEnv()[0].Value.(proto.Message) }
	_ = hn
	mk := func(desc string, items []any, keys []string) *c10Coll {
		return &c10Coll{Desc: "env:" + desc, C: system.Collection(items), Keys: keys}
	}
	p := gen.StdPatient()
	return []*c10Coll{
		mk("ints-dups", []any{system.Integer(1), system.Integer(1), system.Integer(2), system.Integer(3), system.Integer(2)}, []string{"n:1", "n:1", "n:2", "n:3", "n:2"}),
		mk("ints", []any{system.Integer(5), system.Integer(6), system.Integer(7)}, []string{"n:5", "n:6", "n:7"}),
		mk("decimals-scale", []any{dec("1.0"), dec("1.00"), system.Integer(2), dec("2.0")}, []string{"n:1", "n:1", "n:2", "n:2"}),
		mk("strings", []any{system.String("a"), system.String("b"), system.String("a"), system.String("")}, []string{"s:a", "s:b", "s:a", "s:"}),
		mk("single", []any{system.String("only")}, []string{"s:only"}),
		mk("empty", []any{}, nil),
		mk("booleans", []any{system.Boolean(true), system.Boolean(false), system.Boolean(true)}, []string{"b:true", "b:false", "b:true"}),
		mk("complex-dups", []any{p.Name[0], p.Name[1], proto.Clone(p.Name[0])}, []string{"c:0", "c:1", "c:0"}),
		mk("mixed", []any{system.Integer(1), system.String("1"), p.Name[0], system.Integer(1)}, []string{"n:1", "s:1", "c:0", "n:1"}),
		// primitive-typed elements that hold no value (unit only, data-absent-reason): they cannot become System values
		mk("primitive-first-then-equal-complex", []any{system.Integer(7), p.Name[0], system.Integer(7), proto.Clone(p.Name[0]), system.String("x"), p.Name[1], proto.Clone(p.Name[0])}, []string{"n:7", "c:0", "n:7", "c:0", "s:x", "c:1", "c:0"}),
		mk("valueless-primitives", []any{qNoValue("mg"), decNoValue(), qNoValue("mg"), system.Integer(1), qNoValue("kg")}, []string{"c:qmg", "c:d", "c:qmg", "n:1", "c:qkg"}),
	}
}

func qNoValue(u string) *dtpb.Quantity {
	return &dtpb.Quantity{Unit: &dtpb.String{Value: u}, Code: &dtpb.Code{Value: u}, System: &dtpb.Uri{Value: "http://unitsofmeasure.org"}}
}

func decNoValue() *dtpb.Decimal {
	return &dtpb.Decimal{Extension: []*dtpb.Extension{{Url: &dtpb.Uri{Value: "http://hl7.org/fhir/StructureDefinition/data-absent-reason"}, Value: &dtpb.Extension_ValueX{Choice: &dtpb.Extension_ValueX_Code{Code: &dtpb.Code{Value: "unknown"}}}}}}
}

func c10EnvColl(env *core.Env, i int) {
	defer env.In("envcoll", i)()
	env.Case()
	c10Battery(env, c10EnvColls()[i])
}

func replayC10Env(env *core.Env, a []json.RawMessage) {
	var i int
	json.Unmarshal(a[0], &i)
	c10EnvColl(env, i)
}

// c10MixedTypes: a collection of resources of different types (some of them bare): select(f) is the in-order
// concatenation of f over the items whose type has an element f; it is an invalid-field error only when no item's
// type has it. where(f.exists()) / exists(f.exists()) / all(...) follow from the same per-item outcomes.
func c10MixedTypes(env *core.Env, seed uint64) {
	defer env.In("mixedtypes", seed)()
	env.Case()
	env.Cover("mixed-type-resources")
	rng := core.NewRng(seed, "c10-mixed")
	types := gen.ResourceTypes()
	var coll system.Collection
	nameSet := map[string]bool{}
	var names []string
	k := 2 + rng.Intn(3)
	for i := 0; i < k; i++ {
		md := types[rng.Intn(len(types))]
		var r fhir.Resource
		if rng.Intn(3) == 0 {
			r = gen.NewMessage(md).Interface().(fhir.Resource) // bare: every element absent
		} else {
			r, _ = genResource(string(md.Name()), rng.Next(), false)
		}
		coll = append(coll, r)
		fs := md.Fields()
		for j := 0; j < fs.Len(); j++ {
			if jn := fs.Get(j).JSONName(); fs.Get(j).Message() != nil && !nameSet[jn] {
				nameSet[jn] = true
				names = append(names, jn)
			}
		}
	}
	// a bounded, seeded sample of the names plus those every resource has
	pick := []string{"id", "meta", "text", "name", "status", "identifier", "subject", "code"}
	for i := 0; i < 10 && len(names) > 0; i++ {
		pick = append(pick, names[rng.Intn(len(names))])
	}
	cv := evalopts.EnvVariable("m", coll)
	for _, f := range pick {
		fs0 := model.IdentSrc(f)
		ea := c10Eval(env, "%m.exists("+fs0+".exists())", cv)
		eb := c10Eval(env, "%m.where("+fs0+".exists()).exists()", cv)
		if ea.IsPanic() || eb.IsPanic() {
			env.Violatef(fx.PanicSig("C10", ea), "exists/where(%s.exists()) on mixed types => %s / %s", fs0, ea.Short(), eb.Short())
		} else if ea.Kind != eb.Kind || (ea.IsValue() && !fx.Same(ea, eb)) {
			env.Violatef("C10/exists-criterion/differs-from-where-exists/mixed-types", "%d resources of mixed types: `%%m.exists(%s.exists())` = %s but `%%m.where(%s.exists()).exists()` = %s", len(coll), fs0, trunc(ea.Short(), 80), fs0, trunc(eb.Short(), 80))
		}
	}
	for _, f := range pick {
		fs := model.IdentSrc(f)
		var want system.Collection
		invalid, decided := 0, true
		for i := range coll {
			ri := c10Eval(env, "%x."+fs, evalopts.EnvVariable("x", coll[i]))
			switch {
			case ri.IsPanic():
				env.Violatef(fx.PanicSig("C10", ri), "`%%x.%s` on a %T => %s", fs, coll[i], ri.Short())
				decided = false
			case ri.IsError() && errors.Is(ri.Err, fhirpath.ErrInvalidField):
				invalid++
			case ri.IsError():
				decided = false
			default:
				want = append(want, ri.Raw...)
			}
		}
		if !decided {
			continue
		}
		got := c10Eval(env, "%m.select("+fs+")", cv)
		desc := fmt.Sprintf("%d resources of mixed types, `%%m.select(%s)` (%d of them have no such element)", len(coll), fs, invalid)
		switch {
		case got.IsPanic():
			env.Violatef(fx.PanicSig("C10", got), "%s => %s", desc, got.Short())
		case invalid == len(coll):
			env.Cover("mixed-type-select-all-invalid")
			if !got.IsError() {
				env.Violatef("C10/select/mixed-types/no-error-for-unknown-element", "%s: no item has the element, observed %s", desc, trunc(got.Short(), 100))
			}
		case got.IsError():
			env.Violatef("C10/select/mixed-types/error", "%s: expected the concatenation over the other items (%d items), observed %s", desc, len(want), trunc(got.Short(), 120))
		default:
			env.Cover("mixed-type-select")
			if invalid > 0 && len(want) == 0 {
				env.Cover("mixed-type-select-empty-with-invalid")
			}
			if ok, why := sameItems(got.Raw, orEmpty(want)); !ok {
				env.Violatef("C10/select/mixed-types/not-the-concatenation", "%s: %s", desc, why)
			}
		}
	}
}

// c10ExtensionEdge: extensions without a url, with an empty url and with the queried url, queried with '' and others.
func c10ExtensionEdge(env *core.Env) {
	defer env.In("extedge")()
	env.Case()
	env.Cover("extension-edge")
	mk := func(u *string, v string) *dtpb.Extension {
		e := &dtpb.Extension{Value: &dtpb.Extension_ValueX{Choice: &dtpb.Extension_ValueX_StringValue{StringValue: &dtpb.String{Value: v}}}}
		if u != nil {
			e.Url = &dtpb.Uri{Value: *u}
		}
		return e
	}
	empty, a := "", "http://u/a"
	hn := &dtpb.HumanName{Family: &dtpb.String{Value: "X"}, Extension: []*dtpb.Extension{mk(nil, "no-url"), mk(&empty, "empty-url"), mk(&a, "a1"), mk(nil, "no-url-2"), mk(&a, "a2")}}
	p := gen.StdPatient()
	p.Name = append(p.Name, hn)
	for _, recv := range []struct {
		src string
		eo  []fhirpath.EvaluateOption
	}{{"%h", []fhirpath.EvaluateOption{evalopts.EnvVariable("h", hn)}}, {"%p.name", []fhirpath.EvaluateOption{evalopts.EnvVariable("p", p)}}} {
		for _, u := range []string{"''", "'http://u/a'", "'http://u/b'", "{}", "' '", "%u"} {
			eo := append(append([]fhirpath.EvaluateOption{}, recv.eo...), evalopts.EnvVariable("u", system.String("")))
			x := c10Eval(env, recv.src+".extension("+u+")", eo...)
			y := c10Eval(env, recv.src+".extension.where(url = "+u+")", eo...)
			if x.IsPanic() || y.IsPanic() {
				env.Violatef(fx.PanicSig("C10", x), "`%s.extension(%s)` => %s / %s", recv.src, u, x.Short(), y.Short())
				continue
			}
			if x.IsValue() && y.IsValue() {
				if ok, why := sameItems(x.Raw, y.Raw); !ok {
					env.Violatef("C10/extension/not-equal-to-where", "%s with url-less, empty-url and other extensions: extension(%s) != extension.where(url = %s): %s", recv.src, u, u, why)
				}
			}
		}
	}
}

func runC10(env *core.Env) {
	n := 0
	n++
	if env.Mine(n) {
		c10ExtensionEdge(env)
	}
	for k := 0; k < env.Size(150, 3000); k++ {
		n++
		if env.Mine(n) {
			c10MixedTypes(env, env.Seed*104729+uint64(k))
		}
	}
	for i := range c10EnvColls() {
		n++
		if env.Mine(n) {
			c10EnvColl(env, i)
		}
	}
	types := gen.ResourceTypes()
	per := env.Size(1, 12)
	for k := 0; k < per; k++ {
		for _, md := range types {
			n++
			if env.Mine(n) {
				c10Resource(env, string(md.Name()), env.Seed*7919+uint64(k), k%2 == 0)
			}
		}
	}
}

func minInt(a, b int) int {
	if a < b {
		return a
	}
	return b
}
