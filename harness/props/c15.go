package props

import (
	"errors"
	"encoding/json"
	"fmt"
	"math"
	"math/big"
	"reflect"
	"strings"

	dtpb "github.com/google/fhir/go/proto/google/fhir/proto/r4/core/datatypes_go_proto"
	opb "github.com/google/fhir/go/proto/google/fhir/proto/r4/core/resources/observation_go_proto"
	ppb "github.com/google/fhir/go/proto/google/fhir/proto/r4/core/resources/patient_go_proto"
	"github.com/shopspring/decimal"
	"github.com/verily-src/fhirpath-go/fhirpath/system"
	"github.com/verily-src/fhirpath-go/fhirpath/verifharness/core"
	"github.com/verily-src/fhirpath-go/fhirpath/verifharness/fx"
	"github.com/verily-src/fhirpath-go/fhirpath/verifharness/model"
	"github.com/verily-src/fhirpath-go/internal/fhir"
	"github.com/verily-src/fhirpath-go/internal/fhirconv"
	"github.com/verily-src/fhirpath-go/internal/narrow"
	"golang.org/x/exp/constraints"
	"google.golang.org/protobuf/proto"
	"google.golang.org/protobuf/reflect/protoreflect"
)

// C15 — literals and value representations round-trip losslessly.

func init() {
	core.Register(&core.Property{
		ID:   "C15",
		Rule: "(a) string literals built from pieces over {plain ASCII, space, 2/3/4-byte code points, combining mark, unescaped \" ` /} and every FHIRPath escape (\\' \\\" \\` \\\\ \\/ \\f \\n \\r \\t \\uXXXX), length 0..10, decoded by an independent decoder; (b) Integer/Decimal literals with leading/trailing zeros up to 30 digits; (c) Date/DateTime/Time literals over every precision x fraction digits 0..6 x {none,Z,+05:30,-11:00}: value denoted, canonical string re-parses to an equal value, hidden state probed with `=`; (d) System <-> FHIR proto conversions (ToProto*, system.From) on those values and on generated proto elements; (e) internal/fhir Parse* after fhirconv *ToString on generated Date/DateTime/Instant/Time elements of every precision enum and offset, compared with jsonformat's rendering; (f) narrow.ToInteger / fhirconv.ToInteger over all 11x11 integer type pairs with exhaustive 8/16-bit and boundary 32/64-bit values vs math/big. elements finer than their precision, precision of offset-less DateTimes, digit strings around 2^31..10^20, leading zeros, the IntegerFrom* constructors; distinct_nontrivial = distinct cases whose representation is not the identity (escapes present, fraction/offset present, narrowing across width or signedness)",
		Assumptions: []string{"System DateTime/Time carry at most milliseconds: literal fractions beyond 3 digits may be truncated",
			"DateTime hour/minute precision and offset-less times are not representable in the FHIR protos: skipped for the System->proto direction"},
		Run:    runC15,
		Checks: map[string]func(*core.Env, []json.RawMessage){"strlit": replayC15Str, "lit": replayC15Lit, "proto": replayC15Proto},
		Threshold: func(m *core.Merged) []string {
			var r []string
			for _, k := range []string{"strlit", "escape:u", "numlit", "templit:Date", "templit:DateTime", "templit:Time", "sys->proto", "proto->sys", "parse-format", "jsonformat-agree", "narrow", "narrow-reject", "fhirconv-int", "decimal-proto", "quantity-proto"} {
				if m.Cover[k] == 0 {
					r = append(r, "never observed: "+k)
				}
			}
			return r
		},
	})
}

type piece struct{ lit, dec, tag string }

var c15Pieces = []piece{
	{"a", "a", "plain"}, {"Z", "Z", "plain"}, {"0", "0", "plain"}, {" ", " ", "plain"}, {"é", "é", "utf8"}, {"€", "€", "utf8"}, {"😀", "😀", "utf8"}, {"́", "́", "utf8"},
	{"\"", "\"", "quote"}, {"`", "`", "quote"}, {"/", "/", "plain"}, {"u", "u", "plain"}, {"n", "n", "plain"},
	{`\'`, "'", "escape"}, {`\"`, "\"", "escape"}, {"\\`", "`", "escape"}, {`\\`, `\`, "escape"}, {`\/`, "/", "escape"}, {`\f`, "\f", "escape"}, {`\n`, "\n", "escape"}, {`\r`, "\r", "escape"}, {`\t`, "\t", "escape"},
	{"\\u00e9", "é", "escape:u"}, {"\\u0041", "A", "escape:u"}, {"\\u20AC", "€", "escape:u"}, {"\\u0027", "'", "escape:u"},
	// text that looks like the tail of an escape, and unicode escapes of the escape characters themselves
	// (a decoder working in two passes decodes these twice)
	{"u0041", "u0041", "plain"}, {"u00e9", "u00e9", "plain"}, {"\\u005c", "\\", "escape:u"}, {"\\u005C", "\\", "escape:u"}, {"t", "t", "plain"}, {"\\u0022", "\"", "escape:u"}, {"\\u0060", "`", "escape:u"},
}

func c15StrLit(env *core.Env, idxs []int) {
	defer env.In("strlit", idxs)()
	var lit, dec strings.Builder
	tags := map[string]bool{}
	for _, i := range idxs {
		lit.WriteString(c15Pieces[i].lit)
		dec.WriteString(c15Pieces[i].dec)
		tags[c15Pieces[i].tag] = true
	}
	src := "'" + lit.String() + "'"
	r := fx.E(env, src)
	env.Case()
	env.Cover("strlit")
	for t := range tags {
		env.Cover(t)
	}
	if tags["escape"] || tags["escape:u"] || tags["utf8"] {
		env.Distinct("str|" + src)
	}
	if r.IsPanic() {
		env.Violatef(fx.PanicSig("C15", r), "`%s` => %s", src, r.Short())
		return
	}
	it, ok := r.Single()
	if !ok || it.K != "String" || it.T != dec.String() {
		cls := "plain"
		switch {
		case tags["escape:u"]:
			cls = "unicode-escape"
		case tags["escape"]:
			cls = "escape"
		case tags["utf8"]:
			cls = "non-ascii"
		}
		env.Violatef("C15/string-literal/"+cls, "literal %s must denote %q, observed %s", src, dec.String(), trunc(r.Short(), 120))
	}
	env.SampleSpread(src, map[string]string{"literal": src, "denotes": dec.String(), "observed": trunc(r.Short(), 80)})
}

func replayC15Str(env *core.Env, a []json.RawMessage) {
	var idxs []int
	json.Unmarshal(a[0], &idxs)
	c15StrLit(env, idxs)
}

// c15Lit: kind ∈ num | Date | DateTime | Time
func c15Lit(env *core.Env, kind, text string) {
	defer env.In("lit", kind, text)()
	env.Case()
	src := text
	if kind != "num" {
		src = "@" + text
		if kind == "Time" {
			src = "@T" + text
		}
	}
	r := fx.E(env, src)
	if r.IsPanic() {
		env.Violatef(fx.PanicSig("C15", r), "`%s` => %s", src, r.Short())
		return
	}
	it, ok := r.Single()
	if !ok {
		env.Violatef("C15/literal/"+kind+"/no-value", "valid literal `%s` evaluates to %s", src, trunc(r.Short(), 120))
		return
	}
	if kind == "num" {
		env.Cover("numlit")
		want, _ := model.ParseNum(text)
		wantKind := "Integer"
		if strings.Contains(text, ".") {
			wantKind = "Decimal"
		}
		got, okp := model.ParseNum(it.T)
		if it.K != wantKind || !okp || got.Cmp(want) != 0 {
			env.Violatef("C15/literal/num/wrong-value", "literal `%s` must denote %s %s, observed %s", src, wantKind, want.RatString(), it)
			return
		}
		ts := fx.E(env, "("+src+").toString()")
		if s, ok := ts.Single(); !ok || s.K != "String" {
			env.Violatef("C15/literal/num/toString", "`(%s).toString()` => %s", src, trunc(ts.Short(), 100))
		} else if back, okb := model.ParseNum(s.T); !okb || back.Cmp(want) != 0 {
			env.Violatef("C15/literal/num/string-form-differs", "`(%s).toString()` = %q does not re-parse to %s", src, s.T, want.RatString())
		}
		if text != it.T {
			env.Distinct("num|" + text)
		}
		return
	}
	env.Cover("templit:" + kind)
	want, okw := model.ParseTemporal(kind, text)
	if !okw {
		env.Skip("harness-literal-unparsed")
		return
	}
	got, okg := model.ParseTemporal(kind, it.T)
	cls := fmt.Sprintf("%s/comps%d/frac%d/tz%v", kind, want.Comps, len(want.Frac), want.HasTZ)
	if it.K != kind || !okg {
		env.Violatef("C15/literal/"+cls+"/wrong-kind", "literal `%s` evaluates to %s", src, it)
		return
	}
	wcmp := want
	if len(wcmp.Frac) > 3 {
		wcmp.Frac = wcmp.Frac[:3]
	}
	if !model.SameTemporal(wcmp, got, 3) {
		env.Violatef("C15/literal/"+cls+"/wrong-value", "literal `%s` must denote %s, its value renders as %s", src, wcmp, it.T)
		return
	}
	// hidden state: the literal must equal the literal spelled from its own canonical rendering
	canon := "@" + it.T
	if kind == "Time" {
		canon = "@T" + it.T
	}
	eq := fx.E(env, src+" = "+canon)
	if eq.Bool3() != "true" {
		env.Violatef("C15/literal/"+cls+"/canonical-form-not-equal", "`%s = %s` (the value's own rendering) is %s", src, canon, trunc(eq.Short(), 80))
	}
	// toString agrees with the rendering
	ts := fx.E(env, src+".toString()")
	if s, ok := ts.Single(); !ok || s.T != it.T {
		env.Violatef("C15/literal/"+cls+"/toString-differs", "`%s.toString()` = %s but the value renders as %s", src, trunc(ts.Short(), 80), it.T)
	}
	if want.Frac != "" || want.HasTZ || want.Comps < 3 {
		env.Distinct("temp|" + src)
	}
	// System -> proto -> System
	c15SysProto(env, kind, src, r.Raw[0], want, cls)
}

func replayC15Lit(env *core.Env, a []json.RawMessage) {
	var kind, text string
	json.Unmarshal(a[0], &kind)
	json.Unmarshal(a[1], &text)
	c15Lit(env, kind, text)
}

func c15SysProto(env *core.Env, kind, src string, v any, want model.Temporal, cls string) {
	var back system.Any
	var err error
	representable := true
	precisionLoss := ""
	defer func() {
		if precisionLoss != "" {
			env.Cover("sys->proto-precision-only")
			env.Violatef("C15/sys-proto/"+cls+"/precision-not-preserved", "%s (no offset): %s", src, precisionLoss)
		}
	}()
	out := env.Guard("ToProto "+src, func() {
		switch x := v.(type) {
		case system.Date:
			back, err = system.From(x.ToProtoDate())
		case system.DateTime:
			if want.Comps == 6 && !want.HasTZ {
				// no offset: the element must be given one, so the value is not preserved; its precision (seconds, or
				// seconds with a fraction) is, and so is the element's own consistency (a precision is set)
				pe := x.ToProtoDateTime()
				b2, e2 := system.From(pe)
				if e2 != nil || b2 == nil {
					precisionLoss = fmt.Sprintf("System -> proto -> System failed: %v", e2)
				} else if bt, ok := model.ParseTemporal("DateTime", fx.Render(b2).T); !ok || bt.Comps != 6 || (bt.Frac != "") != (want.Frac != "") || pe.GetPrecision() == dtpb.DateTime_PRECISION_UNSPECIFIED {
					precisionLoss = fmt.Sprintf("the element has precision %v and reads back as %s", pe.GetPrecision(), fx.Render(b2).T)
				}
				representable = false
				return
			}
			if (want.Comps > 3 && want.Comps < 6) || (want.Comps >= 4 && !want.HasTZ) {
				representable = false
				return
			}
			back, err = system.From(x.ToProtoDateTime())
		case system.Time:
			if want.Comps < 3 {
				representable = false
				return
			}
			back, err = system.From(x.ToProtoTime())
		}
	})
	env.Eval(1)
	if out.Panicked || out.Dead {
		env.Violatef("C15/panic@"+out.Site+"/ToProto", "%s: ToProto*/system.From panicked: %s", src, out.PanicMsg)
		return
	}
	if !representable {
		env.Skip("not-representable-in-proto")
		return
	}
	env.Cover("sys->proto")
	if err != nil || back == nil {
		env.Violatef("C15/sys-proto/"+cls+"/error", "%s: System -> proto -> System failed: %v", src, err)
		return
	}
	a, b := fx.Render(v), fx.Render(back)
	if a != b {
		env.Violatef("C15/sys-proto/"+cls+"/not-preserved", "%s: System -> proto -> System gives %s, expected %s", src, b, a)
	}
}

// c15Proto: proto element -> fhirconv string -> fhir.Parse -> proto; jsonformat agreement; system.From -> ToProto.
func c15Proto(env *core.Env, kind string, valueUs int64, tz string, prec int32) {
	defer env.In("proto", kind, valueUs, tz, prec)()
	env.Case()
	var s, js string
	var e2 proto.Message
	var perr error
	var e proto.Message
	var res fhir.Resource
	var jpath []string
	out := env.Guard(fmt.Sprintf("fhirconv/%s %d %s %d", kind, valueUs, tz, prec), func() {
		switch kind {
		case "Date":
			x := &dtpb.Date{ValueUs: valueUs, Timezone: tz, Precision: dtpb.Date_Precision(prec)}
			e = x
			s = fhirconv.DateToString(x)
			e2, perr = fhir.ParseDate(s)
			res, jpath = &ppb.Patient{BirthDate: proto.Clone(x).(*dtpb.Date)}, []string{"birthDate"}
		case "DateTime":
			x := &dtpb.DateTime{ValueUs: valueUs, Timezone: tz, Precision: dtpb.DateTime_Precision(prec)}
			e = x
			s = fhirconv.DateTimeToString(x)
			e2, perr = fhir.ParseDateTime(s)
			res, jpath = &ppb.Patient{Deceased: &ppb.Patient_DeceasedX{Choice: &ppb.Patient_DeceasedX_DateTime{DateTime: proto.Clone(x).(*dtpb.DateTime)}}}, []string{"deceasedDateTime"}
		case "Instant":
			x := &dtpb.Instant{ValueUs: valueUs, Timezone: tz, Precision: dtpb.Instant_Precision(prec)}
			e = x
			s = fhirconv.InstantToString(x)
			e2, perr = fhir.ParseInstant(s)
			res, jpath = &ppb.Patient{Meta: &dtpb.Meta{LastUpdated: proto.Clone(x).(*dtpb.Instant)}}, []string{"meta", "lastUpdated"}
		case "Time":
			x := &dtpb.Time{ValueUs: valueUs, Precision: dtpb.Time_Precision(prec)}
			e = x
			s = fhirconv.TimeToString(x)
			e2, perr = fhir.ParseTime(s)
			res, jpath = &opb.Observation{Value: &opb.Observation_ValueX{Choice: &opb.Observation_ValueX_Time{Time: proto.Clone(x).(*dtpb.Time)}}}, []string{"valueTime"}
		}
	})
	env.Eval(2)
	env.Cover("parse-format")
	cls := fmt.Sprintf("%s/prec%d", kind, prec)
	d := fmt.Sprintf("%s{value_us:%d tz:%q precision:%d}", kind, valueUs, tz, prec)
	if out.Panicked || out.Dead {
		env.Violatef("C15/panic@"+out.Site+"/fhirconv", "%s: format/parse panicked: %s", d, out.PanicMsg)
		return
	}
	mk := kind
	if kind == "Instant" {
		mk = "DateTime"
	}
	st, okS := model.ParseTemporal(mk, s)
	if !okS {
		env.Violatef("C15/fhir-format/"+cls+"/unparsable", "%s formats as %q, which is not a FHIR %s", d, s, kind)
		return
	}
	// agreement with jsonformat
	if b, err := model.MarshalJSON(res); err == nil {
		if j, err := model.ParseJSON(b); err == nil {
			var cur any = j
			for _, k := range jpath {
				if mm, ok := cur.(map[string]any); ok {
					cur = mm[k]
				}
			}
			js, _ = cur.(string)
		}
	}
	if js != "" {
		env.Cover("jsonformat-agree")
		jt, okJ := model.ParseTemporal(mk, js)
		if okJ && !model.SameTemporal(jt, st, 6) {
			env.Violatef("C15/fhir-format/"+cls+"/differs-from-jsonformat", "%s: repository renders %q, jsonformat renders %q", d, s, js)
		}
	}
	if perr != nil || e2 == nil {
		env.Violatef("C15/fhir-parse/"+cls+"/rejects-own-format", "%s: %q (the repository's own rendering) does not parse back: %v", d, s, perr)
		return
	}
	// fixpoint for every element: format(parse(format(x))) = format(x)
	var s2 string
	out = env.Guard("fhirconv re-format "+d, func() {
		switch y := e2.(type) {
		case *dtpb.Date:
			s2 = fhirconv.DateToString(y)
		case *dtpb.DateTime:
			s2 = fhirconv.DateTimeToString(y)
		case *dtpb.Instant:
			s2 = fhirconv.InstantToString(y)
		case *dtpb.Time:
			s2 = fhirconv.TimeToString(y)
		}
	})
	if out.Panicked || out.Dead {
		env.Violatef("C15/panic@"+out.Site+"/fhirconv", "%s: re-format panicked: %s", d, out.PanicMsg)
		return
	}
	if s2 != s {
		env.Violatef("C15/fhir-parse/"+cls+"/not-fixpoint", "%s: format = %q but format(parse(format)) = %q", d, s, s2)
	}
	// identity (same instant, precision, equivalent offset) for canonical elements: the value is
	// truncated to its precision in its own zone, and date-only precisions sit in UTC (their text has no offset)
	if canonicalProto(kind, valueUs, tz, prec) && !sameTemporalProto(e, e2) {
		env.Violatef("C15/fhir-parse/"+cls+"/not-identity", "%s: parse(format(x)) = %v", d, e2)
	}
	env.Distinct(fmt.Sprintf("proto|%s|%d|%s|%d", kind, valueUs%86400000000, tz, prec))
	// proto -> System -> proto
	var p2 proto.Message
	var sv system.Any
	var ferr error
	out = env.Guard("system.From "+d, func() {
		sv, ferr = system.From(e)
		if ferr != nil {
			return
		}
		switch x := sv.(type) {
		case system.Date:
			p2 = x.ToProtoDate()
		case system.DateTime:
			p2 = x.ToProtoDateTime()
		case system.Time:
			p2 = x.ToProtoTime()
		}
	})
	env.Eval(1)
	env.Cover("proto->sys")
	if out.Panicked || out.Dead {
		env.Violatef("C15/panic@"+out.Site+"/proto-sys", "%s: system.From/ToProto panicked: %s", d, out.PanicMsg)
		return
	}
	if ferr != nil {
		env.Violatef("C15/proto-sys/"+cls+"/error", "%s: system.From failed: %v", d, ferr)
		return
	}
	// the System value must render as the same instant/precision/offset (to milliseconds)
	svT, okv := model.ParseTemporal(mk, fx.Render(sv).T)
	if !okv || !model.SameTemporal(truncFrac(st, 3), svT, 3) {
		env.Violatef("C15/proto-sys/"+cls+"/value-differs", "%s (%q): system.From gives %s", d, s, fx.Render(sv))
		return
	}
	if prec == 0 {
		// no precision given: the System value was compared above; the element built back carries an explicit precision
	} else if kind != "Instant" && kind != "Time" && p2 != nil && prec <= 3 {
		// date-only precisions: the element's value is its civil date down to the precision (a date has no
		// offset; the proto's zone and the digits of value_us below the precision are not part of the value)
		var s3 string
		out = env.Guard("fhirconv format of round-tripped "+d, func() {
			switch y := p2.(type) {
			case *dtpb.Date:
				s3 = fhirconv.DateToString(y)
			case *dtpb.DateTime:
				s3 = fhirconv.DateTimeToString(y)
			}
		})
		if out.Panicked || out.Dead {
			env.Violatef("C15/panic@"+out.Site+"/fhirconv", "%s: formatting the round-tripped element panicked: %s", d, out.PanicMsg)
			return
		}
		if s3 != s || p2.ProtoReflect().Get(p2.ProtoReflect().Descriptor().Fields().ByName("precision")).Enum() != protoreflect.EnumNumber(prec) {
			env.Violatef("C15/proto-sys/"+cls+"/roundtrip-differs", "%s (%q): proto -> System -> proto = %v (%q)", d, s, p2, s3)
		}
	} else if kind != "Instant" && p2 != nil && microsRepresentable(e) && !sameTemporalProto(e, p2) {
		env.Violatef("C15/proto-sys/"+cls+"/roundtrip-differs", "%s: proto -> System -> proto = %v", d, p2)
	}
}

// canonicalProto: value_us carries nothing below the precision (in the element's zone), and
// date-only precisions are UTC.
func canonicalProto(kind string, us int64, tz string, prec int32) bool {
	off, ok := tzOffsetSeconds(tz)
	if !ok {
		return false
	}
	if prec == 0 {
		return false // no precision: a parsed text always carries one
	}
	if kind == "Time" || kind == "Instant" {
		switch prec {
		case 1:
			return us%1000000 == 0
		case 2:
			return us%1000 == 0
		}
		return true
	}
	local := us + int64(off)*1000000
	day := int64(86400) * 1000000
	tod := ((local % day) + day) % day
	days := (local - tod) / day
	_, m, dd := model.CivilFromDays(days)
	dateOnly := prec <= 3
	switch prec {
	case 1:
		return off == 0 && tod == 0 && m == 1 && dd == 1
	case 2:
		return off == 0 && tod == 0 && dd == 1
	case 3:
		return off == 0 && tod == 0
	case 4:
		return us%1000000 == 0
	case 5:
		return us%1000 == 0
	}
	_ = dateOnly
	return true
}

func truncFrac(t model.Temporal, n int) model.Temporal {
	if len(t.Frac) > n {
		t.Frac = t.Frac[:n]
	}
	return t
}

// microsRepresentable: System types carry milliseconds; microsecond-precision elements cannot round-trip exactly.
func microsRepresentable(e proto.Message) bool {
	switch x := e.(type) {
	case *dtpb.DateTime:
		return x.Precision != dtpb.DateTime_MICROSECOND
	case *dtpb.Time:
		return x.Precision != dtpb.Time_MICROSECOND
	}
	return true
}

func tzOffsetSeconds(tz string) (int, bool) {
	switch tz {
	case "", "Z", "UTC":
		return 0, true
	}
	if len(tz) == 6 && (tz[0] == '+' || tz[0] == '-') {
		var h, m int
		if _, err := fmt.Sscanf(tz[1:], "%d:%d", &h, &m); err == nil {
			v := h*3600 + m*60
			if tz[0] == '-' {
				v = -v
			}
			return v, true
		}
	}
	return 0, false
}

func sameTemporalProto(a, b proto.Message) bool {
	ra, rb := a.ProtoReflect(), b.ProtoReflect()
	if ra.Descriptor() != rb.Descriptor() {
		return false
	}
	f := ra.Descriptor().Fields()
	if ra.Get(f.ByName("value_us")).Int() != rb.Get(f.ByName("value_us")).Int() {
		return false
	}
	if ra.Get(f.ByName("precision")).Enum() != rb.Get(f.ByName("precision")).Enum() {
		return false
	}
	if tzf := f.ByName("timezone"); tzf != nil {
		oa, ok1 := tzOffsetSeconds(ra.Get(tzf).String())
		ob, ok2 := tzOffsetSeconds(rb.Get(tzf).String())
		if !ok1 || !ok2 || oa != ob {
			return false
		}
	}
	return true
}

func replayC15Proto(env *core.Env, a []json.RawMessage) {
	var kind, tz string
	var us int64
	var prec int32
	json.Unmarshal(a[0], &kind)
	json.Unmarshal(a[1], &us)
	json.Unmarshal(a[2], &tz)
	json.Unmarshal(a[3], &prec)
	c15Proto(env, kind, us, tz, prec)
}

// ---- narrowing

func bounds[T constraints.Integer]() (min, max *big.Int) {
	var z T
	bits := uint(reflect.TypeOf(z).Size() * 8)
	neg := T(0)
	neg--
	if neg < 0 { // signed
		max = new(big.Int).Sub(new(big.Int).Lsh(big.NewInt(1), bits-1), big.NewInt(1))
		min = new(big.Int).Neg(new(big.Int).Lsh(big.NewInt(1), bits-1))
		return
	}
	max = new(big.Int).Sub(new(big.Int).Lsh(big.NewInt(1), bits), big.NewInt(1))
	return big.NewInt(0), max
}

func bigOf[T constraints.Integer](v T) *big.Int {
	neg := T(0)
	neg--
	if neg < 0 {
		return big.NewInt(int64(v))
	}
	return new(big.Int).SetUint64(uint64(v))
}

func narrowOne[To, From constraints.Integer](env *core.Env, v From) {
	var got To
	var ok bool
	out := env.Guard("narrow", func() { got, ok = narrow.ToInteger[To](v) })
	env.Eval(1)
	env.Cover("narrow")
	var zt To
	var zf From
	name := fmt.Sprintf("%T->%T", zf, zt)
	if out.Panicked || out.Dead {
		env.Violatef("C15/panic@"+out.Site+"/narrow", "narrow.ToInteger[%s](%v) panicked: %s", name, v, out.PanicMsg)
		return
	}
	exact := bigOf(v)
	lo, hi := bounds[To]()
	fits := exact.Cmp(lo) >= 0 && exact.Cmp(hi) <= 0
	if !fits {
		env.Cover("narrow-reject")
	}
	if ok != fits {
		env.Violatef("C15/narrow/"+name+"/wrong-verdict", "narrow.ToInteger[%s](%v): ok=%v but the value %s representable in the target", name, v, ok, map[bool]string{true: "is", false: "is not"}[fits])
		return
	}
	if ok && bigOf(got).Cmp(exact) != 0 {
		env.Violatef("C15/narrow/"+name+"/wrong-value", "narrow.ToInteger[%s](%v) = %v", name, v, got)
	}
	if reflect.TypeOf(zt) != reflect.TypeOf(zf) {
		env.Distinct(fmt.Sprintf("narrow|%s|%v", name, fits))
	}
}

func narrowAll[From constraints.Integer](env *core.Env, v From) {
	narrowOne[int](env, v)
	narrowOne[int8](env, v)
	narrowOne[int16](env, v)
	narrowOne[int32](env, v)
	narrowOne[int64](env, v)
	narrowOne[uint](env, v)
	narrowOne[uint8](env, v)
	narrowOne[uint16](env, v)
	narrowOne[uint32](env, v)
	narrowOne[uint64](env, v)
	narrowOne[uintptr](env, v)
	env.Case()
}

func fhirconvOne[To constraints.Integer](env *core.Env, e any, exact *big.Int) {
	var got To
	var err error
	out := env.Guard("fhirconv.ToInteger", func() {
		switch x := e.(type) {
		case *dtpb.Integer:
			got, err = fhirconv.ToInteger[To](x)
		case *dtpb.UnsignedInt:
			got, err = fhirconv.ToInteger[To](x)
		case *dtpb.PositiveInt:
			got, err = fhirconv.ToInteger[To](x)
		}
	})
	env.Eval(1)
	env.Cover("fhirconv-int")
	var zt To
	name := fmt.Sprintf("%T->%T", e, zt)
	if out.Panicked || out.Dead {
		env.Violatef("C15/panic@"+out.Site+"/fhirconv.ToInteger", "fhirconv.ToInteger[%s](%v) panicked: %s", name, exact, out.PanicMsg)
		return
	}
	lo, hi := bounds[To]()
	fits := exact.Cmp(lo) >= 0 && exact.Cmp(hi) <= 0
	if (err == nil) != fits {
		env.Violatef("C15/fhirconv-int/"+name+"/wrong-verdict", "fhirconv.ToInteger[%s](%v): err=%v but the value %s representable", name, exact, err, map[bool]string{true: "is", false: "is not"}[fits])
		return
	}
	if err == nil && bigOf(got).Cmp(exact) != 0 {
		env.Violatef("C15/fhirconv-int/"+name+"/wrong-value", "fhirconv.ToInteger[%s](%v) = %v", name, exact, got)
	}
}

func fhirconvAll(env *core.Env, e any, exact *big.Int) {
	fhirconvOne[int](env, e, exact)
	fhirconvOne[int8](env, e, exact)
	fhirconvOne[int16](env, e, exact)
	fhirconvOne[int32](env, e, exact)
	fhirconvOne[int64](env, e, exact)
	fhirconvOne[uint](env, e, exact)
	fhirconvOne[uint8](env, e, exact)
	fhirconvOne[uint16](env, e, exact)
	fhirconvOne[uint32](env, e, exact)
	fhirconvOne[uint64](env, e, exact)
}

func c15Narrow(env *core.Env) {
	n := 0
	mine := func() bool { n++; return env.Mine(n) }
	for i := math.MinInt8; i <= math.MaxInt8; i++ {
		if mine() {
			narrowAll(env, int8(i))
		}
	}
	for i := 0; i <= math.MaxUint8; i++ {
		if mine() {
			narrowAll(env, uint8(i))
		}
	}
	step16 := 1
	if env.Quick() {
		step16 = 7
	}
	for i := math.MinInt16; i <= math.MaxInt16; i += step16 {
		if mine() {
			narrowAll(env, int16(i))
		}
	}
	for i := 0; i <= math.MaxUint16; i += step16 {
		if mine() {
			narrowAll(env, uint16(i))
		}
	}
	b64 := []int64{0, 1, -1, 127, 128, -128, -129, 255, 256, 32767, 32768, -32768, -32769, 65535, 65536, math.MaxInt32, math.MaxInt32 + 1, math.MinInt32, math.MinInt32 - 1, math.MaxUint32, math.MaxUint32 + 1, math.MaxInt64, math.MinInt64, math.MaxInt64 - 1, math.MinInt64 + 1}
	rng := env.Rng("narrow")
	for i := 0; i < env.Size(200, 20000); i++ {
		b64 = append(b64, int64(rng.Next()))
	}
	for _, v := range b64 {
		if !mine() {
			continue
		}
		narrowAll(env, v)
		narrowAll(env, int(v))
		narrowAll(env, uint64(v))
		narrowAll(env, uint(v))
		narrowAll(env, uintptr(v))
		narrowAll(env, int32(v))
		narrowAll(env, uint32(v))
		// FHIR integer elements
		fhirconvAll(env, &dtpb.Integer{Value: int32(v)}, big.NewInt(int64(int32(v))))
		fhirconvAll(env, &dtpb.UnsignedInt{Value: uint32(v)}, new(big.Int).SetUint64(uint64(uint32(v))))
		fhirconvAll(env, &dtpb.PositiveInt{Value: uint32(v)}, new(big.Int).SetUint64(uint64(uint32(v))))
		// the element constructors of internal/fhir that narrow: succeed exactly when the value fits an int32
		c15FhirIntegerFrom(env, v)
	}
}

func c15FhirIntegerFrom(env *core.Env, v int64) {
	type res struct {
		name string
		got  *dtpb.Integer
		err  error
		fits bool
		want int64
	}
	var rs []res
	out := env.Guard(fmt.Sprintf("fhir.IntegerFrom* %d", v), func() {
		g, e := fhir.IntegerFromInt(int(v))
		rs = append(rs, res{"IntegerFromInt", g, e, v >= math.MinInt32 && v <= math.MaxInt32, v})
		u := uint32(v)
		g, e = fhir.IntegerFromUnsignedInt(&dtpb.UnsignedInt{Value: u})
		rs = append(rs, res{"IntegerFromUnsignedInt", g, e, u <= math.MaxInt32, int64(u)})
		if u > 0 {
			g, e = fhir.IntegerFromPositiveInt(&dtpb.PositiveInt{Value: u})
			rs = append(rs, res{"IntegerFromPositiveInt", g, e, u <= math.MaxInt32, int64(u)})
		}
	})
	env.Eval(3)
	env.Cover("fhir-integer-constructors")
	if out.Panicked || out.Dead {
		env.Violatef("C15/panic@"+out.Site+"/fhir.IntegerFrom", "fhir.IntegerFrom*(%d) panicked: %s", v, out.PanicMsg)
		return
	}
	for _, r := range rs {
		switch {
		case r.fits && (r.err != nil || r.got == nil || int64(r.got.GetValue()) != r.want):
			env.Violatef("C15/fhir-int/"+r.name+"/wrong-value", "fhir.%s(%d): the value fits an integer, got %v, %v", r.name, r.want, r.got, r.err)
		case !r.fits && r.err == nil:
			env.Violatef("C15/fhir-int/"+r.name+"/wrong-verdict", "fhir.%s(%d): the value does not fit an integer, yet the result is %v without an error", r.name, r.want, r.got)
		case !r.fits && !errors.Is(r.err, fhir.ErrIntegerDataLoss):
			env.Violatef("C15/fhir-int/"+r.name+"/wrong-error", "fhir.%s(%d): error %v is not ErrIntegerDataLoss", r.name, r.want, r.err)
		}
	}
}

func c15DecQty(env *core.Env) {
	defer env.In("lit", "num", "decimal-proto")()
	// quantity literals whose number is a whole number beyond the Integer range (a quantity's number is a Decimal)
	for _, q := range []string{"2147483648 'ms'", "5000000000 'ug'", "3000000000 milliseconds", "2147483647 'mg'", "99999999999999999999 'g'", "4294967296 days", "0010 'mg'", "12345678901234567890.5 'kg'"} {
		r := fx.E(env, "("+q+").toString()")
		env.Cover("quantity-literal-large")
		num := strings.TrimLeft(strings.Fields(q)[0], "0")
		if r.IsPanic() {
			env.Violatef(fx.PanicSig("C15", r), "`%s` => %s", q, r.Short())
		} else if it, ok := r.Single(); !ok || !strings.HasPrefix(it.T, num) {
			env.Violatef("C15/literal/quantity/no-value", "valid quantity literal `%s`: `(%s).toString()` = %s", q, q, trunc(r.Short(), 100))
		}
	}
	decs := []string{"0", "1", "1.0", "1.50", "-2.5", "0.001", "100", "12345678901234567890.123456789", "0.1", "0.3333333333333333333333", "99999999999.9", "-0.000000000000000000000000000001"}
	for _, d := range decs {
		dd, _ := decimal.NewFromString(d)
		sv := system.Decimal(dd)
		var back system.Any
		var err error
		out := env.Guard("Decimal.ToProtoDecimal "+d, func() { back, err = system.From(sv.ToProtoDecimal()) })
		env.Eval(1)
		env.Cover("decimal-proto")
		if out.Panicked || out.Dead {
			env.Violatef("C15/panic@"+out.Site+"/ToProtoDecimal", "Decimal %s: %s", d, out.PanicMsg)
			continue
		}
		want, _ := model.ParseNum(d)
		got, ok := model.ParseNum(fx.Render(back).T)
		if err != nil || !ok || got.Cmp(want) != 0 {
			env.Violatef("C15/sys-proto/Decimal/not-preserved", "Decimal %s -> ToProtoDecimal -> system.From = %s (%v)", d, fx.Render(back), err)
		}
		// Quantity
		for _, unit := range []string{"mg", "kg/m2", "year", "1"} {
			var qb system.Any
			var q system.Quantity
			out := env.Guard("Quantity.ToProtoQuantity "+d, func() {
				q, err = system.ParseQuantity(d, unit)
				if err != nil {
					return
				}
				qb, err = system.From(q.ToProtoQuantity())
			})
			env.Eval(1)
			env.Cover("quantity-proto")
			if out.Panicked || out.Dead {
				env.Violatef("C15/panic@"+out.Site+"/ToProtoQuantity", "Quantity %s %s: %s", d, unit, out.PanicMsg)
				continue
			}
			if err != nil || fx.Render(qb) != fx.Render(q) {
				// numerically equal values may print differently; compare value and unit
				a, b := fx.Render(q).T, fx.Render(qb).T
				an, au, _ := strings.Cut(a, " ")
				bn, bu, _ := strings.Cut(b, " ")
				ar, _ := model.ParseNum(an)
				br, okb := model.ParseNum(bn)
				if err != nil || !okb || ar.Cmp(br) != 0 || au != bu {
					cls := "value"
					if okb && ar.Cmp(br) == 0 {
						cls = "unit"
					}
					env.Violatef("C15/sys-proto/Quantity/"+cls+"-not-preserved", "Quantity %s -> ToProtoQuantity -> system.From = %s (%v)", a, b, err)
				}
			}
		}
	}
}

func runC15(env *core.Env) {
	// (a) string literals
	rng := env.Rng("strlit")
	n := 0
	// all single pieces and all ordered pairs, then random longer ones
	np := len(c15Pieces)
	for i := 0; i < np; i++ {
		n++
		if env.Mine(n) {
			c15StrLit(env, []int{i})
		}
		for j := 0; j < np; j++ {
			n++
			if env.Mine(n) {
				c15StrLit(env, []int{i, j})
			}
		}
	}
	if env.Shard == 0 {
		c15StrLit(env, nil)
	}
	for k := 0; k < env.Size(3000, 200000); k++ {
		l := 3 + rng.Intn(8)
		idxs := make([]int, l)
		for x := range idxs {
			idxs[x] = rng.Intn(np)
		}
		n++
		if env.Mine(n) {
			c15StrLit(env, idxs)
		}
	}
	// (b) numeric literals
	nums := []string{"010", "08", "09", "0777", "00010", "010.0", "08.5", "0", "1", "7", "10", "2147483647", "0001", "000", "1.0", "1.00", "0.5", "00.50", "3.14159", "1.50", "100.000", "0.000000000000000000000000000001", "123456789012345678901234567890.123456789", "1000000000000000000000000000000.0", "2147483648.0", "0.10", "12.000000000000000000000000000000"}
	for i := 0; i < env.Size(100, 5000); i++ {
		id, fd := 1+rng.Intn(9), rng.Intn(31)
		var b strings.Builder
		for k := 0; k < id; k++ {
			b.WriteByte(byte('0' + rng.Intn(10)))
		}
		if fd > 0 {
			b.WriteByte('.')
			for k := 0; k < fd; k++ {
				b.WriteByte(byte('0' + rng.Intn(10)))
			}
		}
		nums = append(nums, b.String())
	}
	// digit strings around the 32- and 64-bit limits, with the decimal point at every position (a coefficient held in a
	// machine word wraps there)
	for _, digits := range []string{"9223372036854775807", "9223372036854775808", "9999999999999999999", "18446744073709551615", "18446744073709551616", "4294967295", "4294967296", "2147483648", "99999999999999999999", "10000000000000000000", "9223372036854775809"} {
		for pos := 1; pos <= len(digits); pos++ {
			if pos == len(digits) {
				nums = append(nums, digits+".0")
			} else {
				nums = append(nums, digits[:pos]+"."+digits[pos:])
			}
		}
	}
	for _, t := range nums {
		n++
		if env.Mine(n) {
			c15Lit(env, "num", t)
		}
	}
	// (c) temporal literals
	for _, t := range c15TemporalTexts(env, rng) {
		n++
		if env.Mine(n) {
			c15Lit(env, t[0], t[1])
		}
	}
	// (d,e) proto elements: every precision enum x offsets x values
	tzs := []string{"Z", "UTC", "+05:30", "-11:00", "+14:00", "-03:30", "-00:30", "-09:45", ""}
	for k := 0; k < env.Size(60, 4000); k++ {
		days := int64(rng.Intn(200000)) - 100000 // ± 270 years around 1970
		if k%7 == 0 {
			days = []int64{-719162, 2932896, 0, 18321, 18322}[rng.Intn(5)] // 0001-01-01, 9999-12-31, epoch, leap day
		}
		secs := int64(rng.Intn(86400))
		micros := int64(rng.Intn(1000000))
		switch k % 9 {
		case 4:
			micros = 0 // a fraction of all zeros is still a fraction: the precision says so
		case 7:
			micros = []int64{500000, 1000, 999000, 100, 10}[k%5]
		}
		tz := tzs[rng.Intn(len(tzs))]
		if days <= -719162 || days >= 2932896 {
			tz = "Z" // an offset would push the local date outside 0001..9999: not a FHIR value
		}
		for p := int32(1); p <= 6; p++ {
			us := (days*86400 + secs) * 1000000
			n++
			if !env.Mine(n) {
				continue
			}
			if p <= 3 {
				c15Proto(env, "Date", us-secs*1000000, tz, p)
				// canonical: first instant of the year / month / day in UTC
				y, mo, dd := model.CivilFromDays(days)
				if p <= 1 {
					mo = 1
				}
				if p <= 2 {
					dd = 1
				}
				cus := model.DaysFromCivil(y, mo, dd) * 86400 * 1000000
				c15Proto(env, "Date", cus, []string{"Z", "UTC", ""}[k%3], p)
				c15Proto(env, "DateTime", cus, []string{"Z", "UTC", ""}[k%3], p)
			}
			v := us
			switch p {
			case 5:
				v += micros / 1000 * 1000
			case 6:
				v += micros
			}
			c15Proto(env, "DateTime", v, tz, p)
			if p == 6 {
				// elements built in code without a precision (PRECISION_UNSPECIFIED): whatever the helpers take that
				// to mean, they take it to mean the same thing
				c15Proto(env, "Instant", v, tz, 0)
				c15Proto(env, "DateTime", v, tz, 0)
				c15Proto(env, "Time", secs*1000000+micros, "", 0)
				c15Proto(env, "Date", us-secs*1000000, tz, 0)
			}
			if p >= 4 { // Instant precisions SECOND=1..MICROSECOND=3
				c15Proto(env, "Instant", v, tz, p-3)
				tv := secs * 1000000
				if p == 5 {
					tv += micros / 1000 * 1000
				} else if p == 6 {
					tv += micros
				}
				c15Proto(env, "Time", tv, "", p-3)
				// values finer than the declared precision (hand-built elements): rendered by cutting, like jsonformat
				if p < 6 {
					c15Proto(env, "Time", secs*1000000+micros, "", p-3)
					c15Proto(env, "Instant", us+micros, tz, p-3)
					edge := []int64{999600, 999999, 500, 499999, 500000, 999500, 123600}[k%7]
					c15Proto(env, "Time", (secs/60*60+59)*1000000+edge, "", p-3)
					c15Proto(env, "Time", 86399*1000000+edge, "", p-3)
					c15Proto(env, "Instant", (days*86400+secs/60*60+59)*1000000+edge, tz, p-3)
				}
			}
		}
	}
	if env.Shard == 0 {
		c15DecQty(env)
	}
	// (f) narrowing
	c15Narrow(env)
}

func c15TemporalTexts(env *core.Env, rng *core.Rng) [][2]string {
	var out [][2]string
	dates := [][3]int{{2020, 2, 29}, {1, 1, 1}, {9999, 12, 31}, {1970, 1, 1}, {2021, 12, 31}, {1999, 7, 4}, {2000, 2, 29}, {2400, 2, 29}, {1600, 2, 29}, {1900, 2, 28}, {2100, 3, 1}}
	for i := 0; i < env.Size(4, 400); i++ {
		y := 1 + rng.Intn(9999)
		m := 1 + rng.Intn(12)
		out2 := [3]int{y, m, 1 + rng.Intn(28)}
		dates = append(dates, out2)
	}
	times := [][3]int{{0, 0, 0}, {23, 59, 59}, {10, 30, 45}, {12, 0, 0}}
	for i := 0; i < env.Size(2, 60); i++ {
		times = append(times, [3]int{rng.Intn(24), rng.Intn(60), rng.Intn(60)})
	}
	fracs := []string{"", ".5", ".12", ".123", ".000", ".1234", ".12345", ".123456", ".999", ".001", ".0005"}
	offs := []string{"", "Z", "+05:30", "-11:00", "+00:00", "+14:00", "-03:30", "-00:30"}
	for _, d := range dates {
		out = append(out, [2]string{"Date", fmt.Sprintf("%04d", d[0])}, [2]string{"Date", fmt.Sprintf("%04d-%02d", d[0], d[1])}, [2]string{"Date", fmt.Sprintf("%04d-%02d-%02d", d[0], d[1], d[2])})
		out = append(out, [2]string{"DateTime", fmt.Sprintf("%04dT", d[0])}, [2]string{"DateTime", fmt.Sprintf("%04d-%02dT", d[0], d[1])}, [2]string{"DateTime", fmt.Sprintf("%04d-%02d-%02dT", d[0], d[1], d[2])})
		t := times[rng.Intn(len(times))]
		base := fmt.Sprintf("%04d-%02d-%02dT", d[0], d[1], d[2])
		for _, o := range offs {
			out = append(out, [2]string{"DateTime", base + fmt.Sprintf("%02d", t[0]) + o})
			out = append(out, [2]string{"DateTime", base + fmt.Sprintf("%02d:%02d", t[0], t[1]) + o})
			for _, f := range fracs {
				out = append(out, [2]string{"DateTime", base + fmt.Sprintf("%02d:%02d:%02d", t[0], t[1], t[2]) + f + o})
			}
		}
	}
	for _, t := range times {
		out = append(out, [2]string{"Time", fmt.Sprintf("%02d", t[0])}, [2]string{"Time", fmt.Sprintf("%02d:%02d", t[0], t[1])})
		for _, f := range fracs {
			out = append(out, [2]string{"Time", fmt.Sprintf("%02d:%02d:%02d", t[0], t[1], t[2]) + f})
		}
	}
	return out
}
