#!/usr/bin/env python3
"""Regenerates MANIFEST.json from the table below (kept in one place so the manifest stays valid)."""
import json, subprocess, sys
CLAIMED = json.load(open('/verif/bin/claims.json'))
props = [json.loads(l) for l in open('/verif/properties.jsonl')]
hooks_commits = CLAIMED.get('hook_commits', [])
checks = []
na = []
for p in props:
    pid = p['id']
    c = CLAIMED['checks'].get(pid)
    if not c:
        na.append({"property_id": pid, "reason": CLAIMED['not_applicable'].get(pid, "monitor not built yet (under construction)")})
        continue
    checks.append({
        "property_id": pid,
        "quick_cmd": f"bin/check {pid} quick",
        "thorough_cmd": f"bin/check {pid} thorough",
        "evidence_file": f"/verif/evidence/{pid}.json",
        "replay_cmd_template": f"bin/check {pid} --replay {{path}}",
        "engine": "verifmon",
        "level_claimed": {"category": "exploration", "text": c['text'], "design_ref": c['design_ref']},
        "level_note": c['note'],
        "technique": c['technique'],
    })
m = {
    "version": 1,
    "setup_cmd": "bin/setup",
    "hooks": {
        "guard": "verif",
        "enable": "go build -tags verif (bin/check copies /repo's working tree to a scratch dir, injects /verif/harness as fhirpath/verifharness and builds with -tags verif)",
        "baseline_off_cmd": "cd /repo && GOFLAGS=-mod=mod GOPROXY=off GOSUMDB=off GOTOOLCHAIN=local go test -vet=off -count=1 ./...",
        "source_commits": hooks_commits,
        "add_only": True,
    },
    "engines": [{"name": "verifmon", "path": "/verif/harness", "serves_properties": [c['property_id'] for c in checks],
                 "kind_free_text": "Go runtime-monitoring harness injected into a scratch copy of the repository: generated workloads through the public API in child processes, reference-model / relational / invariant monitors over the observed outcomes, Go race detector for C04"}],
    "checks": checks,
    "notes": CLAIMED.get('notes', ''),
    "not_applicable": na,
}
json.dump(m, open('/verif/MANIFEST.json', 'w'), indent=1)
print("wrote MANIFEST.json with", len(checks), "checks,", len(na), "not_applicable")
